"""
C05 - bit library macros compute their documented function for every operand.
Same machinery as C04 (StlSem.tla semantics, the arena, TLC as oracle for every step): bit.vec variables,
macros of bit/memory, logics, cond_jumps, shifts, math, mul, div.
"""
from __future__ import annotations

import random
from typing import List

from fjv import engines
from fjv.arena import Arena, Block
from fjv.core import Check
from fjv.stl_common import assemble_blaming, compare, oracle, run_behaviours

VARS = ["x", "y", "z", "t", "u"]
ND = 70


def bit_blocks(rng: random.Random, sizes: List[int], w: int) -> List[Block]:
    B: List[Block] = []

    def add(key, fj, nv, n=0, m=0, sh=0, c=0, branches=(), name=None):
        B.append(Block(key, fj, rng.sample(VARS, nv), n, m, sh, c, branches, name or fj.split(" ")[0]))

    for n in sizes:
        add("zero", "bit.zero {n}, {v0}", 1, n)
        add("one", "bit.one {n}, {v0}", 1, n)
        add("mov", "bit.mov {n}, {v0}, {v1}", 2, n)
        add("swap", "bit.swap {n}, {v0}, {v1}", 2, n)
        add("xor", "bit.xor {n}, {v0}, {v1}", 2, n)
        add("xor_zero", "bit.xor_zero {n}, {v0}, {v1}", 2, n)
        add("or", "bit.or {n}, {v0}, {v1}", 2, n)
        add("and", "bit.and {n}, {v0}, {v1}", 2, n)
        add("not", "bit.not {n}, {v0}", 1, n)
        add("if", "bit.if {n}, {v0}, {l0}, {l1}", 1, n, branches=("l0", "l1"))
        add("if0", "bit.if0 {n}, {v0}, {l0}", 1, n, branches=("l0",))
        add("if1", "bit.if1 {n}, {v0}, {l1}", 1, n, branches=("l1",))
        add("cmp", "bit.cmp {n}, {v0}, {v1}, {lt}, {eq}, {gt}", 2, n, branches=("lt", "eq", "gt"))
        add("shr", "bit.shr {n}, {v0}", 1, n, sh=1, name="bit.shr(2)")
        add("shl", "bit.shl {n}, {v0}", 1, n, sh=1, name="bit.shl(2)")
        add("shr", "bit.shr {n}, {sh}, {v0}", 1, n, sh=rng.randrange(0, n + 1), name="bit.shr(3)")
        add("shl", "bit.shl {n}, {sh}, {v0}", 1, n, sh=rng.randrange(0, n + 1), name="bit.shl(3)")
        add("shra", "bit.shra {n}, {sh}, {v0}", 1, n, sh=rng.randrange(0, n + 1))
        add("ror", "bit.ror {n}, {v0}", 1, n, sh=1)
        add("rol", "bit.rol {n}, {v0}", 1, n, sh=1)
        add("inc", "bit.inc {n}, {v0}", 1, n)
        add("dec", "bit.dec {n}, {v0}", 1, n)
        add("neg", "bit.neg {n}, {v0}", 1, n)
        add("add", "bit.add {n}, {v0}, {v1}", 2, n)
        add("sub", "bit.sub {n}, {v0}, {v1}", 2, n)
        # the same variable as destination and source (x ^= x; x = 0 / x -= x): the documentation sets no restriction on it
        va = rng.choice(VARS)
        B.append(Block("xor_zero", "bit.xor_zero {n}, {v0}, {v1}", [va, va], n, name="bit.xor_zero[dst=src]"))
        B.append(Block("sub", "bit.sub {n}, {v0}, {v1}", [va, va], n, name="bit.sub[dst=src]"))
        add("mul10", "bit.mul10 {n}, {v0}", 1, n)
        add("div10", "bit.div10 {n}, {v0}, {v1}", 2, n)
        if n <= 16:
            add("mul2", "bit.mul {n}, {v0}, {v1}", 2, n, name="bit.mul")
            add("mul2", "bit.mul_loop {n}, {v0}, {v1}", 2, n, name="bit.mul_loop")
            add("divb", "bit.div {n}, {v0}, {v1}, {v2}, {v3}", 4, n, name="bit.div")
            add("divb", "bit.div_loop {n}, {v0}, {v1}, {v2}, {v3}", 4, n, name="bit.div_loop")
            add("idivb", "bit.idiv {n}, {v0}, {v1}, {v2}, {v3}", 4, n, name="bit.idiv")
            add("idivb", "bit.idiv_loop {n}, {v0}, {v1}, {v2}, {v3}", 4, n, name="bit.idiv_loop")
    add("zero", "bit.zero {v0}", 1, 1, name="bit.zero(1)")
    add("one", "bit.one {v0}", 1, 1, name="bit.one(1)")
    add("mov", "bit.mov {v0}, {v1}", 2, 1, name="bit.mov(2)")
    add("swap", "bit.swap {v0}, {v1}", 2, 1, name="bit.swap(2)")
    add("xor", "bit.xor {v0}, {v1}", 2, 1, name="bit.xor(2)")
    add("xor_zero", "bit.xor_zero {v0}, {v1}", 2, 1, name="bit.xor_zero(2)")
    add("or", "bit.or {v0}, {v1}", 2, 1, name="bit.or(2)")
    add("and", "bit.and {v0}, {v1}", 2, 1, name="bit.and(2)")
    add("not", "bit.not {v0}", 1, 1, name="bit.not(1)")
    add("if", "bit.if {v0}, {l0}, {l1}", 1, 1, branches=("l0", "l1"), name="bit.if(3)")
    add("cmp", "bit.cmp {v0}, {v1}, {lt}, {eq}, {gt}", 2, 1, branches=("lt", "eq", "gt"), name="bit.cmp(5)")
    # the exact variants: the destination is a BIT ADDRESS (here: the data bit of digit sh of a variable)
    for k in (0, 1, 5):
        add("xor_at", "bit.exact_not {v0}+dbit+{sh}*dw", 1, 1, m=0, sh=k)
        add("xor_at", "bit.exact_xor {v0}+dbit+{sh}*dw, {v1}", 2, 1, m=1, sh=k)
    add("xor_at2", "bit.double_exact_xor {v0}+dbit+{sh}*dw, {v1}+dbit+{m}*dw, {v2}", 3, 1, m=3, sh=2)
    add("mov", "bit.unsafe_mov {v0}, {v1}", 2, 1, name="bit.unsafe_mov")
    add("inc1b", "bit.inc1 {v0}, {v1}", 2, 1)
    add("add1b", "bit.add1 {v0}, {v1}, {v2}", 3, 1)
    return B


ND_CUR = [ND]


def gen_value(rng: random.Random, n: int) -> int:
    top = 1 << max(n, 1)
    low = rng.choice([0, 1, top - 1, top // 2, top // 2 - 1, 10, 9, 5, rng.randrange(top), rng.randrange(top), rng.randrange(min(top, 64))]) % top
    high = rng.randrange(1 << (ND_CUR[0] - n)) if rng.random() < 0.8 else 0
    return high * top + low


def all_pairs(rng, blocks, limit):
    idx = [(a, b) for a in range(len(blocks)) for b in range(len(blocks))]
    if len(idx) > limit:
        idx = rng.sample(idx, limit)
    return [[{"block": a, "set": {v: gen_value(rng, blocks[a].n) for v in VARS}},
             {"block": b, "set": {v: gen_value(rng, blocks[b].n) for v in blocks[b].v}}] for a, b in idx]


def sequences(rng, blocks, count, maxlen):
    out = []
    for i in range(count):
        beh = []
        for k in range(rng.randint(1, maxlen)):
            bi = i % len(blocks) if k == 0 else rng.randrange(len(blocks))
            blk = blocks[bi]
            beh.append({"block": bi, "set": {v: gen_value(rng, blk.n) for v in (VARS if k == 0 else [x for x in blk.v if rng.random() < 0.6])}})
        out.append(beh)
    return out


def run_width(chk: Check, fjm_run, w, sizes, nseq, maxlen, npairs, rng, engine="native-flat"):
    from flipjump.utils.exceptions import FlipJumpException
    blocks = bit_blocks(rng, sizes, w)
    init = "stl.startup_and_init_all"
    if w == 16:
        # 2^16 bits of address space = 2048 ops: no room for the hex tables, and only for a few small blocks
        init = "stl.startup"
        cheap = {"xor_at", "xor_at2", "zero", "one", "mov", "swap", "xor", "xor_zero", "or", "and", "not", "if", "if0", "if1", "cmp", "shr", "shl", "shra", "ror", "rol",
                 "inc", "dec", "neg", "add", "sub", "inc1b", "add1b"}
        blocks = [b for b in blocks if b.key in cheap]
    arena, blocks = assemble_blaming(chk, lambda bl: Arena(fjm_run, w, "bit", VARS, ND if w > 16 else 12, bl, engine=engine, init=init), blocks,
                                     f"bit w={w}", min_blocks=8)
    try:
        ND_CUR[0] = arena.nd
        behs = sequences(rng, blocks, nseq, maxlen) + all_pairs(rng, blocks, npairs)
        expected = oracle(chk, 2, VARS, blocks, behs, f"StlSem[bit w={w}]")
        results, broken = run_behaviours(arena, behs)
        n = compare(chk, arena, behs, results, broken, expected, blocks, f"bit w={w} {engine}")
        chk.traces += len(behs)
        chk.extra["steps_compared"] = chk.extra.get("steps_compared", 0) + n
        chk.extra.setdefault("arenas", []).append({"w": w, "engine": engine, "blocks": len(blocks), "assemble_s": round(arena.asm_seconds, 1),
                                                   "macros": sorted({b.name for b in blocks}), "behaviours": len(behs)})
        chk.sample({"kind": "behaviour", "w": w, "steps": [{"macro": blocks[s["block"]].fj, "n": blocks[s["block"]].n, "set": {k: hex(v) for k, v in s["set"].items()}} for s in behs[0]]})
    finally:
        arena.close()


def run(chk: Check, replay=None):
    quick = chk.tier == "quick"
    rng = random.Random(chk.seed + 5)
    so = str(engines.build_native())
    fjm_run = engines.setup(so_path=so)
    chk.assumptions += ["StlSem.tla is a transcription of the documentation lines of the bit macros (bit.neg is taken as negation: its doc line repeats dec's)",
                        "operands of one call are distinct variables, except in the blocks named with [..] (bit.xor_zero[dst=src], bit.sub[dst=src]: KF-9); bit vectors of 70 bits, sizes up to 64"]
    if quick:
        run_width(chk, fjm_run, 64, [1, 2, 4, 8], 400, 4, 6000, rng)
        run_width(chk, fjm_run, 16, [3, 5], 200, 4, 1200, rng)
        run_width(chk, fjm_run, 32, [4], 100, 3, 600, rng)
    else:
        run_width(chk, fjm_run, 64, [1, 2, 3, 4, 5, 6, 7, 8, 16, 33, 64], 5000, 12, 60000, rng)
        run_width(chk, fjm_run, 32, [1, 2, 4, 8, 16, 32], 3000, 12, 30000, rng)
        run_width(chk, fjm_run, 16, [1, 3, 5, 8, 16], 3000, 12, 20000, rng)
        run_width(chk, fjm_run, 64, [1, 2, 5], 1000, 6, 2000, rng, engine="fast")
