"""
C13 - assembly output is a pure function of its inputs.

FJAsmProc.tla models what outlives a call inside one process (the stl-prefix parse cache, the interpreter's recursion
limit) and states the design: the snapshot under a key depends on the key only, entries are immutable, results are
pure.  TLC checks those on the model and enumerates every history of bounded length over an alphabet of call kinds
(programs x width x warning mode x recursion depth x stl / explicit-stl-paths / no-stl, failing inputs included).
Every history is replayed in ONE fresh interpreter (working directory changing between calls) which logs, after each
call, the digest of the produced .fjm + .fjd bytes (or the failure class), every cache key with a deep structural
digest of its snapshot, and the recursion limit; the table Pure is obtained from fresh processes (one call each, in
another directory, PYTHONHASHSEED varied).  TLC judges every history log (Trace_FJAsmProc).
"""
from __future__ import annotations

import json
import os
import random
import shutil
import subprocess
import sys
import tempfile
from concurrent.futures import ThreadPoolExecutor
from pathlib import Path
from typing import Dict, List

from fjv import c01, tlc
from fjv.core import Check, MachineryFailure

PROGS = {
    "hello.fj": 'N = 5\ndef greet c {\n  stl.output c\n}\nstl.startup\n  greet \'H\'\n  greet \'0\' + N\n  stl.loop\n',
    "reuse.fj": 'def mark > N {\n  N:\n}\nstl.startup\n  ;N\nmark\n  stl.loop\n',
    "constuse.fj": 'stl.startup\n  stl.output \'0\' + N\n  stl.loop\n',
    "syntaxns.fj": 'stl.startup\nns broken {\n  def f {\n    ;;;\n  }\n',
    "dupmacro.fj": 'def twice {\n ;\n}\ndef twice {\n ;\n}\nstl.startup\n stl.loop\n',
    "unknown.fj": ';main\nmain:\n  nosuchmacro 1, 2\n',
    "recur.fj": 'def r {\n  r\n}\nstl.startup\n r\n stl.loop\n',
    "deep.fj": 'def down n {\n  rep(n > 0, i) down n - 1\n  rep(n == 0, i) leaf\n}\ndef leaf {\n  ;code' + '+1' * 300 + '\n}\n;code\ncode:\n  down 880\nhalt:\n  ;halt\n',
    "leafy.fj": 'def leaf < code {\n  ;code' + '+1' * 300 + '\n}\n;code\ncode:\n  leaf\nhalt:\n  ;halt\n',
    "small.fj": ';code\ncode:\n  wflip d, 5\n  ;code\nd:\n  ;0\n',
    "bigconst.fj": 'N = 7\nM = N * 3\nstl.startup\n  stl.output \'0\' + M - N\n  stl.loop\n',
}

CALLS = [
    dict(prog="hello.fj", w=64, werror=True, depth=900, mode="stl"),
    dict(prog="hello.fj", w=64, werror=False, depth=900, mode="stl"),
    dict(prog="hello.fj", w=32, werror=True, depth=900, mode="stl"),
    dict(prog="hello.fj", w=64, werror=True, depth=10000, mode="stl"),
    dict(prog="hello.fj", w=64, werror=True, depth=900, mode="explicit"),
    dict(prog="reuse.fj", w=64, werror=True, depth=900, mode="stl"),
    dict(prog="constuse.fj", w=64, werror=True, depth=900, mode="stl"),
    dict(prog="syntaxns.fj", w=64, werror=True, depth=900, mode="stl"),
    dict(prog="dupmacro.fj", w=64, werror=True, depth=900, mode="stl"),
    dict(prog="unknown.fj", w=64, werror=True, depth=900, mode="nostl"),
    dict(prog="recur.fj", w=64, werror=True, depth=900, mode="stl"),
    dict(prog="recur.fj", w=64, werror=True, depth=5, mode="stl"),
    dict(prog="deep.fj", w=64, werror=True, depth=900, mode="nostl"),
    dict(prog="small.fj", w=64, werror=True, depth=900, mode="nostl"),
    dict(prog="hello.fj", w=64, werror=True, depth=5, mode="stl"),
    dict(prog="reuse.fj", w=32, werror=False, depth=900, mode="stl"),
    dict(prog="bigconst.fj", w=64, werror=True, depth=900, mode="stl"),
    dict(prog="small.fj", w=16, werror=False, depth=2000, mode="nostl"),
    dict(prog="leafy.fj", w=64, werror=True, depth=900, mode="nostl"),
    dict(prog="small.fj", w=64, werror=True, depth=5, mode="nostl"),
    dict(prog="small.fj", w=64, werror=False, depth=900, mode="partial"),
    dict(prog="small.fj", w=64, werror=True, depth=900, mode="partial"),
]


def key_name(c: dict) -> str:
    if c["mode"] == "nostl":
        return "none"
    return f"{c['mode']}-{c['w']}-{c['werror']}"


def run_history(calls: List[dict], progdir: Path, workdirs: List[Path], scratch: Path, tag: str, hashseed: str = "0") -> List[dict]:
    hp = scratch / f"h_{tag}.json"
    op = scratch / f"o_{tag}.json"
    # private working directories for this history (several runs are in flight at once)
    workdirs = [scratch / f"wd_{tag}" / rel for rel in (["x"] if len(workdirs) == 1 else ["a", "deeper/b", "c"])]
    for w_ in workdirs:
        w_.mkdir(parents=True, exist_ok=True)
    hp.write_text(json.dumps({"calls": calls, "progdir": str(progdir), "workdirs": [str(w) for w in workdirs]}))
    env = dict(os.environ)
    env["PYTHONHASHSEED"] = hashseed
    env["PYTHONPATH"] = str(Path(__file__).resolve().parent.parent)
    p = subprocess.run([sys.executable, "-m", "fjv.c13_child", str(hp), str(op)], env=env, cwd=str(scratch), capture_output=True, text=True, timeout=900)
    if p.returncode != 0 or not op.exists():
        raise MachineryFailure(f"history child failed (rc={p.returncode}):\n{p.stderr[-2000:]}")
    shutil.rmtree(scratch / f"wd_{tag}", ignore_errors=True)
    return json.load(open(op))


def run(chk: Check, replay=None):
    quick = chk.tier == "quick"
    rng = random.Random(chk.seed + 13)
    chk.assumptions += [
        "call alphabet of 22 kinds; histories of <= 2 (quick: all pairs + sampled triples) or <= 3 calls followed by being compared call by call",
        "Pure is measured: one call per fresh process, in a different directory and under PYTHONHASHSEED 0/1/random; the three must agree",
    ]
    calls = [dict(c, id=i + 1) for i, c in enumerate(CALLS)]
    keys = [key_name(c) for c in calls]
    # TLC: the model's properties + the histories
    maxlen = 2 if quick else 3
    root = "---- MODULE MCproc ----\nEXTENDS FJAsmProc\nKeys_def == <<" + ", ".join('"' + k + '"' for k in keys) + ">>\n====\n"
    cfg = f"""SPECIFICATION Spec
CONSTANTS
  Calls = {{{", ".join(str(i + 1) for i in range(len(calls)))}}}
  Keys <- Keys_def
  MaxLen = {maxlen}
  EmitOn = TRUE
INVARIANT KeyDeterminesSnapshot
INVARIANT ResultIsPure
PROPERTY CacheEntriesImmutable
CONSTRAINT Emit
CHECK_DEADLOCK FALSE
"""
    res = tlc.run_tlc("MCproc", cfg, workers=4, extra_modules={"MCproc": root}, timeout=1800, heap="4g")
    chk.add_tlc(res, "FJAsmProc (all histories)", exhaustive=True, maxlen=maxlen)
    hists = [h["h"] for h in res.emitted.get("H", [])]
    if not hists:
        raise MachineryFailure("no histories emitted")
    full = [h for h in hists if len(h) == maxlen]
    if quick:
        # all pairs + 120 sampled triples (built from pairs)
        sel = full + [rng.choice(full) + [rng.randrange(1, len(calls) + 1)] for _ in range(120)]
    else:
        sel = full if len(full) <= 3000 else rng.sample(full, 3000)
    base = Path(tempfile.mkdtemp(prefix="fjv_c13_"))
    try:
        progdir = base / "progs"
        progdir.mkdir()
        for n, t in PROGS.items():
            (progdir / n).write_text(t)
        wd = [base / "w1", base / "deeper" / "w2", base / "w3"]
        for w in wd:
            w.mkdir(parents=True)
        scratch = base / "scratch"
        scratch.mkdir()
        # the pure table: one call per fresh process, other directory, three hash seeds
        freshdir = base / "elsewhere" / "fresh"
        freshdir.mkdir(parents=True)

        def fresh(c):
            outs = [run_history([c], progdir, [freshdir], scratch, f"f{c['id']}_{hs}", hs) for hs in ("0", "1", "random")]
            return c["id"], [o[0] for o in outs]
        with ThreadPoolExecutor(max_workers=16) as ex:
            fr = dict(ex.map(fresh, calls))
        fresh_digest, freshkeys, freshsnaps = [], [], []
        for c in calls:
            ds = {o["digest"] for o in fr[c["id"]]}
            if len(ds) != 1:
                chk.violation({"what": "hash-seed dependence", "call": c["id"]},
                              f"call {c} gives different results under different PYTHONHASHSEED in fresh processes: {sorted(ds)}", {"call": c, "digests": sorted(ds)})
            fresh_digest.append(fr[c["id"]][0]["digest"])
            for k, s in zip(fr[c["id"]][0]["keys"], fr[c["id"]][0]["snaps"]):
                if k not in freshkeys:
                    freshkeys.append(k)
                    freshsnaps.append(s)
        chk.extra["pure_table"] = {f"{c['id']}:{c['prog']}/{c['w']}/{c['mode']}/d{c['depth']}": d for c, d in zip(calls, fresh_digest)}

        def one(args):
            i, h = args
            return run_history([calls[c - 1] for c in h], progdir, wd, scratch, f"r{i}")
        with ThreadPoolExecutor(max_workers=16) as ex:
            runs = list(ex.map(one, list(enumerate(sel))))
        trace = {"fresh": fresh_digest, "depth": [c["depth"] for c in calls], "freshkeys": freshkeys, "freshsnaps": freshsnaps,
                 "runs": [[{k: s[k] for k in ("c", "digest", "keys", "snaps", "reclimit")} for s in r] for r in runs]}
        tf = scratch / "trace.json"
        tf.write_text(json.dumps(trace))
        vres = tlc.run_tlc("Trace_FJAsmProc", "SPECIFICATION Spec\nCONSTRAINT Verdict\nCHECK_DEADLOCK FALSE\n", workers=1,
                           env={"TRACE_FILE": str(tf)}, timeout=1800)
        chk.add_tlc(vres, "Trace_FJAsmProc", histories=len(sel))
        verdicts = {v["tid"] - 1: v for v in vres.emitted.get("V", [])}
    finally:
        shutil.rmtree(base, ignore_errors=True)
    chk.traces += len(sel)
    chk.extra["histories_replayed"] = len(sel)
    chk.sample({"kind": "history", "calls": [calls[c - 1] for c in sel[0]], "log": runs[0]})
    for i, h in enumerate(sel):
        v = verdicts.get(i)
        if v is None:
            raise MachineryFailure(f"no verdict for history {i}")
        if v["fail"]:
            k = (v["spec"]["impure"] or v["spec"]["mutated"] or v["spec"]["wrongsnap"] or v["spec"]["badlimit"] or [1])[0]
            step = runs[i][k - 1]
            chk.violation({"clauses": ",".join(sorted(v["fail"]))},
                          f"history {[ (calls[c-1]['prog'], calls[c-1]['w'], calls[c-1]['mode'], calls[c-1]['depth']) for c in h]}: rejected by Trace_FJAsmProc {v['fail']}; "
                          f"step {k}: got {step['digest']}, fresh process gives {fresh_digest[step['c'] - 1]}",
                          {"history": [calls[c - 1] for c in h], "log": runs[i], "verdict": v})
