"""
C06 - writing then reading an .fjm preserves the memory image in every version.
See fjv/fmt.py and specs/FJMFormat.tla.
(A) MC_FJMFormat: every bounded writer call sequence at w=8/16 x versions 0-2: RoundTrip and
    TornPrefixRejectedOrSame hold in the specification; every emitted sequence is performed on the real Writer
    (accept/refuse per call, file bytes for versions 0-2, version 3 alongside version 2) and read back.
(B) generated call sequences at w=8/16/32/64 (high addresses, relative-jump wrap-around, shared / out-of-pool /
    odd data ranges, zero tails around the lazy threshold, out-of-range values, lzma presets): TLC judges every
    record (Trace_FJMFormat): per-call acceptance, bytes, loaded segments and words, validity outside segments.
"""
from __future__ import annotations

import random

from fjv import engines, fmt, par, tlc
from fjv.core import Check, MachineryFailure


def key_of(rec, fail):
    fl = sorted(fail)
    return {"clauses": ",".join(fl), "version_class": "rel" if rec.get("version", 0) >= 2 else "plain"}


def run(chk: Check, replay=None):
    quick = chk.tier == "quick"
    rng = random.Random(chk.seed + 6)
    so = str(engines.build_native())
    chk.assumptions += [
        "version 3 payloads are an opaque injective codec in the specification (LZMA2 raw); v3 files are compared through the loaded image",
        "exhaustive part: w=8/16, <=2-3 segments, <=6 data words; other widths by seeded generation judged by TLC",
    ]
    jobs = fmt.mc_jobs(quick)
    results = tlc.run_many([dict(module="MCfmt", cfg_text=c, extra_modules=x, workers=4, heap="6g", timeout=3600) for _, (c, x) in jobs], parallel=4)
    emitted = []
    for (name, _), res in zip(jobs, results):
        chk.add_tlc(res, f"MC_FJMFormat[{name}]", exhaustive=True, sequences=len(res.emitted.get("W", [])))
        emitted += res.emitted.get("W", [])
    if not emitted:
        raise MachineryFailure("no writer sequences emitted")
    # every sequence is checked in the model; the replay takes a seeded sample (quick 12,000, thorough 150,000)
    cap = 12000 if quick else 150000
    chk.extra["A_sequences_emitted"] = len(emitted)
    if len(emitted) > cap:
        emitted = rng.sample(emitted, cap)
    outs = par.pmap(fmt._replay_emitted, [(i, st, False) for i, st in enumerate(emitted)], so_path=so, procs=16, chunksize=32)
    records = []
    for bl in outs:
        for b in bl:
            if "record" in b:
                records.append(b["record"])
            else:
                chk.violation({"route": b["route"], "clauses": ",".join(sorted(d[0] for d in b["diffs"])), "version_class": "rel" if b["version"] >= 2 else "plain"},
                              f"real Writer/Reader differ from FJMFormat (version {b['version']}): {[d[:3] for d in b['diffs']]}", b)
    chk.extra["A_sequences_replayed"] = len(emitted)
    # (B)
    ncases = 1500 if quick else 30000
    work = []
    for i in range(ncases):
        w = [8, 16, 32, 64][i % 4]
        work.append((i, w, rng.randrange(4), rng.randrange(10), fmt.gen_calls(rng, w)))
    gen = par.pmap(fmt._run_write_case, work, so_path=so, procs=16, chunksize=32)
    records += gen
    chk.extra["B_generated_sequences"] = ncases
    verdicts = fmt.validate(chk, records, "Trace_FJMFormat[write]")
    chk.traces += len(records)
    chk.sample({"kind": "writer sequence", "calls": gen[0]["calls"], "obs_steps": gen[0]["obs"]["steps"], "final": gen[0]["obs"]["final"]})
    for i, rec in enumerate(records):
        v = verdicts.get(i)
        if v is None:
            raise MachineryFailure(f"no verdict for record {i}")
        if v["fail"]:
            chk.violation(key_of(rec, v["fail"]),
                          f"w={rec['w']} version={rec['version']}: writer sequence rejected by Trace_FJMFormat: {v['fail']}; steps {rec['obs']['steps']} final {rec['obs']['final']} reader {rec.get('rexc')}; spec {v['spec']}",
                          {"record": {k: rec[k] for k in ("w", "version", "calls", "obs")}, "verdict": v})
