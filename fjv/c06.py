"""
C06 - writing then reading an .fjm preserves the memory image in every version.
See fjv/fmt.py and specs/FJMFormat.tla.
(A) MC_FJMFormat: every bounded writer call sequence at w=8/16 x versions 0-2: RoundTrip and
    TornPrefixRejectedOrSame hold in the specification; every emitted sequence is performed on the real Writer
    (accept/refuse per call, file bytes for versions 0-2, version 3 alongside version 2) and read back.
(B) generated call sequences at w=8/16/32/64 (high addresses, relative-jump wrap-around, shared / out-of-pool /
    odd data ranges, zero tails around the lazy threshold, out-of-range values, lzma presets): TLC judges every
    record (Trace_FJMFormat): per-call acceptance, bytes, loaded segments and words, validity outside segments.
"""
from __future__ import annotations

import json
import random
import shutil
import tempfile
from pathlib import Path

from fjv import engines, fmt, par, tlc
from fjv.core import Check, MachineryFailure


def key_of(rec, fail):
    fl = sorted(fail)
    return {"clauses": ",".join(fl), "version_class": "rel" if rec.get("version", 0) >= 2 else "plain"}


def _scale_case(args):
    """one segment of > 8 MiB of data with a repeat further back than 8 MiB (so that a compressor with a large window refers to
    it); written with the real Writer, read with the real Reader; digests of what went in and what came out"""
    import hashlib
    w, version, preset, nwords, seed = args
    par.fjm_run()
    from flipjump.fjm.fjm_consts import FJMVersion
    from flipjump.fjm.fjm_reader import Reader
    from flipjump.fjm.fjm_writer import Writer
    rnd = random.Random(seed)
    first = [rnd.getrandbits(w) for _ in range(nwords)]
    data = first + first[: nwords // 8]
    if len(data) % 2:
        data.append(0)
    d = Path(tempfile.mkdtemp(prefix="fjv_c06s_"))
    rec = {"w": w, "version": version, "preset": preset, "nin": len(data), "segs": [[0, len(data)]], "written": False, "rok": False,
           "rsegs": [], "nout": 0, "din": "", "dout": "", "err": ""}
    try:
        hin = hashlib.sha256()
        for v in data:
            hin.update(v.to_bytes(8, "little"))
        rec["din"] = hin.hexdigest()
        path = d / "big.fjm"
        try:
            kw = {"lzma_preset": preset} if version == 3 else {}
            wr = Writer(path, w, FJMVersion(version), **kw)
            wr.add_data(data)
            wr.add_segment(0, len(data), 0, len(data))
            wr.write_to_file()
            rec["written"] = True
        except BaseException as e:  # noqa: BLE001
            rec["err"] = f"write: {type(e).__name__}: {str(e)[:120]}"
            return rec
        try:
            r = Reader(path)
            rec["rok"] = True
            rec["rsegs"] = [[s_.segment_start, s_.segment_length] for s_ in r.memory_segments]
            hout = hashlib.sha256()
            n = 0
            for i in range(len(data)):
                hout.update(r.memory.get(i, 0).to_bytes(8, "little"))
                n += 1
            rec["nout"], rec["dout"] = n, hout.hexdigest()
        except BaseException as e:  # noqa: BLE001
            rec["err"] = f"read: {type(e).__name__}: {str(e)[:120]}"
    finally:
        shutil.rmtree(d, ignore_errors=True)
    return rec


def scale_part(chk: Check, so: str, quick: bool, rng: random.Random):
    plans = [(64, 3, 6), (64, 3, 9)] if quick else [(64, 3, 0), (64, 3, 6), (64, 3, 7), (64, 3, 8), (64, 3, 9), (32, 3, 9), (64, 2, 0)]
    work = [(w, v, p, 1_200_000 if w == 64 else 2_400_000, chk.seed * 31 + k) for k, (w, v, p) in enumerate(plans)]
    recs = par.pmap(_scale_case, work, so_path=so, procs=min(4, len(work)), chunksize=1)
    scratch = Path(tempfile.mkdtemp(prefix="fjv_c06st_"))
    try:
        f = scratch / "s.json"
        f.write_text(json.dumps([{k: r[k] for k in ("written", "rok", "segs", "rsegs", "nin", "nout", "din", "dout")} for r in recs]))
        res = tlc.run_tlc("Trace_FJMScale", "SPECIFICATION Spec\nCONSTRAINT Verdict\nCHECK_DEADLOCK FALSE\n", workers=1, env={"TRACE_FILE": str(f)}, timeout=600)
    finally:
        shutil.rmtree(scratch, ignore_errors=True)
    chk.add_tlc(res, "Trace_FJMScale", records=len(recs))
    verdicts = {v["tid"] - 1: v for v in res.emitted.get("V", [])}
    for i, r in enumerate(recs):
        v = verdicts.get(i)
        if v is None:
            raise MachineryFailure(f"no verdict for scale record {i}")
        if v["fail"]:
            chk.violation({"route": "scale", "clauses": ",".join(sorted(v["fail"])), "version_class": "compressed" if r["version"] == 3 else "plain"},
                          f"w={r['w']} version={r['version']} lzma preset {r['preset']}: {r['nin']} words written, then {v['fail']} fail ({r['err']})",
                          {k: r[k] for k in r if k not in ()})
    chk.traces += len(recs)
    chk.extra["scale_cases"] = [{"w": r["w"], "version": r["version"], "preset": r["preset"], "words": r["nin"]} for r in recs]


def run(chk: Check, replay=None):
    quick = chk.tier == "quick"
    rng = random.Random(chk.seed + 6)
    so = str(engines.build_native())
    chk.assumptions += [
        "version 3 payloads are an opaque injective codec in the specification (LZMA2 raw); v3 files are compared through the loaded image",
        "exhaustive part: w=8/16, <=2-3 segments, <=6 data words; other widths by seeded generation judged by TLC",
    ]
    jobs = fmt.mc_jobs(quick)
    results = tlc.run_many([dict(module="MCfmt", cfg_text=c, extra_modules=x, workers=4, heap="6g", timeout=3600) for _, (c, x) in jobs], parallel=4)
    emitted = []
    for (name, _), res in zip(jobs, results):
        chk.add_tlc(res, f"MC_FJMFormat[{name}]", exhaustive=True, sequences=len(res.emitted.get("W", [])))
        emitted += res.emitted.get("W", [])
    if not emitted:
        raise MachineryFailure("no writer sequences emitted")
    # every sequence is checked in the model; the replay takes a seeded sample (quick 12,000, thorough 150,000)
    cap = 12000 if quick else 150000
    chk.extra["A_sequences_emitted"] = len(emitted)
    if len(emitted) > cap:
        emitted = rng.sample(emitted, cap)
    outs = par.pmap(fmt._replay_emitted, [(i, st, False) for i, st in enumerate(emitted)], so_path=so, procs=16, chunksize=32)
    records = []
    for bl in outs:
        for b in bl:
            if "record" in b:
                records.append(b["record"])
            else:
                chk.violation({"route": b["route"], "clauses": ",".join(sorted(d[0] for d in b["diffs"])), "version_class": "rel" if b["version"] >= 2 else "plain"},
                              f"real Writer/Reader differ from FJMFormat (version {b['version']}): {[d[:3] for d in b['diffs']]}", b)
    chk.extra["A_sequences_replayed"] = len(emitted)
    # (B)
    ncases = 1500 if quick else 30000
    work = []
    for i in range(ncases):
        w = [8, 16, 32, 64][i % 4]
        work.append((i, w, rng.randrange(4), rng.randrange(10), fmt.gen_calls(rng, w)))
    gen = par.pmap(fmt._run_write_case, work, so_path=so, procs=16, chunksize=32)
    records += gen
    chk.extra["B_generated_sequences"] = ncases
    verdicts = fmt.validate(chk, records, "Trace_FJMFormat[write]")
    chk.traces += len(records)
    chk.sample({"kind": "writer sequence", "calls": gen[0]["calls"], "obs_steps": gen[0]["obs"]["steps"], "final": gen[0]["obs"]["final"]})
    for i, rec in enumerate(records):
        v = verdicts.get(i)
        if v is None:
            raise MachineryFailure(f"no verdict for record {i}")
        if v["fail"]:
            chk.violation(key_of(rec, v["fail"]),
                          f"w={rec['w']} version={rec['version']}: writer sequence rejected by Trace_FJMFormat: {v['fail']}; steps {rec['obs']['steps']} final {rec['obs']['final']} reader {rec.get('rexc')}; spec {v['spec']}",
                          {"record": {k: rec[k] for k in ("w", "version", "calls", "obs")}, "verdict": v})
    # (C) round trip at a scale TLC cannot enumerate (more than 8 MiB of data in one segment)
    scale_part(chk, so, quick, rng)
