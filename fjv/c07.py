"""
C07 - results and final memory do not depend on engine or storage layout.

(1) FJCoreMem.tla (the native storage layer transcribed at small constants: page size 4) is model-checked
    exhaustively: the program's and the device's view through flat window / pages / sentinels REFINES the
    abstract FlipJump memory, for every geometry x window limit x sentinel mode x access sequence.
(2) TLC simulation of the same model emits scenarios (geometry, segment-table order, pre-loaded words incl.
    the magic fill value, window limit / forced paged, access script).  Each is SCALED to the real constants
    (model page 4 -> 2^14 words keeping first/second/last-but-one/last word of a page; model page 5 -> a far
    page at 2^26/2^40/2^57 words), turned into a real image whose ops perform the script, and run on every
    engine and storage configuration (window = the scenario's limit, +-1, tiny, default; forced paged; ring
    lengths 1,2,3,10,full; measurement loop).  Every observation (cause, ops, fault, output, last-ops list,
    final memory of all touched words) is judged by TLC against FJMachine (Trace_FJMachine) - FJMachine has
    no notion of layout, which is the property.
(3) the C01 generator's images are run on the extra storage configurations as well.
(4) files whose segment table the Reader loads but no Writer produces (ONE entry of a legal file patched to an odd
    start / odd length, ops entered on the last words of that segment, flips into pages that share a cache slot)
    are run on every configuration and judged by TLC on the patched geometry.
"""
from __future__ import annotations

import json
import random
import shutil
import tempfile
from pathlib import Path
from typing import Dict, List, Tuple

from fjv import c01, engines, par, tlc
from fjv.core import Check, MachineryFailure
from fjv.engines import AW, nb

PAGE = 1 << 14
MAGIC64 = 0xBB67AE8584CAA73B
CODE_WORDS = 64


def geometries(naddr: int, max_segs: int, rng: random.Random, count: int) -> List[List[Tuple[int, int]]]:
    """segment lists over even boundaries 0..naddr, first segment starts at 0; several table orders."""
    pts = list(range(2, naddr + 1, 2))
    out = []
    seen = set()
    tries = 0
    while len(out) < count and tries < 10000:
        tries += 1
        k = rng.randint(1, max_segs)
        cuts = sorted(rng.sample(pts, min(len(pts), 2 * k - 1)))
        segs = [(0, cuts[0])]
        i = 1
        while i + 1 < len(cuts) + 1 and len(segs) < k:
            if i + 1 <= len(cuts) - 1 + 1 and i < len(cuts) - 0 and i + 1 <= len(cuts) - 1:
                segs.append((cuts[i], cuts[i + 1]))
            i += 2
        if rng.random() < 0.3 and len(segs) >= 2:        # adjacent segments
            s = segs[1]
            segs[1] = (segs[0][1], s[1])
        order = list(segs)
        r = rng.random()
        if r < 0.3:
            order.reverse()
        elif r < 0.5:
            rng.shuffle(order)
        key = tuple(order)
        if key not in seen:
            seen.add(key)
            out.append(order)
    return out


def tla_geoms(gs) -> str:
    return "{" + ", ".join("<<" + ", ".join(f"<<{s},{e}>>" for s, e in g) + ">>" for g in gs) + "}"


def mc_cfg(gs, limits, naddr, max_steps, emit, view=True, api=True) -> Tuple[str, Dict[str, str]]:
    root = f"""---- MODULE MCcm ----
EXTENDS FJCoreMem
G_def == {tla_geoms(gs)}
Lim_def == {{{", ".join(map(str, limits))}}}
Modes_def == {{"inband", "magic"}}
====
"""
    cfg = f"""SPECIFICATION Spec
CONSTANTS
  NADDR = {naddr}
  Geometries <- G_def
  Limits <- Lim_def
  Modes <- Modes_def
  MaxSteps = {max_steps}
  ApiOn = {"TRUE" if api else "FALSE"}
  EmitOn = {"TRUE" if emit else "FALSE"}
{"VIEW ViewNoHist" if view else ""}
INVARIANT ProgramSeesAbstractMemory
INVARIANT MagicIsData
INVARIANT AllIndicesInBounds
INVARIANT DeviceSeesAbstractMemory
INVARIANT LoadedEqualsAbstract
PROPERTY ResultMatches
CONSTRAINT Emit
CHECK_DEADLOCK FALSE
"""
    return cfg, {"MCcm": root}


# ---------------------------------------------------------------------------------------------
# scaling a model scenario to a real image

def far_page(w: int, variant: int) -> int:
    if w == 32:
        return 1 << 12                      # word 2^26
    return [1 << 26, 1 << 43, (1 << 32) + 0, 1 << 36][variant % 4]   # words 2^40, 2^57, 2^46, 2^50


def real_page(p: int, w: int, variant: int) -> int:
    return p if p < 5 else far_page(w, variant) + (p - 5)


def r_boundary(a: int, w: int, variant: int) -> int:
    p, o = divmod(a, 4)
    return real_page(p, w, variant) * PAGE + [0, 1, PAGE - 2, PAGE - 1][o]


def r_access(a: int, w: int, variant: int) -> int:
    p, o = divmod(a, 4)
    if p == 0:
        return [CODE_WORDS, CODE_WORDS + 1, PAGE - 2, PAGE - 1][o]
    return real_page(p, w, variant) * PAGE + [0, 1, PAGE - 2, PAGE - 1][o]


def r_value(v: int, w: int) -> int:
    if w == 64:
        return [0, MAGIC64 ^ 2, MAGIC64 ^ 1, MAGIC64][v]
    return [0, 1, (1 << 31) | 5, 3][v]


def scale_scenario(sc: dict, idx: int) -> dict:
    """model scenario -> real case (w, segs in table order, data, expected engine configs)"""
    w = 64 if sc["mode"] == "magic" else 32
    variant = idx
    h = sc["h"]
    g = h[0]["g"]
    segs = []
    for s, e in g:
        rs, re_ = r_boundary(s, w, variant), r_boundary(e, w, variant)
        segs.append([rs, re_ - rs])
    lw = w.bit_length() - 1
    data: Dict[int, int] = {}

    def inseg(a):
        return any(s <= a < s + l for s, l in segs)

    limit = None
    noflat = False
    code: List[Tuple[int, int]] = []       # (flip bit address, jump bit address or None=next)
    scratch = (CODE_WORDS - 2) * w         # a harmless data bit inside the code segment
    k = 0
    pending_returns = []
    for e in h[1:]:
        op = e["op"]
        if op == "load":
            data[r_access(e["a"], w, variant)] = r_value(e["v"], w)
        elif op == "decide":
            limit = r_boundary(e["limit"], w, variant) if e["limit"] < 20 else r_boundary(19, w, variant) + 1
            noflat = e["noflat"]
        elif op == "flip":
            code.append((r_access(e["a"], w, variant) * w + e["b"], None))
        elif op in ("read", "fetch"):
            # execute an op placed AT the accessed word (flip word there, jump word in the next word)
            ra = r_access(e["a"], w, variant)
            code.append((scratch, ra * w))
            pending_returns.append((ra, len(code)))    # returns to code op number len(code)
        # get / set (device API) are replayed by C19
    nops = len(code) + 1
    if 2 * nops > CODE_WORDS - 2:
        raise MachineryFailure("scenario too long for the code area")
    for ra, ret in pending_returns:
        if inseg(ra) and ra not in data:
            data[ra] = scratch
        if inseg(ra + 1) and (ra + 1) not in data:
            data[ra + 1] = ret * 2 * w
    mask = (1 << w) - 1
    for i, (f, j) in enumerate(code):
        data[2 * i] = f & mask
        data[2 * i + 1] = ((i + 1) * 2 * w if j is None else j) & mask
    data[2 * len(code)] = scratch & mask
    data[2 * len(code) + 1] = (2 * len(code) * w) & mask      # halt: self loop
    watch = sorted({r_access(a, w, variant) for a in range(24)} | set(range(0, 2 * nops + 2)) | {CODE_WORDS - 2})
    watch = [a for a in watch if inseg(a)]
    return {"w": w, "segs": segs, "data": data, "inp": [], "limit": limit, "noflat": noflat, "watch": watch,
            "version": idx % 4, "model": sc}


MAX_DATA = 6 * PAGE


def scen_segments(case) -> List[Tuple[int, int, List[int]]]:
    """a segment stores a contiguous data prefix then zeros: pre-loaded words further than MAX_DATA words
    from their segment's start cannot be expressed and are dropped (TLC is given the image actually written)."""
    out = []
    for start, length in case["segs"]:
        inside = sorted(a for a in case["data"] if start <= a < min(start + length, start + MAX_DATA))
        nd = (inside[-1] - start + 1) if inside else 0
        nd += nd % 2
        nd = min(nd, length)
        out.append((start, length, [case["data"].get(start + i, 0) for i in range(nd)]))
    return out


def scen_engines(case) -> List[Tuple[str, int]]:
    """(engine name, ring length) pairs for one scenario"""
    lim = case["limit"] or 7
    cfgs = [("featured", 0), ("fast", 0), ("native-flat", -1), ("native-flat-ring", 0),
            ("native-paged", -1), ("native-paged-ring", 3), ("native-measured", -1), ("native-measured-paged", -1),
            (f"native-hybrid:{lim}", -1), (f"native-hybrid:{lim}:ring", 10),
            (f"native-hybrid:{max(1, lim - 1)}", -1), (f"native-hybrid:{lim + 1}:ring", 2),
            ("native-hybrid:3", -1), ("native-hybrid:5:ring", 1), ("fast", 2), ("featured", 1)]
    return cfgs


def _run_scen(args):
    idx, case = args
    fjm_run = par.fjm_run()
    w = case["w"]
    d = Path(tempfile.mkdtemp(prefix="fjv_c07_"))
    recs = []
    try:
        path = d / "p.fjm"
        segs = scen_segments(case)
        # data may be sparse inside a huge segment: only a contiguous prefix can be stored in one segment.
        # words far from the prefix are dropped from the image AND from the record (TLC sees the same image).
        try:
            engines.write_image(path, w, case["version"], segs)
        except Exception as e:  # noqa: BLE001
            return {"skipped": f"writer: {type(e).__name__}: {e}"}
        base = {"w": w, "segs": [[nb(s, AW), nb(l, AW)] for s, l, _ in segs],
                "data": [[nb(s + i, AW), nb(v, w // 8)] for s, _, dd in segs for i, v in enumerate(dd) if v],
                "inp": []}
        full = 200
        for en, ring in scen_engines(case):
            knobs = engines.engine_knobs(en)
            ring_len = full if ring == 0 else ring
            obs = engines.run_engine(fjm_run, path, en, [], w=w, mem_addrs=case["watch"], budget_s=5.0,
                                     ring_len=ring_len if ring_len > 0 else 1)
            o = {"cause": obs["cause"], "ops": max(obs["ops"], 0), "fault": obs["fault"], "out": obs["out"],
                 "inused": obs["inused"], "mem": obs["mem"], "hashist": obs["hist"] is not None and knobs.get("ring", False),
                 "hist": (obs["hist"] or []) if knobs.get("ring") else [], "ringlen": ring_len}
            if obs["exc"]:
                o["cause"] = "exception:" + obs["exc"]
            if obs["budget_fired"]:
                o["cause"] = "budget"
            r = dict(base)
            r.update(obs=o, engine=en, case=idx, version=case["version"], storage=obs.get("storage"))
            recs.append(r)
    finally:
        shutil.rmtree(d, ignore_errors=True)
    return {"recs": recs}


# ---- (4) segment tables the Reader accepts but the Writer refuses (odd start / odd length) ----------------------
def _run_odd(args):
    """a legal image is written, then ONE table entry is patched in place (start +-1 and / or length -1): the Reader
    loads such files; every engine / storage layout must run them like FJMachine on the PATCHED geometry."""
    import struct
    idx, case, engine_names = args
    fjm_run = par.fjm_run()
    w = case["w"]
    d = Path(tempfile.mkdtemp(prefix="fjv_c07o_"))
    recs = []
    try:
        path = d / "p.fjm"
        engines.write_image(path, w, case["version"], case["legal"])
        b = bytearray(path.read_bytes())
        (s0, l0), (s1, l1) = case["patch"]
        at = b.find(struct.pack("<QQ", s0, l0))
        if at < 0 or b.find(struct.pack("<QQ", s0, l0), at + 1) >= 0:
            return {"skipped": "table entry not found"}
        b[at:at + 16] = struct.pack("<QQ", s1, l1)
        path.write_bytes(bytes(b))
        segs = case["segs"]          # the patched geometry with its data
        base = {"w": w, "segs": [[nb(s_, AW), nb(l_, AW)] for s_, l_, _ in segs],
                "data": [[nb(s_ + i, AW), nb(v, w // 8)] for s_, _, dd in segs for i, v in enumerate(dd) if v], "inp": []}
        addrs = sorted({s_ + i for s_, l_, dd in segs for i in list(range(min(l_, 12))) + list(range(max(0, l_ - 4), l_))})
        for en in engine_names:
            obs = engines.run_engine(fjm_run, path, en, [], w=w, mem_addrs=addrs, budget_s=5.0, ring_len=40)
            o = {"cause": obs["cause"], "ops": max(obs["ops"], 0), "fault": obs["fault"], "out": obs["out"], "inused": obs["inused"], "mem": obs["mem"],
                 "hashist": obs["hist"] is not None, "hist": obs["hist"] or [], "ringlen": 40,
                 "hasstats": obs.get("flips") is not None, "flips": obs.get("flips") or 0, "jumps": obs.get("jumps") or 0}
            if obs["exc"]:
                o["cause"] = "exception:" + obs["exc"]
            r = dict(base)
            r.update(obs=o, engine=en, case=idx, version=case["version"], storage=obs.get("storage"), odd=case["patch"])
            recs.append(r)
    except Exception as e:  # noqa: BLE001
        return {"skipped": f"{type(e).__name__}: {str(e)[:60]}"}
    finally:
        shutil.rmtree(d, ignore_errors=True)
    return {"recs": recs}


def gen_odd_case(rng: random.Random, i: int) -> dict:
    w = [64, 32, 64, 16][i % 4]
    dw = 2 * w
    page = 1 << 14
    far = rng.choice([16, 16, 32, 48, 1, 3, 17, 1 << 12]) * page + rng.choice([0, 0, 2, page - 8])
    if w == 16:
        far = rng.choice([64, 130, 1024])            # 2^16 bits = 4096 words
    L = rng.choice([4, 6, 8, 16])                     # legal far segment: [far, far + L), all of it data
    code_len = rng.choice([8, 64, 2 * L + 8])
    kind = rng.choice(["len-1", "len-1", "start+1", "start+1,len-1"])
    if kind == "len-1":
        ps, pl, dl = far, L - 1, L - 2                # data must stay even and inside the segment
    elif kind == "start+1":
        ps, pl, dl = far + 1, L, L                    # [far+1, far+L+1): the data moves up by one word
    else:
        ps, pl, dl = far + 1, L - 1, L - 2
    # ops are entered at the last words of the patched segment (flip word inside, jump word possibly outside)
    entry_word = ps + pl - rng.choice([1, 1, 2, 3])
    targets = [rng.randrange(code_len * w), far * w + rng.randrange(4 * w), (far + 16 * page) * w + 3 if w > 16 else 5, 0, 1]
    data = [rng.choice(targets + [entry_word * w, dw * rng.randrange(4)]) % (1 << w) for _ in range(dl)]
    code = [0] * code_len
    code[0] = (4 * w + 1)                             # a harmless flip inside the code segment
    code[1] = (entry_word * w) % (1 << w)
    legal = [(0, code_len, code), (far, L, data)]
    segs = [(0, code_len, code), (ps, pl, data)]
    return {"w": w, "version": rng.randrange(2), "legal": legal, "segs": segs, "patch": ((far, L), (ps, pl)), "kind": kind}


def classify(rec, v):
    return c01.classify_v(rec, v)


def run(chk: Check, replay=None):
    quick = chk.tier == "quick"
    rng = random.Random(chk.seed + 7)
    so = str(engines.build_native())
    chk.assumptions += [
        "FJCoreMem.tla transcribes _fjcore.c's storage routing (flat window, sentinels, pages with one fast range, API routing) at page size 4; "
        "the scaling map keeps first/second/last-but-one/last word of a page and window-relative positions",
        "the oracle for every real run is FJMachine (Trace_FJMachine), which has no notion of layout",
        "images are those the Writer can express (no overlapping segments), plus files with ONE table entry patched to an odd start / odd length (the Reader loads them)",
    ]
    # ---- (1) exhaustive refinement check ------------------------------------------------------
    if quick:
        gs = [[(0, 2)], [(0, 4), (6, 8)], [(6, 8), (0, 2)], [(0, 2), (2, 6)]]
        limits = [1, 3, 4, 5, 7, 8]
        cfg, extra = mc_cfg(gs, limits, 8, 2, emit=False)
    else:
        # sized to finish: 17 geometries x 10 limits over 16 words passed 170M distinct states with the queue still growing
        gs = geometries(12, 3, rng, 5) + [[(0, 2)], [(0, 6), (8, 10)], [(10, 12), (6, 8), (0, 4)]]
        limits = [1, 2, 3, 4, 5, 7, 8, 9]
        cfg, extra = mc_cfg(gs, limits, 12, 2, emit=False)
    res = tlc.run_tlc("MCcm", cfg, workers=12, extra_modules=extra, heap="12g", timeout=7200)
    chk.add_tlc(res, "FJCoreMem refinement (exhaustive)", geometries=len(gs), limits=limits, exhaustive=True)
    # ---- (2) simulated scenarios, scaled and replayed ------------------------------------------
    nsim = 250 if quick else 4000
    gs2 = geometries(24, 3, rng, 40 if quick else 200)
    limits2 = list(range(1, 21))
    cfg, extra = mc_cfg(gs2, limits2, 24, 6, emit=True, view=False, api=False)
    res = tlc.run_tlc("MCcm", cfg, workers=1, simulate=f"num={nsim}", depth=12, seed=chk.seed + 11,
                      extra_modules=extra, timeout=3600)
    chk.add_tlc(res, "FJCoreMem scenarios (simulation)", behaviours=nsim, exhaustive=False)
    scen = res.emitted.get("S", [])
    if not scen:
        raise MachineryFailure("FJCoreMem simulation emitted no scenario")
    cases = [scale_scenario(s, i) for i, s in enumerate(scen)]
    outs = par.pmap(_run_scen, list(enumerate(cases)), so_path=so, procs=16, chunksize=4)
    records = []
    skipped: Dict[str, int] = {}
    for o in outs:
        if "skipped" in o:
            skipped[o["skipped"][:60]] = skipped.get(o["skipped"][:60], 0) + 1
        else:
            records += o["recs"]
    # ---- (3) the C01 generator on the storage configurations ----------------------------------
    ncases = 150 if quick else 3000
    extra_engines = ["native-flat", "native-paged", "native-paged-ring", "native-measured", "native-measured-paged",
                     "native-hybrid:1", "native-hybrid:2:ring", "native-hybrid:7", "native-hybrid:16385:ring",
                     "native-hybrid:16384", "fast", "featured"]
    gcases = [c01.gen_case(rng, [16, 32, 64, 64][i % 4]) for i in range(ncases)] + c01.directed_cases()
    outs = par.pmap(c01._run_case, [(i, c, extra_engines, 60) for i, c in enumerate(gcases)], so_path=so, procs=16)
    for o in outs:
        if "skipped" in o:
            k = o["skipped"].split(":")[0]
            skipped[k] = skipped.get(k, 0) + 1
        else:
            records += o["recs"]
    # ---- (4) reader-accepted geometries that no writer produces ----------------------------------
    ocases = [gen_odd_case(rng, i) for i in range(120 if quick else 3000)]
    outs = par.pmap(_run_odd, [(i, c, extra_engines) for i, c in enumerate(ocases)], so_path=so, procs=16)
    nodd = 0
    for o in outs:
        if "skipped" in o:
            k = "odd:" + o["skipped"].split(":")[0]
            skipped[k] = skipped.get(k, 0) + 1
        else:
            records += o["recs"]
            nodd += len(o["recs"])
    chk.extra["odd_geometry_records"] = nodd
    # ---- (5) an op cut in two by the flat window whose flip word was rewritten at run time ---------------------
    # (the window keeps the live copy of words below the limit; whatever lane executes the straddling op must read that copy)
    dcases, dengs = [], []
    for L in ([3, 5, 7, 9, 13] if quick else [3, 5, 7, 9, 11, 13, 17, 33, 16385]):
        for w_ in (32, 64) if L < 100 else (64,):
            for b in (1, 2):
                n = L + 7
                tgt, data_w, halt = (L - 1), L + 3, L + 5          # the cut op at words L-1 | L, a data word, a halting op
                f0 = data_w * w_                                    # load-time flip word: bit 0 of the data word
                dcases.append({"w": w_, "segs": [[0, n + (n % 2)]], "inp": [], "version": (L + b) % 4,
                               "data": {0: tgt * w_ + b, 1: tgt * w_,                    # op 0 flips bit b of the cut op's flip word, jumps to it
                                        tgt: f0, tgt + 1: halt * w_,                   # the cut op: (now) flips bit 2^b of the data word
                                        halt: (data_w + 1) * w_, halt + 1: halt * w_}})
                dengs.append(["fast", "native-flat", "native-flat-ring", "native-paged-ring", f"native-hybrid:{L}", f"native-hybrid:{L}:ring",
                              f"native-hybrid:{L - 1}:ring", f"native-hybrid:{L + 1}:ring"])
    outs = par.pmap(c01._run_case, [(i, c, dengs[i], 60) for i, c in enumerate(dcases)], so_path=so, procs=16)
    ncut = 0
    for o in outs:
        if "skipped" in o:
            k = "cut:" + o["skipped"].split(":")[0]
            skipped[k] = skipped.get(k, 0) + 1
        else:
            records += o["recs"]
            ncut += len(o["recs"])
    chk.extra["window_cut_records"] = ncut
    chk.extra["scenarios"] = len(scen)
    chk.extra["generated_cases"] = ncases
    chk.extra["skipped"] = skipped
    chk.extra["records"] = len(records)
    chk.extra["storage_modes_seen"] = sorted({str(r.get("storage")) for r in records})
    verdicts = c01.validate_records(chk, records, "Trace_FJMachine[storage]")
    chk.traces += len(records)
    chk.sample({"kind": "scaled scenario", "model": scen[0], "real_segments": cases[0]["segs"], "limit": cases[0]["limit"]})
    for i, rec in enumerate(records):
        v = verdicts.get(i)
        if v is None:
            raise MachineryFailure(f"no verdict from TLC for record {i}")
        if v["fail"]:
            chk.violation(classify(rec, v),
                          f"engine {rec['engine']} (w={rec['w']}, storage={rec.get('storage')}) rejected by Trace_FJMachine: "
                          f"clauses {v['fail']}; spec says {v['spec']}", {"record": rec, "verdict": v})
    # self-test of the binding
    good = [r for i, r in enumerate(records) if not verdicts[i]["fail"] and r["obs"]["mem"]][:12]
    mut = []
    for k, r in enumerate(good):
        m = json.loads(json.dumps(r))
        m["obs"]["mem"][-1][1][0] ^= 2
        mut.append(m)
    if mut:
        mv = c01.validate_records(chk, mut, "Trace_FJMachine[self-test]")
        acc = [i for i in range(len(mut)) if not mv.get(i, {"fail": ["x"]})["fail"]]
        chk.extra["selftest_rejected"] = len(mut) - len(acc)
        if acc:
            raise MachineryFailure("binding self-test: corrupted memory observations were accepted")
