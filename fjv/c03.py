"""
C03 - macro expansion is hygienic inlining (and the naming half of C16).

FJMacro.tla defines Inline: calls replaced by the callee's body with closed arguments substituted in one pass,
every expansion's local labels renamed apart by expansion path, rep(n, i) unrolled for i = 0..n-1, names resolved
through namespaces (plain, leading-dot relative, dotted), arity overloading.  Seeded macro programs (identifier
pools chosen so that caller labels collide with callee parameters, locals and rep iterators at several depths) are
inlined BY TLC; the harness assembles the original program, TLC's inlined primitive program, and the original
split over several files at top-level boundaries with the real assembler: the three images must be equal; the
inlined program's image is also judged by Trace_FJAsm; the label table of the original must name every local label
of every expansion (distinct names ending in ---<label>, at the address the inlined program gives it).
"""
from __future__ import annotations

import contextlib
import io
import json
import random
import shutil
import tempfile
from pathlib import Path
from typing import Dict, List, Tuple

from fjv import c01, c02, engines, par, tlc
from fjv.c02 import jint
from fjv.core import Check, MachineryFailure

POOL_LABELS = ["x", "y", "i", "d", "n", "t"]
POOL_PARAMS = ["x", "y", "i", "n"]
POOL_LOCALS = ["t", "i", "d", "y"]
POOL_ITERS = ["i", "d", "x", "k"]          # "k" is in no other pool: a constant may be spelled like it (see CONST_NAME)
CONST_NAME = "k"
NAMESPACES = [[], [], ["a"], ["a", "b"], ["c"]]


def EX(b, n="", dots=0, m=1, o=0):
    return {"b": b, "n": n, "dots": dots, "m": m, "o": o}


def gen_ast(rng: random.Random, w: int) -> dict:
    dw = 2 * w
    ndefs = rng.randint(2, 6)
    sid = [0]

    def newsid():
        sid[0] += 1
        return f"s{sid[0]}"

    heads = []
    names = ["m", "f", "g", "m", "h", "f"]
    for k in range(ndefs):
        ns = rng.choice(NAMESPACES)
        params = rng.sample(POOL_PARAMS, rng.randint(0, 3))
        locs = [l for l in rng.sample(POOL_LOCALS, rng.randint(0, 2)) if l not in params]
        heads.append({"ns": ns, "name": names[k % len(names)], "params": params, "locals": locs,
                      # a LABEL parameter: the body declares `param:` - the caller chooses the label's name
                      "lblparam": params[0] if params and rng.random() < 0.15 else None})
    # unique (fullname, arity)
    seen = set()
    defs = []
    for h in heads:
        key = (tuple(h["ns"]), h["name"], len(h["params"]))
        if key in seen:
            continue
        seen.add(key)
        defs.append(h)

    def expr(scope_ids: List[str], ctx: List[str], iters: List[str], arg: bool = False) -> dict:
        # `$` as a macro ARGUMENT is outside the language (the assembler rejects it): arguments never contain it
        r = rng.random()
        if arg and 0.75 <= r < 0.85:
            r = 0.9
        ids = scope_ids + iters
        if r < 0.45 and ids:
            n = rng.choice(ids)
            if n in iters:
                return EX("id", n, 0, rng.choice([1, dw, w]), rng.choice([0, dw]))
            return EX("id", n, 0, 1, rng.choice([0, 0, w, dw]))
        if r < 0.75:
            # a global label, sometimes spelled relative to the enclosing namespaces (len(ctx)+1 dots climb to global)
            # (a body's own reference spelled like one of ITS OWN parameters/locals/iterators denotes that binder,
            # whatever dots are written - shadowing inside the callee is not capture of a caller's name)
            name = rng.choice(POOL_LABELS)
            dots = len(ctx) + 1 if (ctx and name not in ids and rng.random() < 0.3) else 0
            return EX("id", name, dots, 1, rng.choice([0, w, dw]))
        if r < 0.85:
            return EX("cur", o=rng.choice([0, dw]))
        return EX("num", o=rng.randrange(8) * dw)

    def call_to(k: int, ctx: List[str]):
        d = defs[k]
        full = d["ns"] + [d["name"]]
        # choose a way to name it: absolute dotted, or relative with leading dots when possible
        options = [(0, full)]
        for dots in range(1, len(ctx) + 2):
            base = ctx[: len(ctx) - (dots - 1)]
            if full[: len(base)] == base and len(full) > len(base):
                options.append((dots, full[len(base):]))
        dots, comps = rng.choice(options)
        return dots, comps

    fresh = [0]

    def args_for(j: int, scope, ctx, iters, pend_locals):
        """arguments of a call to defs[j]; a label parameter gets a bare label name: one of the caller's local labels that the
        caller then does not define itself, or a fresh global name"""
        out_ = []
        for p_ in defs[j]["params"]:
            if p_ == defs[j].get("lblparam"):
                if pend_locals and rng.random() < 0.6:
                    out_.append(EX("id", pend_locals.pop(), 0, 1, 0))
                else:
                    fresh[0] += 1
                    out_.append(EX("id", f"u{fresh[0]}", 0, 1, 0))
            else:
                out_.append(expr(scope, ctx, iters, True))
        return out_

    def body(k: int, depth: int) -> List[dict]:
        d = defs[k]
        scope = d["params"] + d["locals"]
        out = []
        pend_locals = list(d["locals"])
        if d.get("lblparam"):
            out.append({"k": "label", "n": d["lblparam"]})
        for _ in range(rng.randint(1, 4)):
            r = rng.random()
            callees = [j for j in range(k + 1, len(defs))]
            if pend_locals and r < 0.3:
                out.append({"k": "label", "n": pend_locals.pop()})
            elif callees and r < 0.55:
                j = rng.choice(callees)
                dots, comps = call_to(j, d["ns"])
                out.append({"k": "call", "sid": newsid(), "m": comps, "dots": dots,
                            "args": args_for(j, scope, d["ns"], [], pend_locals)})
            elif callees and r < 0.75:
                j = rng.choice(callees)
                dots, comps = call_to(j, d["ns"])
                it = rng.choice(POOL_ITERS)
                cnt = EX("num", o=rng.choice([0, 1, 2, 3]))
                out.append({"k": "rep", "sid": newsid(), "cnt": cnt, "it": it, "m": comps, "dots": dots,
                            "args": args_for(j, scope, d["ns"], [it], pend_locals)})
            elif r < 0.9:
                out.append({"k": "op", "f": expr(scope, d["ns"], []), "j": expr(scope, d["ns"], [])})
            else:
                three = rng.random() < 0.5
                ret = rng.choice([EX("id", rng.choice(POOL_LABELS)), EX("num", o=rng.randrange(8) * dw)]) if three else EX("cur")
                out.append({"k": "wflip", "a": expr(scope, d["ns"], []), "v": EX("num", o=rng.choice([0, 1, 3, 5])), "r": ret, "three": three})
        for l in pend_locals:
            out.append({"k": "label", "n": l})
        return out

    for k, d in enumerate(defs):
        d["body"] = body(k, 0)
    main = [{"k": "op", "f": EX("num"), "j": EX("id", "code")}, {"k": "label", "n": "code"}]
    for _ in range(rng.randint(2, 5)):
        j = rng.randrange(len(defs))
        dots, comps = call_to(j, [])
        if rng.random() < 0.7:
            main.append({"k": "call", "sid": newsid(), "m": comps, "dots": dots,
                         "args": args_for(j, [], [], [], [])})
        else:
            it = rng.choice(POOL_ITERS)
            main.append({"k": "rep", "sid": newsid(), "cnt": EX("num", o=rng.choice([0, 1, 2, 3])), "it": it, "m": comps, "dots": dots,
                         "args": args_for(j, [], [], [it], [])})
    main.append({"k": "label", "n": "halt"})
    main.append({"k": "op", "f": EX("num"), "j": EX("id", "halt")})
    for name in POOL_LABELS:
        main.append({"k": "label", "n": name})
        main.append({"k": "op", "f": EX("num"), "j": EX("num")})
    # extern labels: now and then a label of a macro body is NOT declared local - it is then one global label (in the
    # macro's namespace), legal as long as the macro is expanded at most once (a second expansion is a duplicate label in
    # the macro program and in its inlining alike)
    for k_, d in enumerate(defs):
        if d["locals"] and not d["ns"] and rng.random() < 0.35:        # (root-namespace macros: the label's global name is its own spelling)
            old_ = d["locals"].pop(rng.randrange(len(d["locals"])))
            new_ = f"e{k_}{old_}"

            def ren(e):
                if e["b"] == "id" and e["dots"] == 0 and e["n"] == old_:
                    e["n"] = new_
            for s_ in d["body"]:
                if s_["k"] == "label" and s_["n"] == old_:
                    s_["n"] = new_
                for key in ("f", "j", "a", "v", "r", "cnt"):
                    if key in s_ and isinstance(s_[key], dict):
                        ren(s_[key])
                for a_ in s_.get("args", []):
                    ren(a_)
    # now and then the program also defines a CONSTANT spelled like a rep iterator (and like nothing else): inside a rep's own
    # arguments the name is the iterator (FJMacro!IterConstClash marks such programs: refusing them is as good as
    # assembling them with the iterator's meaning; silently using the constant is not)
    consts = [CONST_NAME] if rng.random() < 0.3 else []
    return {"defs": defs, "main": main, "consts": consts}


def jexpr(e: dict) -> dict:
    return {"b": e["b"], "n": e["n"], "dots": e["dots"], "m": jint(e["m"]), "o": jint(e["o"])}


def jstmt(s: dict) -> dict:
    k = s["k"]
    if k == "op":
        return {"k": k, "f": jexpr(s["f"]), "j": jexpr(s["j"])}
    if k == "wflip":
        return {"k": k, "a": jexpr(s["a"]), "v": jexpr(s["v"]), "r": jexpr(s["r"])}
    if k == "label":
        return {"k": k, "n": s["n"]}
    if k == "call":
        return {"k": k, "sid": s["sid"], "m": s["m"], "dots": s["dots"], "args": [jexpr(a) for a in s["args"]]}
    return {"k": k, "sid": s["sid"], "cnt": jexpr(s["cnt"]), "it": s["it"], "m": s["m"], "dots": s["dots"], "args": [jexpr(a) for a in s["args"]]}


def jast(ast: dict) -> dict:
    return {"defs": [{"ns": d["ns"], "name": d["name"], "params": d["params"], "locals": d["locals"], "body": [jstmt(s) for s in d["body"]]}
                     for d in ast["defs"]],
            "main": [jstmt(s) for s in ast["main"]], "consts": list(ast.get("consts", []))}


def rexpr(e: dict) -> str:
    if e["b"] == "num":
        return c02.render_num(e["o"])
    base = "$" if e["b"] == "cur" else "." * e["dots"] + e["n"]
    if e["m"] != 1 and e["b"] != "cur":
        base = f"{base}*{c02.render_num(e['m'])}"
    if e["o"] == 0:
        return base
    return f"{base} + {c02.render_num(e['o'])}"


def rstmt(s: dict, ind: str) -> str:
    k = s["k"]
    if k == "op":
        return f"{ind}{rexpr(s['f'])};{rexpr(s['j'])}"
    if k == "wflip":
        if s.get("three"):
            return f"{ind}wflip {rexpr(s['a'])}, {rexpr(s['v'])}, {rexpr(s['r'])}"
        return f"{ind}wflip {rexpr(s['a'])}, {rexpr(s['v'])}"
    if k == "label":
        return f"{ind}{s['n']}:"
    name = "." * s["dots"] + ".".join(s["m"])
    args = ", ".join(rexpr(a) for a in s["args"])
    if k == "call":
        return f"{ind}{name} {args}".rstrip()
    return f"{ind}rep({rexpr(s['cnt'])}, {s['it']}) {name} {args}".rstrip()


def _used_globals(d: dict):
    """identifiers of the body that are neither parameters nor local labels (global labels, as written: with their dots),
    and the labels the body defines without declaring them local (extern labels)"""
    bound = set(d["params"]) | set(d["locals"])
    used, defined = [], []

    def ex(e, extra=()):
        if e["b"] == "id" and not (e["dots"] == 0 and (e["n"] in bound or e["n"] in extra)):
            t = "." * e["dots"] + e["n"]
            if t not in used and not any(x["k"] == "label" and x["n"] == e["n"] and e["dots"] == 0 for x in d["body"]):
                used.append(t)          # (a label the body itself defines is an extern label, not a used global)

    for s in d["body"]:
        k = s["k"]
        if k == "op":
            ex(s["f"]); ex(s["j"])
        elif k == "wflip":
            ex(s["a"]); ex(s["v"]); ex(s["r"])
        elif k == "label":
            if s["n"] not in bound and s["n"] not in defined:
                defined.append(s["n"])
        elif k == "call":
            for a in s["args"]:
                ex(a)
        else:
            ex(s["cnt"])
            for a in s["args"]:
                ex(a, (s["it"],))
    return used, defined


def rdef(d: dict, ind: str) -> str:
    head = f"{ind}def {d['name']}"
    if d["params"]:
        head += " " + ", ".join(d["params"])
    if d["locals"]:
        head += " @ " + ", ".join(d["locals"])
    # the declarations of used global labels (<) and defined extern labels (>) are optional in the language: about two
    # thirds of the definitions carry them (chosen by a hash of the name, so that the choice is stable)
    if sum(map(ord, d["name"])) % 3:
        used, defined = _used_globals(d)
        if used:
            head += " < " + ", ".join(used)
        if defined:
            head += " > " + ", ".join(defined)
    lines = [head + " {"] + [rstmt(s, ind + "    ") for s in d["body"]] + [ind + "}"]
    return "\n".join(lines)


def render_items(ast: dict) -> List[str]:
    """top-level items (each a def possibly wrapped in its ns blocks, or a main statement)"""
    items = []
    for d in ast["defs"]:
        text = rdef(d, "    " * len(d["ns"]))
        for depth in range(len(d["ns"]) - 1, -1, -1):
            ind = "    " * depth
            text = f"{ind}ns {d['ns'][depth]} {{\n{text}\n{ind}}}"
        items.append(text)
    mains = [rstmt(s, "") for s in ast["main"]]
    return [f"{c} = 5" for c in ast.get("consts", [])] + mains[:2] + items + mains[2:]


def assemble_files(texts: List[str], w: int, workdir: Path, tag: str):
    import flipjump
    from flipjump.fjm.fjm_consts import FJMVersion
    from flipjump.fjm.fjm_reader import Reader
    from flipjump.utils.exceptions import FlipJumpException
    from flipjump.utils.functions import load_debugging_labels

    paths = []
    for k, t in enumerate(texts):
        p = workdir / f"{tag}_{k}.fj"
        p.write_text(t)
        paths.append(p)
    out, dbg = workdir / f"{tag}.fjm", workdir / f"{tag}.fjd"
    with engines._Alarm(60.0) as alarm:          # every run of the code under test is bounded
        try:
            with contextlib.redirect_stdout(io.StringIO()):
                flipjump.assemble(paths, out, memory_width=w, fjm_version=FJMVersion(1), use_stl=False, print_time=False,
                                  debugging_file_path=dbg, warning_as_errors=False)
        except FlipJumpException as e:
            return {"ok": False, "err": f"{type(e).__name__}: {str(e)[:300]}"}
        except BaseException as e:  # noqa: BLE001
            return {"ok": False, "err": ("raw did-not-terminate-in-60s " if alarm.fired else "raw ") + f"{type(e).__name__}: {str(e)[:300]}"}
    try:
        r = Reader(out)
    except BaseException as e:  # noqa: BLE001      the assembler reported success but its output does not load
        return {"ok": False, "err": f"raw output-unreadable {type(e).__name__}: {str(e)[:300]}"}
    return {"ok": True, "mem": dict(r.memory), "segs": [(s.segment_start, s.segment_length) for s in r.memory_segments],
            "table": load_debugging_labels(dbg)}


def ival(j):
    m = int.from_bytes(bytes(j["mag"]), "little")
    return -m if j["neg"] else m


def inl_to_prog(inl: List[dict]) -> List[dict]:
    def e(x):
        return {"b": x["b"], "n": x["n"], "o": ival(x["o"]), "m": ival(x["m"])}
    out = []
    for s in inl:
        if s["k"] == "op":
            out.append({"k": "op", "f": e(s["f"]), "j": e(s["j"])})
        elif s["k"] == "wflip":
            out.append({"k": "wflip", "a": e(s["a"]), "v": e(s["v"]), "r": e(s["r"]), "two": s["r"]["b"] == "cur" and ival(s["r"]["o"]) == 0})
        elif s["k"] == "label":
            out.append({"k": "label", "n": s["n"]})
    return out


def _case(args):
    idx, w, ast, inl = args
    par.fjm_run()
    d = Path(tempfile.mkdtemp(prefix="fjv_c03_"))
    bad = []
    try:
        items = render_items(ast)
        single = "\n".join(items) + "\n"
        orig = assemble_files([single], w, d, "orig")
        prog = inl_to_prog(inl["prog"])
        # the inlined program uses label names TLC made unique ("L_s3_s7r1__t"): rendered verbatim
        flat = assemble_files([c02.render_prog(prog)], w, d, "flat")
        ctx = {"source": single, "inlined": c02.render_prog(prog)}
        if not inl["wellformed"]:
            raise MachineryFailure("generator produced a call to an undefined macro")
        if not inl.get("gunique", True) or not inl.get("unique", True):
            # the same label is defined twice (an extern label of a macro that is expanded twice, or one label name handed to a
            # label parameter more than once): a program error
            if orig["ok"]:
                return [{"what": "a label defined twice (by two expansions that name the same label) is accepted", **ctx}]
            return [{"skipped": "duplicate label: rejected, as it must be"}]
        if inl.get("itconst") and not orig["ok"] and flat["ok"]:
            if CONST_NAME in orig["err"] and not orig["err"].startswith("raw"):
                return [{"skipped": "a rep iterator spelled like a constant: refused with a diagnostic naming it"}]
        if not flat["ok"] and not orig["ok"]:
            return [{"skipped": "neither the program nor its inlining assembles: " + flat["err"][:120]}]
        if not flat["ok"]:
            return [{"what": "the hygienic inlining (a macro-free program) fails to assemble although the macro program assembles", "err": flat["err"], **ctx}]
        if not orig["ok"]:
            return [{"what": "macro program fails to assemble although its inlining assembles", "err": orig["err"], **ctx}]
        if orig["mem"] != flat["mem"] or orig["segs"] != flat["segs"]:
            diff = sorted(a for a in set(orig["mem"]) | set(flat["mem"]) if orig["mem"].get(a) != flat["mem"].get(a))[:6]
            bad.append({"what": "image differs from the hygienic inlining", "words": [(a, orig["mem"].get(a), flat["mem"].get(a)) for a in diff], **ctx})
        # file splits at every top-level boundary (sampled: 3 cut points)
        cuts = sorted({1, len(items) // 2, len(items) - 1} - {0, len(items)})
        for c in cuts:
            sp = assemble_files(["\n".join(items[:c]) + "\n", "\n".join(items[c:]) + "\n"], w, d, f"split{c}")
            if not sp["ok"]:
                bad.append({"what": "split program fails to assemble", "cut": c, "err": sp["err"], **ctx})
            elif sp["mem"] != orig["mem"] or sp["segs"] != orig["segs"]:
                bad.append({"what": "splitting the source over two files changes the image", "cut": c, **ctx})
        # C16: names of macro-local labels
        tab = orig["table"]
        ftab = flat["table"]
        groups: Dict[Tuple[str, int], int] = {}
        for s in prog:
            if s["k"] == "label" and s["n"].startswith("L_"):
                loc = s["n"].split("__", 1)[1]
                groups[(loc, ftab[s["n"]])] = groups.get((loc, ftab[s["n"]]), 0) + 1
            elif s["k"] == "label":
                if tab.get(s["n"]) != ftab.get(s["n"]):
                    bad.append({"what": "label table: global label at the wrong address", "label": s["n"], "got": tab.get(s["n"]), "expected": ftab.get(s["n"]), **ctx, "c16": True})
        for (loc, addr), cnt in groups.items():
            have = [n for n, a in tab.items() if a == addr and n.endswith("---" + loc)]
            if len(have) < cnt:
                bad.append({"what": "label table: local label of an expansion missing / not distinct", "label": loc, "address": addr, "need": cnt, "have": have, **ctx, "c16": True})
        return bad + [{"flat_record": {"w": w, "prog": c02.to_json_prog(prog), "flat": None}}] if False else bad
    finally:
        shutil.rmtree(d, ignore_errors=True)


TRACE_CFG = """SPECIFICATION Spec
CONSTRAINT Emit
CHECK_DEADLOCK FALSE
"""


def inline_all(chk: Check, asts: List[dict], batch: int = 40) -> Dict[int, dict]:
    scratch = Path(tempfile.mkdtemp(prefix="fjv_c03t_"))
    out: Dict[int, dict] = {}
    try:
        jobs, offs = [], []
        for b0 in range(0, len(asts), batch):
            f = scratch / f"b{b0}.json"
            f.write_text(json.dumps([jast(a) for a in asts[b0:b0 + batch]]))
            jobs.append(dict(module="Trace_FJMacro", cfg_text=TRACE_CFG, workers=1, env={"TRACE_FILE": str(f)}, timeout=3000))
            offs.append(b0)
        for b0, res in zip(offs, tlc.run_many(jobs, parallel=16)):
            chk.add_tlc(res, f"FJMacro!Inline@{b0}", records=min(batch, len(asts) - b0))
            for v in res.emitted.get("I", []):
                out[b0 + v["tid"] - 1] = v
    finally:
        shutil.rmtree(scratch, ignore_errors=True)
    chk.configs[:] = c01._squash(chk.configs, "FJMacro!Inline")
    return out


def run(chk: Check, replay=None, only_c16: bool = False):
    quick = chk.tier == "quick"
    rng = random.Random(chk.seed + 3)
    so = str(engines.build_native())
    chk.assumptions += [
        "the reference semantics is FJMacro!Inline (one-pass substitution of closed arguments, path-renamed locals, unrolled reps, namespace resolution)",
        "generated programs: macros call only later-defined macros (no recursion), identifiers come from small colliding pools, warnings are not errors",
    ]
    ncases = 600 if quick else 8000
    cases = []
    for i in range(ncases):
        w = [16, 32, 64][i % 3]
        cases.append((w, gen_ast(rng, w)))
    inl = inline_all(chk, [a for _, a in cases])
    work = []
    for i, (w, ast) in enumerate(cases):
        if i not in inl:
            raise MachineryFailure(f"no inlining for case {i}")
        work.append((i, w, ast, inl[i]))
    bad_lists = par.pmap(_case, work, so_path=so, procs=16, chunksize=4)
    chk.traces += len(work)
    chk.extra["programs"] = ncases
    chk.extra["skipped_both_fail"] = sum(1 for bl in bad_lists for b in bl if "skipped" in b)
    chk.extra["inlined_statements"] = sum(len(inl[i]["prog"]) for i in inl)
    chk.sample({"kind": "macro program", "source": "\n".join(render_items(cases[0][1]))[:1500]})
    nskip = 0
    for bl in bad_lists:
        for b in bl:
            if "skipped" in b:
                nskip += 1
                continue
            if b.get("machinery"):
                raise MachineryFailure(b["what"] + ": " + b["err"] + "\n" + b["inlined"][:2000])
            is16 = bool(b.get("c16"))
            if only_c16 != is16:
                continue
            chk.violation({"what": b["what"]}, b["what"] + (": " + b.get("err", "") if b.get("err") else ""), b)
