"""
C02 - the assembled image equals the denotation of the macro-free source (and C16's address half: the
label table maps every source label to the address of the statement that follows it).

FJAsm.tla: Layout (pass 1: addresses of statements and labels, pieces, reserved ranges, Possible) and the
second pass as CONSTRAINTS on the image (Denotes, WFlipWalk: walking a wflip from its own address flips exactly
the set bits of v in word a, each once, in max(1,popcount) ops and arrives at r; AuxClear; ReservedZero;
LabelsExact) - no placement policy, so a refactoring of the wflip allocator cannot raise an alarm.
Programs are (a) enumerated exhaustively by TLC for small statement alphabets at w=8 (MC_FJAsm) and (b) generated
at w in {8,16,32,64} x fjm versions 0-3; each is assembled by the real assembler; the loaded image and the saved
label table are judged by TLC (Trace_FJAsm).
"""
from __future__ import annotations

import json
import random
import shutil
import tempfile
from pathlib import Path
from typing import Dict, List, Tuple

from fjv import c01, engines, par, tlc
from fjv.core import Check, MachineryFailure


def jint(v: int) -> dict:
    mag = list(abs(v).to_bytes((abs(v).bit_length() + 7) // 8, "little")) if v else []
    return {"neg": v < 0, "mag": mag}


def E(b: str, n: str = "", o: int = 0, m: int = 1) -> dict:
    return {"b": b, "n": n, "o": o, "m": m}


def render_num(v: int, variant: int = 0) -> str:
    if v < 0:
        return f"(0-{render_num(-v, variant)})"
    return hex(v) if variant % 2 else str(v)


def render_e(e: dict, variant: int = 0) -> str:
    o = e["o"]
    if e["b"] == "num":
        return render_num(o, variant)
    base = "$" if e["b"] == "cur" else e["n"]
    if e.get("m", 1) != 1 and e["b"] != "cur":
        base = f"{render_num(e['m'], variant)}*{base}"
    if o == 0:
        return base
    return f"{base} + {render_num(o, variant)}" if o > 0 else f"{base} - {render_num(-o, variant)}"


def render_prog(prog: List[dict]) -> str:
    lines = []
    for i, s in enumerate(prog):
        k = s["k"]
        if k == "op":
            lines.append(f"{render_e(s['f'], i)};{render_e(s['j'], i + 1)}")
        elif k == "label":
            parts = s["n"].split(".")
            lines.append("".join(f"ns {q} {{\n" for q in parts[:-1]) + f"{parts[-1]}:" + "\n}" * (len(parts) - 1))
        elif k == "wflip":
            if s.get("two"):
                lines.append(f"wflip {render_e(s['a'], i)}, {render_e(s['v'], i + 1)}")
            else:
                lines.append(f"wflip {render_e(s['a'], i)}, {render_e(s['v'], i + 1)}, {render_e(s['r'], i)}")
        elif k == "pad":
            lines.append(f"pad {s['n']}")
        elif k == "reserve":
            lines.append(f"reserve {render_num(s['n'], i)}")
        elif k == "segment":
            lines.append(f"segment {render_num(s['a'], i)}")
    return "\n".join(lines) + "\n"


def to_json_prog(prog: List[dict]) -> List[dict]:
    def je(e):
        return {"b": e["b"], "n": e["n"], "o": jint(e["o"]), "m": jint(e.get("m", 1))}
    out = []
    for s in prog:
        k = s["k"]
        if k == "op":
            out.append({"k": k, "f": je(s["f"]), "j": je(s["j"])})
        elif k == "label":
            out.append({"k": k, "n": s["n"]})
        elif k == "wflip":
            out.append({"k": k, "a": je(s["a"]), "v": je(s["v"]), "r": je(s["r"])})
        elif k == "pad":
            out.append({"k": k, "n": s["n"]})
        elif k == "reserve":
            out.append({"k": k, "n": s["n"]})
        elif k == "segment":
            out.append({"k": k, "a": jint(s["a"])})
    return out


# label spellings a source may use: every one is an ordinary label to the language (dotted names are declared inside namespaces)
SPELLINGS = ["_.wflip_area_start_0", "_.wflip_area_start_1", "_.wflip_area_start_2", "a.b.c", "_", "_.x", "stl.startup", "wflip_area_start_0",
             "x9_.y", "L", "end", "_.wflip_area_start_", "def_", "ns1.rep0"]


def respell(prog: List[dict], rng: random.Random) -> List[dict]:
    """rename some labels of the program (declarations and uses alike) to unusual but legal spellings"""
    names = sorted({s["n"] for s in prog if s["k"] == "label"})
    if not names:
        return prog
    ren = dict(zip(rng.sample(names, min(len(names), rng.randint(1, 2))), rng.sample(SPELLINGS, 2)))

    def fe(e):
        return dict(e, n=ren.get(e["n"], e["n"])) if e["b"] == "lbl" else e
    out = []
    for s in prog:
        s = dict(s)
        if s["k"] == "label":
            s["n"] = ren.get(s["n"], s["n"])
        for f in ("f", "j", "a", "v", "r"):
            if f in s and isinstance(s[f], dict):
                s[f] = fe(s[f])
        out.append(s)
    return out


def gen_prog(rng: random.Random, w: int) -> List[dict]:
    dw = 2 * w
    top = 1 << w
    nlabels = rng.randint(2, 6)
    names = [f"l{k}" for k in range(nlabels)]
    prog: List[dict] = [{"k": "op", "f": E("num", o=0), "j": E("lbl", rng.choice(names))}]
    pending = list(names)
    rng.shuffle(pending)
    n = rng.randint(4, 16) if w > 8 else rng.randint(2, 5)
    seg_base = 0
    size = dw
    vals = [0, 1, 2, 3, 5, 1 << (w - 1), (1 << w) - 1, 0x81, 6, 1 << rng.randrange(w), rng.randrange(top)]
    rets = [E("cur"), E("lbl", rng.choice(names)), E("lbl", rng.choice(names)), E("cur", o=dw)]
    bad = rng.random() < 0.12          # deliberately impossible layouts
    for i in range(n):
        r = rng.random()
        if pending and r < 0.25:
            prog.append({"k": "label", "n": pending.pop()})
        elif r < 0.50:
            f = rng.choice([E("num", o=rng.randrange(min(top, 1 << 20))), E("lbl", rng.choice(names), rng.choice([0, w, 1, w + 3])),
                            E("cur", o=rng.choice([0, w, -dw if not bad else -3 * top]))])
            j = rng.choice([E("lbl", rng.choice(names)), E("cur"), E("num", o=rng.randrange(64) * dw % top), E("lbl", rng.choice(names), dw)])
            prog.append({"k": "op", "f": f, "j": j})
        elif r < 0.78:
            a = rng.choice([E("lbl", rng.choice(names), rng.choice([0, w])), E("num", o=rng.randrange(64) * w % top), E("cur", o=w)])
            v = E("num", o=rng.choice(vals) % top if w > 8 else rng.choice([0, 1, 2, 3, 0x81, 4]))
            two = rng.random() < 0.4
            rr = E("cur") if two else rng.choice(rets)
            prog.append({"k": "wflip", "a": a, "v": v, "r": rr, "two": two})
        elif r < 0.86:
            prog.append({"k": "pad", "n": rng.choice([1, 2, 4, 3, 8])})
        elif r < 0.93:
            k = rng.choice([2, 2, 4, 6, 1002, 0] + ([1, 3, -2] if bad else []))
            prog.append({"k": "reserve", "n": k * w})
        else:
            nw = sum(1 for s_ in prog if s_["k"] == "wflip")
            rsv = sum(s_["n"] for s_ in prog if s_["k"] == "reserve")
            seg_base += (len(prog) * 8 + nw * (w + 2)) * dw + rsv + rng.choice([64, 128, 1000]) * dw
            a = seg_base
            if w == 8:
                a = min(a, 0)   # no room at w=8: stays in one segment
                continue
            if bad and rng.random() < 0.6:
                a = rng.choice([0, dw, 2 * dw, 4 * dw, 6 * dw, seg_base + w, top + dw, rng.randrange(1, 12) * dw])
            if a < top or bad:
                prog.append({"k": "segment", "a": a})
    for name in pending:
        prog.append({"k": "label", "n": name})
    if bad and rng.random() < 0.3:
        prog.append({"k": "label", "n": names[0]})
    prog.append({"k": "op", "f": E("num", o=0), "j": E("cur", o=-dw)})
    if bad and rng.random() < 0.3:
        prog.append({"k": "op", "f": E("num", o=top), "j": E("cur")})
    return prog


def _asm_case(args):
    idx, w, version, prog = args
    par.fjm_run()
    import contextlib
    import io
    import flipjump
    from flipjump.fjm.fjm_consts import FJMVersion
    from flipjump.fjm.fjm_reader import Reader
    from flipjump.utils.exceptions import FlipJumpException
    from flipjump.utils.functions import load_debugging_labels

    d = Path(tempfile.mkdtemp(prefix="fjv_c02_"))
    try:
        src = d / "p.fj"
        src.write_text(render_prog(prog))
        out, dbg = d / "p.fjm", d / "p.fjd"
        obs = {"outcome": "ok", "img": [], "table": []}
        msg = ""
        alarm = engines._Alarm(60.0)                 # every run of the code under test is bounded
        try:
            with alarm, contextlib.redirect_stdout(io.StringIO()):
                flipjump.assemble([src], out, memory_width=w, fjm_version=FJMVersion(version), use_stl=False, print_time=False,
                                  debugging_file_path=dbg, warning_as_errors=False)
        except FlipJumpException as e:
            obs["outcome"] = "error"
            msg = f"{type(e).__name__}: {str(e)[:200]}"
            if "Unknown exception" in str(e):
                obs["outcome"] = "generic-error"
        except BaseException as e:  # noqa: BLE001
            obs["outcome"] = f"raw:{type(e).__name__}" + (":did-not-terminate-in-60s" if alarm.fired else "")
            msg = str(e)[:200]
        r = None
        if obs["outcome"] == "ok":
            try:
                r = Reader(out)
            except BaseException as e:  # noqa: BLE001      the assembler reported success but its output does not load
                obs["outcome"] = "output-unreadable"
                msg = f"{type(e).__name__}: {str(e)[:200]}"
        if r is not None:
            words = dict(r.memory)
            for s, e in r.zeros_boundaries:
                if e - s <= 5000:
                    for a in range(s, e):
                        words.setdefault(a, 0)
            runs = []
            for a in sorted(words):
                if runs and runs[-1][0] + len(runs[-1][1]) == a:
                    runs[-1][1].append(jint(words[a]))
                else:
                    runs.append([a, [jint(words[a])]])
            obs["img"] = [[jint(a), vs] for a, vs in runs]
            table = load_debugging_labels(dbg)
            obs["table"] = [[n, jint(a)] for n, a in table.items()]
        return {"w": w, "prog": to_json_prog(prog), "obs": obs, "idx": idx, "version": version, "msg": msg, "src": render_prog(prog)}
    finally:
        shutil.rmtree(d, ignore_errors=True)


TRACE_CFG = """SPECIFICATION Spec
CONSTRAINT Verdict
CHECK_DEADLOCK FALSE
"""


def validate(chk: Check, records, name, batch=60):
    scratch = Path(tempfile.mkdtemp(prefix="fjv_c02t_"))
    verdicts = {}
    try:
        jobs, offs = [], []
        for b0 in range(0, len(records), batch):
            part = [{k: r[k] for k in ("w", "prog", "obs")} for r in records[b0:b0 + batch]]
            f = scratch / f"b{b0}.json"
            f.write_text(json.dumps(part))
            jobs.append(dict(module="Trace_FJAsm", cfg_text=TRACE_CFG, workers=1, env={"TRACE_FILE": str(f)}, timeout=3000))
            offs.append(b0)
        for b0, res in zip(offs, tlc.run_many(jobs, parallel=16)):
            chk.add_tlc(res, f"{name}@{b0}", records=min(batch, len(records) - b0))
            for v in res.emitted.get("V", []):
                verdicts[b0 + v["tid"] - 1] = v
    finally:
        shutil.rmtree(scratch, ignore_errors=True)
    chk.configs[:] = c01._squash(chk.configs, name)
    return verdicts


# ---- (a) small-scope exhaustive programs (MC_FJAsm) ---------------------------------------------------
def tla_int(v: int) -> str:
    mag = list(abs(v).to_bytes((abs(v).bit_length() + 7) // 8, "little")) if v else []
    return f"[neg |-> {'TRUE' if v < 0 else 'FALSE'}, mag |-> <<{', '.join(map(str, mag))}>>]"


def tla_e(e: dict) -> str:
    return f'[b |-> "{e["b"]}", n |-> "{e["n"]}", m |-> {tla_int(e.get("m", 1))}, o |-> {tla_int(e["o"])}]'


def tla_stmt(s: dict) -> str:
    k = s["k"]
    if k == "op":
        return f'[k |-> "op", f |-> {tla_e(s["f"])}, j |-> {tla_e(s["j"])}]'
    if k == "label":
        return f'[k |-> "label", n |-> "{s["n"]}"]'
    if k == "wflip":
        return f'[k |-> "wflip", a |-> {tla_e(s["a"])}, v |-> {tla_e(s["v"])}, r |-> {tla_e(s["r"])}]'
    if k in ("pad", "reserve"):
        return f'[k |-> "{k}", n |-> {s["n"]}]'
    raise AssertionError(k)


def alphabet(w: int, small: bool) -> List[dict]:
    dw = 2 * w
    top = (1 << w) - 1
    hi = (1 << (w - 1)) | 1
    A = [
        {"k": "label", "n": "l1"},
        {"k": "label", "n": "l2"},
        {"k": "op", "f": E("num", o=5), "j": E("lbl", "l2")},
        {"k": "op", "f": E("lbl", "l1"), "j": E("cur")},
        {"k": "wflip", "a": E("lbl", "l1"), "v": E("num", o=hi), "r": E("cur")},
        {"k": "wflip", "a": E("num", o=dw), "v": E("num", o=1), "r": E("lbl", "l2")},
        {"k": "pad", "n": 2},
        {"k": "reserve", "n": dw},
        {"k": "wflip", "a": E("num", o=dw + w), "v": E("num", o=0), "r": E("cur")},
        {"k": "reserve", "n": 0},
        {"k": "reserve", "n": -dw},
    ]
    if not small:
        A += [
            {"k": "op", "f": E("cur"), "j": E("num", o=2 * dw)},
            {"k": "op", "f": E("num", o=top), "j": E("lbl", "l1", dw)},
            {"k": "wflip", "a": E("lbl", "l2", w), "v": E("num", o=3), "r": E("cur")},
            {"k": "reserve", "n": w // 2},
            {"k": "wflip", "a": E("num", o=top - 3), "v": E("num", o=0x18), "r": E("cur")},
        ]
    return A


def from_json_prog(jp: List[dict]) -> List[dict]:
    def iv(j):
        m = int.from_bytes(bytes(j["mag"]), "little")
        return -m if j["neg"] else m

    def ee(j):
        return {"b": j["b"], "n": j["n"], "o": iv(j["o"]), "m": iv(j["m"])}
    out = []
    for s in jp:
        k = s["k"]
        if k == "op":
            out.append({"k": k, "f": ee(s["f"]), "j": ee(s["j"])})
        elif k == "wflip":
            out.append({"k": k, "a": ee(s["a"]), "v": ee(s["v"]), "r": ee(s["r"])})
        else:
            out.append(dict(s))
    return out


def exhaustive(chk: Check, so: str, quick: bool, only_labels: bool):
    plans = [(8, False, 3 if not quick else 2), (8, True, 3)] if quick else [(8, False, 3), (16, False, 3), (8, True, 4), (16, True, 4)]
    jobs = []
    for w, small, maxlen in plans:
        A = alphabet(w, small)
        root = "---- MODULE MCasm ----\nEXTENDS MC_FJAsm, Integers\nAlpha_def == <<" + ",\n  ".join(tla_stmt(s_) for s_ in A) + ">>\n====\n"
        cfg = (f"SPECIFICATION Spec\nCONSTANTS\n  W = {w}\n  MaxLen = {maxlen}\n  Alphabet <- Alpha_def\n"
               "INVARIANT RefAccepted\nINVARIANT MutantRejected\nINVARIANT LayoutSane\nCONSTRAINT Emit\nCHECK_DEADLOCK FALSE\n")
        jobs.append(dict(module="MCasm", cfg_text=cfg, extra_modules={"MCasm": root}, workers=1, heap="4g", timeout=3000))
    work = []
    for (w, small, maxlen), res in zip(plans, tlc.run_many(jobs, parallel=4)):
        chk.add_tlc(res, f"MC_FJAsm[w={w},alphabet={'small' if small else 'full'},len<={maxlen}]", exhaustive=True)
        if not res.ok:
            raise MachineryFailure(f"MC_FJAsm: an invariant of the specification itself is violated: {res.violation}")
        progs = res.emitted.get("X", [])
        if not progs:
            raise MachineryFailure("MC_FJAsm emitted no programs")
        for x in progs:
            work.append((len(work), w, len(work) % 4, from_json_prog(x["prog"])))
    recs = par.pmap(_asm_case, work, so_path=so, procs=16, chunksize=16)
    verdicts = validate(chk, recs, "Trace_FJAsm[exhaustive]", batch=150)
    chk.traces += len(recs)
    chk.extra["exhaustive_programs"] = len(recs)
    chk.extra["exhaustive_outcomes"] = {o: sum(1 for r in recs if r["obs"]["outcome"] == o) for o in sorted({r["obs"]["outcome"] for r in recs})}
    report(chk, recs, verdicts, only_labels, "exhaustive")


def report(chk: Check, recs, verdicts, only_labels: bool, part: str):
    for i, rec in enumerate(recs):
        v = verdicts.get(i)
        if v is None:
            raise MachineryFailure(f"no verdict for record {i}")
        fail = v["fail"]
        if only_labels:
            fail = [c for c in fail if c == "labels"]
        if fail:
            chk.violation({"clauses": ",".join(sorted(fail)), "outcome": rec["obs"]["outcome"].split(":")[0]},
                          f"[{part}] w={rec['w']} v{rec['version']}: assembled program rejected by Trace_FJAsm: {fail}; outcome {rec['obs']['outcome']} {rec['msg']}; spec {v['spec']}",
                          {"source": rec["src"], "w": rec["w"], "version": rec["version"], "outcome": rec["obs"]["outcome"], "msg": rec["msg"], "verdict": v})


def run(chk: Check, replay=None, only_labels: bool = False):
    quick = chk.tier == "quick"
    rng = random.Random(chk.seed + 2)
    so = str(engines.build_native())
    chk.assumptions += [
        "generated programs leave room after every source segment for its wflip area (a layout that only fails because the area collides is not generated)",
        "operand expressions are number, label+offset, $+offset (general expressions are C12's)",
    ]
    ncases = 1200 if quick else 20000
    work = []
    for i in range(ncases):
        w = [8, 16, 32, 64][i % 4]
        prog = gen_prog(rng, w)
        if i % 9 == 8:
            prog = [{"k": "reserve", "n": 0}] + prog          # an empty reservation at address 0
        work.append((i, w, (i // 4) % 4, respell(prog, rng) if i % 5 == 4 else prog))
    recs = par.pmap(_asm_case, work, so_path=so, procs=16, chunksize=8)
    verdicts = validate(chk, recs, "Trace_FJAsm[generated]")
    chk.traces += len(recs)
    chk.extra["generated_programs"] = ncases
    chk.extra["outcomes"] = {o: sum(1 for r in recs if r["obs"]["outcome"] == o) for o in sorted({r["obs"]["outcome"] for r in recs})}
    chk.sample({"kind": "primitive program", "source": recs[0]["src"], "outcome": recs[0]["obs"]["outcome"]})
    report(chk, recs, verdicts, only_labels, "generated")
    exhaustive(chk, so, quick, only_labels)
