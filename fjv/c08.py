"""
C08 - pointer, stack and call/return macros address exactly the pointed cell.

The pointer part of StlSem.tla: a pointer variable's abstract value is the (signed) INDEX of the cell it points to, a
buffer is a "cells" variable (one byte per op: the 8 data bits), the stack is such a buffer with `sp` a pointer into
it.  The arena gives every pointer macro a block; the device translates index <-> address (buffer label + index*dw),
so the harness sets pointers to every cell of the buffers, runs sequences of macro applications WITHOUT resetting the
library's shared to_flip / to_jump ops in between (residue of one dereference meets the next address), and TLC
prescribes every variable, every cell of every buffer (the "nowhere else" clause: all cells and all other variables
are compared after every step), the flip-word view of the buffers, the branch taken by ptr_jump, the stack pointer
and the printed output of call trees (stl.call / return / fcall / fret / params / recursion).
Preconditions (the pointed cells lie inside the observed buffer) are evaluated on the states TLC printed; a behaviour
is judged up to the first step whose precondition does not hold.
"""
from __future__ import annotations

import random
from typing import Dict, List

from fjv import engines
from fjv.arena import Arena, Block
from fjv.core import Check
from fjv.stl_common import assemble_blaming, compare, ival, oracle, run_behaviours

NB, NS, NT, NBB = 12, 40, 6, 8       # cells of buf, of the observed part of the stack, jump targets, cells of the bit buffer
NDH = 10
DATA = ["x", "y", "z"]
TGT = [f"t{k}" for k in range(NT)]


# ---- call trees ----------------------------------------------------------------------------------
def gen_tree(rng: random.Random, depth: int, budget: List[int]) -> list:
    items = []
    for _ in range(rng.randrange(1, 4)):
        if budget[0] <= 0:
            break
        budget[0] -= 1
        r = rng.random()
        if depth <= 0 or r < 0.35:
            items.append(["o", rng.randrange(33, 127)])
        elif r < 0.6:
            items.append(["c", gen_tree(rng, depth - 1, budget)])
        elif r < 0.75:
            items.append(["f", gen_tree(rng, depth - 1, budget)])
        elif r < 0.88:
            items.append(["pc", rng.choice(DATA), gen_tree(rng, depth - 1, budget)])
        else:
            a, b = rng.choice(DATA), rng.choice(DATA)
            items.append(["pp", a, b, gen_tree(rng, depth - 1, budget)])
    return items


def tree_depth(items) -> int:
    d = 0
    for it in items:
        if it[0] == "c":
            d = max(d, 1 + tree_depth(it[1]))
        elif it[0] == "f":
            d = max(d, tree_depth(it[1]))
        elif it[0] == "pc":
            d = max(d, 2 + tree_depth(it[2]))
        elif it[0] == "pp":
            d = max(d, 1 + tree_depth(it[3]))
    return d


def tree_code(items, uid: str) -> str:
    funcs: List[str] = []
    counter = [0]

    def code(its) -> List[str]:
        out = []
        for it in its:
            if it[0] == "o":
                out.append(f"stl.output_char {it[1]}")
            elif it[0] in ("c", "pc"):
                counter[0] += 1
                f = f"blk_ct{uid}_f{counter[0]}"
                body = code(it[-1])
                funcs.extend([f"{f}:"] + body + ["stl.return"])
                if it[0] == "pc":
                    out += [f"hex.push_byte {it[1]}", f"stl.call {f}, 1"]
                else:
                    out.append(f"stl.call {f}")
            elif it[0] == "f":
                counter[0] += 1
                f, r = f"blk_ct{uid}_f{counter[0]}", f"blk_ct{uid}_r{counter[0]}"
                body = code(it[1])
                funcs.extend([f"{f}:"] + body + [f"stl.fret {r}", f"{r}:", ";0"])
                out.append(f"stl.fcall {f}, {r}")
            elif it[0] == "pp":
                out += [f"hex.push_byte {it[1]}"] + code(it[3]) + [f"hex.pop_byte {it[2]}"]
        return out

    main = code(items)
    return "\n  ".join([f";blk_ct{uid}_main"] + funcs + [f"blk_ct{uid}_main:"] + main)


def recurse_code(uid: str, var: str) -> str:
    f = f"blk_rc{uid}"
    return "\n  ".join([f";{f}_main", f"{f}_f:", f"hex.if0 {var}, {f}_ret", f"hex.dec 1, {var}", "stl.output_char 100", f"stl.call {f}_f",
                        "stl.output_char 117", f"{f}_ret:", "stl.return", f"{f}_main:", f"stl.call {f}_f"])


# ---- blocks --------------------------------------------------------------------------------------
def hex_blocks(rng: random.Random, w: int, sizes: List[int], ntrees: int, full: bool) -> List[Block]:
    B: List[Block] = []
    nq = w // 4

    def add(key, fj, v, n=0, m=0, sh=0, c=0, branches=(), name=None, js=None):
        B.append(Block(key, fj, v, n, m, sh, c, branches, name or fj.split(" ")[0], B=16, js=js))

    def P():
        return rng.choice(["p", "q"])

    def two():
        return rng.sample(["p", "q"], 2)

    def D():
        return rng.choice(DATA)

    add("ptr_add", "hex.ptr_inc {v0}", [P()], c=1)
    add("ptr_add", "hex.ptr_dec {v0}", [P()], c=-1)
    for c in ([0, 1, 3, 11] if full else [rng.choice([1, 3, 11])]):
        add("ptr_add", "hex.ptr_add {v0}, {c}", [P()], c=c)
        add("ptr_add", "hex.ptr_sub {v0}, {c}", [P()], c=c, js={"c": -c})
    a, b = two()
    add("ptr_index", "hex.ptr_index {v0}, {v1}, {v2}", [a, b, "i1"], n=nq)
    # the same call with the destination being the pointer itself (p = &p[i]): the documentation sets no restriction on it
    add("ptr_index", "hex.ptr_index {v0}, {v1}, {v2}", [a, a, "i1"], n=nq, name="hex.ptr_index[dst=ptr]")
    for m, nm in ((0, "hex"), (1, "byte")):
        add("ptr_rd", f"hex.read_{nm} {{v0}}, {{v1}}", [D(), P(), "buf"], n=1, m=m, name=f"hex.read_{nm}(2)")
        add("ptr_rd", f"hex.read_{nm}_and_inc {{v0}}, {{v1}}", [D(), P(), "buf"], n=1, m=m, sh=1)
        add("ptr_rd_nth", f"hex.read_nth_{nm} {{v0}}, {{v1}}, {{v2}}", [D(), P(), "i1", "buf"], n=nq, m=m)
        add("ptr_xor_from", f"hex.xor_{nm}_from_ptr {{v0}}, {{v1}}", [D(), P(), "buf"], n=1, m=m)
        add("ptr_wr", f"hex.write_{nm} {{v0}}, {{v1}}", [P(), D(), "buf"], n=1, m=m, name=f"hex.write_{nm}(2)")
        add("ptr_wr", f"hex.write_{nm}_and_inc {{v0}}, {{v1}}", [P(), D(), "buf"], n=1, m=m, sh=1)
        add("ptr_wr_nth", f"hex.write_nth_{nm} {{v0}}, {{v1}}, {{v2}}", [P(), "i1", D(), "buf"], n=nq, m=m)
        add("ptr_wr", f"hex.xor_{nm}_to_ptr {{v0}}, {{v1}}", [P(), D(), "buf"], n=1, m=m, c=1, name=f"hex.xor_{nm}_to_ptr(2)")
        add("ptr_wr", f"hex.pointers.xor_{nm}_to_ptr_and_inc {{v0}}, {{v1}}", [P(), D(), "buf"], n=1, m=m, sh=1, c=1)
        for n in sizes:
            if m == 1 and 2 * n > NDH:
                continue
            add("ptr_rd", f"hex.read_{nm} {{n}}, {{v0}}, {{v1}}", [D(), P(), "buf"], n=n, m=m, name=f"hex.read_{nm}(3)")
            add("ptr_wr", f"hex.write_{nm} {{n}}, {{v0}}, {{v1}}", [P(), D(), "buf"], n=n, m=m, name=f"hex.write_{nm}(3)")
            add("ptr_wr", f"hex.xor_{nm}_to_ptr {{n}}, {{v0}}, {{v1}}", [P(), D(), "buf"], n=n, m=m, c=1, name=f"hex.xor_{nm}_to_ptr(3)")
        # the stack
        add("push", f"hex.push_{nm} {{v0}}", [D(), "sp", "stack"], m=m)
        add("pop", f"hex.pop_{nm} {{v0}}", [D(), "sp", "stack"], m=m)
    # byte-buffer helpers of hex/strings.fj (pointer + count / length in a hex[:w/4] variable)
    add("buf_input_line", "hex.input_ptr_line {v0}, {v1}", [P(), "i1", "buf"], n=nq)
    add("buf_print_text", "hex.print_ptr_text {v0}, {v1}", [P(), "i1", "buf"], n=nq)
    add("buf_print_line", "hex.print_ptr_line {v0}, {v1}", [P(), "i1", "buf"], n=nq)
    add("buf_fill", "hex.fill_bytes {v0}, {v1}, {v2}", [P(), "i1", D(), "buf"], n=nq)
    a, b = two()
    add("buf_copy", "hex.copy_bytes {v0}, {v1}, {v2}", [a, b, "i1", "buf"], n=nq)
    add("ptr_zero", "hex.zero_ptr {v0}", [P(), "buf"])
    add("ptr_flip_data", "hex.ptr_flip_dbit {v0}", [P(), "buf"], c=1)
    add("ptr_flip_data", "hex.ptr_flip {v0}", [P(), "bufF"], c=1)
    for c in ([0x80, 0x5A, 0xFF] if full else [rng.choice([0x80, 0x5A, 0xFF, 1])]):
        add("ptr_flip_data", "hex.ptr_wflip_2nd_word {v0}, {c}*dw", [P(), "buf"], c=c)
        add("ptr_flip_data", "hex.ptr_wflip {v0}, {c}", [P(), "bufF"], c=c)
    add("ptr_jump", "hex.ptr_jump {v0}", ["j"], branches=TGT, js={"tgt": TGT})
    for n in sizes + [rng.choice([2, 3])]:
        if n <= NDH:
            add("push_n", "hex.push {n}, {v0}", [D(), "sp", "stack"], n=n, name="hex.push(2)")
            add("pop_n", "hex.pop {n}, {v0}", [D(), "sp", "stack"], n=n, name="hex.pop(2)")
    add("ptr_add", "hex.sp_inc", ["sp"], c=1)
    add("ptr_add", "hex.sp_dec", ["sp"], c=-1)
    c = rng.choice([2, 3, 5])
    add("ptr_add", "hex.sp_add {c}", ["sp"], c=c)
    add("ptr_add", "hex.sp_sub {c}", ["sp"], c=c, js={"c": -c})
    add("ptr_mov", "stl.get_sp {v0}", ["sq", "sp"])
    # functions
    for t in range(ntrees):
        tree = gen_tree(rng, rng.choice([1, 2, 3, 4]), [rng.choice([4, 8, 14])])
        if t == 0:
            tree = [["c", [["o", 65], ["c", [["o", 66], ["c", [["c", [["c", [["o", 67]]], ["o", 68]]], ["o", 69]]], ["f", [["o", 70]]]]], ["o", 71]]]]
        B.append(Block("calls", tree_code(tree, str(t)), ["sp", "stack"] + DATA, name="stl.call/return/fcall/fret", B=16,
                       js={"tree": tree, "depth": tree_depth(tree)}))
    cv = D()
    B.append(Block("recurse", recurse_code("0", cv), [cv, "sp", "stack"], name="stl.call (recursive)", B=16))
    return B


def buffer_blocks(rng: random.Random, w: int) -> List[Block]:
    """only the byte-buffer helpers of hex/strings.fj (they are also part of C09's statement) plus what they are built on"""
    keep = ("buf_input_line", "buf_print_text", "buf_print_line", "buf_fill", "buf_copy")
    B = [b for b in hex_blocks(rng, w, [2], 0, False) if b.key in keep or b.name in ("hex.read_byte(2)", "hex.write_byte(2)", "hex.ptr_inc")]
    return B


def bit_blocks(rng: random.Random, w: int, small: bool) -> List[Block]:
    B: List[Block] = []

    def add(key, fj, v, n=0, m=2, sh=0, c=0, branches=(), name=None, js=None):
        B.append(Block(key, fj, v, n, m, sh, c, branches, name or fj.split(" ")[0], B=2, js=js))

    def P():
        return rng.choice(["bp", "bq"])

    add("ptr_add", "bit.ptr_inc {v0}", [P()], c=1)
    add("ptr_add", "bit.ptr_dec {v0}", [P()], c=-1)
    add("ptr_jump", "bit.ptr_jump {v0}", ["bj"], branches=TGT, js={"tgt": TGT})
    add("ptr_flip_data", "bit.ptr_flip_dbit {v0}", [P(), "bbuf"], c=1)
    add("ptr_flip_data", "bit.ptr_flip {v0}", [P(), "bbufF"], c=1)
    add("ptr_wr", "bit.xor_to_ptr {v0}, {v1}", [P(), "b1", "bbuf"], n=1, c=1)
    add("ptr_xor_from", "bit.xor_from_ptr {v0}, {v1}", ["b1", P(), "bbuf"], n=1)
    if not small:
        c = rng.choice([0xA5, 0x81, 0xFF])
        add("ptr_flip_data", "bit.ptr_wflip_2nd_word {v0}, {c}*dw", [P(), "bbuf"], c=c)
        add("ptr_flip_data", "bit.ptr_wflip {v0}, {c}", [P(), "bbufF"], c=c)
    return B


# ---- the arena -----------------------------------------------------------------------------------
def make_arena(fjm_run, w: int, blocks: List[Block], with_hex: bool, engine="native-flat") -> Arena:
    hexv = DATA + ["i1", "p", "q", "j", "sq", "buf", "bufF", "sp", "stack"] if with_hex else []
    bitv = ["bp", "bq", "bj", "b1", "bbuf", "bbufF"]
    jt = "\n".join(["jt:"] + [f"  ;jt_{k}" for k in range(NT)] + [f"jt_{k}:\n  hex.set brvar, {k + 1}\n  ;again" for k in range(NT)])
    init = "stl.startup_and_init_all 60" if with_hex else "stl.startup again\nbit.pointers.ptr_init"
    a = Arena(fjm_run, w, "hex", hexv + bitv, NDH, blocks, extra_decl=jt, init=init, engine=engine)
    a.extra_names = ["jt"] + [f"jt_{k}" for k in range(NT)]
    nq = w // 4
    for v in ("i1", "p", "q", "j", "sq"):
        a.var_nd[v] = nq
    for v, r in (("p", "buf"), ("q", "buf"), ("j", "jt"), ("sq", "hex.pointers.stack"), ("sp", "hex.pointers.stack"),
                 ("bp", "bbuf"), ("bq", "bbuf"), ("bj", "jt")):
        a.var_ptr[v] = r
    a.var_at.update({"bufF": "buf", "bbufF": "bbuf"})
    if with_hex:
        a.var_at.update({"sp": "hex.pointers.sp", "stack": "hex.pointers.stack"})
        a.var_nd.update({"sp": nq, "stack": NS})
        a.var_kind.update({"stack": "byte"})
    a.var_kind.update({"buf": "byte", "bufF": "flipbyte", "bbuf": "byte", "bbufF": "flipbyte", "bp": "bit", "bq": "bit", "bj": "bit", "b1": "bit"})
    a.var_nd.update({"buf": NB, "bufF": NB, "bbuf": NBB, "bbufF": NBB, "bp": w, "bq": w, "bj": w, "b1": 4})
    a.no_restore = ("hex.pointers.", "bit.pointers.")
    a.region_size = {"buf": NB, "bufF": NB, "stack": NS, "bbuf": NBB, "bbufF": NBB}

    def rest_check(dev) -> bool:
        """the library's own contract for its shared ops at rest: to_flip's flip word and to_jump's jump word hold what
        the shadow variables to_flip_var / to_jump_var say; the other words of those ops are back to 0"""
        lab = a.labels
        lw = w.bit_length() - 1
        sh = w.bit_length()

        def word(label, k=0):
            return dev.mem.read_word((lab[label] >> lw) + k)

        def var(label, db, nd):
            base = lab[label] >> lw
            v = 0
            for i in range(nd):
                v |= ((dev.mem.read_word(base + 2 * i + 1) >> sh) & ((1 << db) - 1)) << (db * i)
            return v

        ok = True
        for ns, db, nd in (("hex.pointers", 4, nq), ("bit.pointers", 1, w)):
            if f"{ns}.to_flip" not in lab:
                continue
            ok &= word(f"{ns}.to_flip", 0) == var(f"{ns}.to_flip_var", db, nd) and word(f"{ns}.to_flip", 1) == 0
            ok &= word(f"{ns}.to_jump", 0) == 0 and word(f"{ns}.to_jump", 1) == var(f"{ns}.to_jump_var", db, nd)
        if "hex.pointers.ret_after_read_byte" in lab:
            ok &= word("hex.pointers.ret_after_read_byte", 0) == 0 and word("hex.pointers.ret_after_read_byte", 1) == 0
        return bool(ok)

    a.rest_check = rest_check
    return a


def region_of(arena: Arena, blk: Block):
    for v in blk.v:
        if v in arena.region_size:
            return v, arena.region_size[v]
    return None, 0


def twos(v: int, w: int) -> int:
    return v % (1 << w)


def signed(v: int, w: int) -> int:
    v %= 1 << w
    return v - (1 << w) if v >> (w - 1) else v


def precond(arena: Arena, blk: Block, pre: Dict[str, int], post: Dict[str, int]) -> bool:
    """do the cells the macro is documented to touch lie inside the observed buffer?  (values: the state TLC printed)"""
    w = arena.w
    k = blk.key
    reg, size = region_of(arena, blk)
    # the pointed ops are variables: their flip word is 0 (the read macros jump THROUGH the pointed op) and a bit cell holds 0 / 1
    if reg in ("buf", "bbuf") and k != "ptr_flip_data" and pre.get(reg + "F", 0) != 0:
        return False
    if k == "ptr_xor_from" and blk.m == 2 and (pre["bbuf"] >> (8 * max(0, pre[blk.v[1]]))) & 0xFF > 1:
        return False
    if k in ("ptr_add", "ptr_mov", "ptr_index"):
        return all(abs(pre[v]) < 1 << 20 for v in blk.v if v in arena.var_ptr)
    if k in ("buf_input_line", "buf_print_line"):        # the bytes stored / printed (the length TLC prescribes) lie inside the buffer
        p = pre[blk.v[0]]
        return 0 <= p and p + post[blk.v[1]] + (1 if k == "buf_print_line" else 0) <= size
    if k in ("buf_print_text", "buf_fill"):
        p = pre[blk.v[0]]
        return 0 <= p and 0 <= pre[blk.v[1]] and p + pre[blk.v[1]] <= size
    if k == "buf_copy":
        d_, s_, c_ = pre[blk.v[0]], pre[blk.v[1]], pre[blk.v[2]]
        return 0 <= d_ and 0 <= s_ and 0 <= c_ and d_ + c_ <= size and s_ + c_ <= size and (d_ + c_ <= s_ or s_ + c_ <= d_)
    if k in ("ptr_rd", "ptr_xor_from"):
        p = pre[blk.v[1]]
        return 0 <= p and p + max(1, blk.n) <= size
    if k == "ptr_wr":
        p = pre[blk.v[0]]
        return 0 <= p and p + max(1, blk.n) <= size
    if k == "ptr_rd_nth":
        return 0 <= pre[blk.v[1]] + signed(pre[blk.v[2]], w) < size and abs(signed(pre[blk.v[2]], w)) < 1 << 20 and abs(pre[blk.v[1]]) < 1 << 20
    if k == "ptr_wr_nth":
        return 0 <= pre[blk.v[0]] + signed(pre[blk.v[1]], w) < size and abs(signed(pre[blk.v[1]], w)) < 1 << 20 and abs(pre[blk.v[0]]) < 1 << 20
    if k in ("ptr_zero", "ptr_flip_data"):
        return 0 <= pre[blk.v[0]] < size
    if k == "ptr_jump":
        return 0 <= pre[blk.v[0]] < NT
    sp = pre.get("sp", 0)
    if k == "push":
        return 0 <= sp and sp + 1 < size
    if k == "pop":
        return 1 <= sp < size
    if k == "push_n":
        return 0 <= sp and sp + (blk.n + 1) // 2 < size
    if k == "pop_n":
        return sp - (blk.n + 1) // 2 >= 0 and sp < size
    if k == "calls":
        return 0 <= sp and sp + blk.js["depth"] + 1 < NS
    if k == "recurse":
        return 0 <= sp and sp + 18 < NS
    raise AssertionError(k)


def gen_sets(rng: random.Random, arena: Arena, blk: Block, first: bool, with_hex: bool) -> Dict[str, int]:
    w = arena.w
    st: Dict[str, int] = {}
    allv = arena.vars
    reg, size = region_of(arena, blk)
    for v in allv:
        used = v in blk.v
        kind = arena.var_kind.get(v, "hex")
        if not first and not (used and rng.random() < 0.55) and kind != "flipbyte":
            continue
        if v in arena.var_ptr:
            if v in ("j", "bj"):
                st[v] = rng.randrange(NT)
            elif v in ("sp", "sq"):
                st[v] = rng.choice([0, 1, 2, 3, 5, 9, rng.randrange(0, 16)])
            else:
                rsize = NB if v in ("p", "q") else NBB
                span = max(1, blk.n) if blk.key in ("ptr_rd", "ptr_wr") and used else 1
                st[v] = rng.randrange(0, max(1, rsize - span + 1))
                if used and blk.key in ("ptr_add", "ptr_index") and rng.random() < 0.5:
                    if rng.random() < 0.4:
                        st[v] = rng.choice([-3, -1, 0, rsize, 255, 256, -256] + ([1 << 12, -(1 << 12)] if w > 16 else []))
                    else:
                        # carry / borrow chains of every length: the ABSOLUTE op index sits right at a multiple of 2^j
                        base_op = arena.labels[arena.var_ptr[v]] // (2 * w)
                        j = rng.randrange(1, 15 if w > 16 else 8)
                        m = max(1, (base_op >> j) + rng.choice([0, 1, 1, 2]))
                        st[v] = (m << j) - base_op - rng.choice([0, 1, 1, 2, 3, 11])
        elif kind == "flipbyte":
            if first or rng.random() < 0.5:
                st[v] = 0
        elif kind == "byte":
            n = arena.var_nd[v]
            if v == "bbuf":
                st[v] = sum(rng.randrange(2) << (8 * i) for i in range(n))
            else:
                st[v] = int.from_bytes(bytes(rng.choice([0, 0xFF, 0x0F, 0xF0, rng.randrange(256), rng.randrange(256)]) for _ in range(n)), "little")
        elif v == "i1":
            lo, hi = -NB, NB
            st[v] = twos(rng.randint(lo, hi), w)
        elif kind == "bit":
            st[v] = rng.randrange(1 << arena.var_nd.get(v, 4))
        else:
            st[v] = rng.randrange(1 << (4 * NDH)) if rng.random() < 0.8 else rng.choice([0, (1 << (4 * NDH)) - 1])
    if blk.key.startswith("buf_") and (first or rng.random() < 0.8):
        pv = blk.v[0]
        pval = rng.randrange(NB)
        st[pv] = pval
        if blk.key == "buf_copy":
            c_ = rng.randrange(0, NB // 2 + 1)
            lo_, hi_ = sorted(rng.sample(range(0, NB - 2 * c_ + 2), 2)) if NB - 2 * c_ + 2 >= 2 else (0, 0)
            a_, b_ = lo_, max(hi_, lo_ + c_)
            if rng.random() < 0.5:
                a_, b_ = b_, a_
            st[blk.v[0]], st[blk.v[1]], st["i1"] = a_, b_, c_
        else:
            st["i1"] = rng.choice([0, 1, NB - pval, rng.randrange(NB - pval + 1), rng.randrange(NB - pval + 1)])
        if blk.key == "buf_print_line" and "buf" not in st or blk.key == "buf_print_line":
            # a terminator somewhere in the buffer
            cells = bytearray(st.get("buf", 0).to_bytes(NB, "little")) if st.get("buf", 0) < 1 << (8 * NB) else bytearray(NB)
            cells[rng.randrange(pval, NB)] = rng.choice([0, 10])
            st["buf"] = int.from_bytes(bytes(cells), "little")
    # make indexed accesses land inside the buffer most of the time
    if blk.key in ("ptr_rd_nth", "ptr_wr_nth") and (first or rng.random() < 0.7):
        pv = blk.v[1] if blk.key == "ptr_rd_nth" else blk.v[0]
        pval = rng.randrange(NB)
        st[pv] = pval
        st["i1"] = twos(rng.randrange(NB) - pval, w)
    return st


def run_arena(chk: Check, fjm_run, w: int, blocks: List[Block], with_hex: bool, count: int, maxlen: int, rng: random.Random, tag: str, engine="native-flat"):
    from flipjump.utils.exceptions import FlipJumpException
    all_blocks = list(blocks)
    arena, blocks = assemble_blaming(chk, lambda bl: make_arena(fjm_run, w, bl, with_hex, engine), blocks, f"ptr {tag} w={w}", min_blocks=3)
    try:
        behs = []
        for i in range(count):
            beh = []
            for k in range(1 if i < len(blocks) else rng.randrange(2, maxlen + 1)):
                bi = i % len(blocks) if k == 0 else rng.randrange(len(blocks))
                step = {"block": bi, "set": gen_sets(rng, arena, blocks[bi], k == 0, with_hex)}
                if blocks[bi].key == "buf_input_line":
                    room = max(0, NB - max(0, step["set"].get(blocks[bi].v[0], 0)))
                    line = bytes(rng.choice([rng.randrange(1, 256), 65 + rng.randrange(26)]) for _ in range(rng.randrange(0, room + 1))).replace(b"\n", b"x")
                    data = line + rng.choice([b"\n", b"\n", b"\x00", b""]) + bytes(rng.randrange(256) for _ in range(rng.randrange(3)))
                    step["inp"] = [(b_ >> i_) & 1 for b_ in data for i_ in range(8)]
                beh.append(step)
            behs.append(beh)
        expected = oracle(chk, 16, arena.vars, blocks, behs, f"StlSem[ptr {tag} w={w}]", batch=50)
        # preconditions, on TLC's states: cut every behaviour before the first step that leaves the observed buffers
        kept, cut = [], 0
        for i, beh in enumerate(behs):
            exp = expected.get(i)
            if exp is None:
                continue
            cur = {v: 0 for v in arena.vars}
            upto = 0
            for k, st in enumerate(beh):
                cur.update(st["set"])
                post = {v: ival(x) for v, x in exp[k]["vals"].items()}
                if not precond(arena, blocks[st["block"]], cur, post):
                    break
                upto = k + 1
                cur = post
                if blocks[st["block"]].name.endswith("]"):
                    # a block with a recorded defect (an aliased call, KF-8): the REAL state after it is not the one the
                    # preconditions of the following steps were derived from (a wild pointer would be used) - the behaviour ends here
                    break
            if upto < len(beh):
                cut += 1
            if upto:
                kept.append((beh[:upto], exp[:upto]))
        behs2 = [b for b, _ in kept]
        per = chk.extra.setdefault("steps_judged_per_macro", {})
        for b_ in behs2:
            for st_ in b_:
                nm = blocks[st_["block"]].name
                per[nm] = per.get(nm, 0) + 1
        exp2 = {i: e for i, (_, e) in enumerate(kept)}
        results, broken = run_behaviours(arena, behs2)
        n = compare(chk, arena, behs2, results, broken, exp2, blocks, f"ptr {tag} w={w} {engine}")
        chk.traces += len(behs2)
        chk.extra["steps_compared"] = chk.extra.get("steps_compared", 0) + n
        chk.extra.setdefault("arenas", []).append({"w": w, "part": tag, "engine": engine, "blocks": len(blocks), "assemble_s": round(arena.asm_seconds, 1),
                                                   "macros": sorted({b.name for b in blocks}), "behaviours": len(behs2), "cut_by_precondition": cut})
        chk.sample({"kind": "pointer behaviour", "w": w, "steps": [{"macro": blocks[s["block"]].name, "set": {k: hex(v) for k, v in s["set"].items()}} for s in behs2[-1]]})
    finally:
        arena.close()
    rest = [b for b in all_blocks if all(b is not x for x in blocks) and all(b is not x for x in arena.refused_blocks)]
    if rest:
        # the address space had no room for all the blocks (w = 16): the rest gets an arena of its own
        run_arena(chk, fjm_run, w, rest, with_hex, count, maxlen, rng, tag, engine)


def run(chk: Check, replay=None):
    quick = chk.tier == "quick"
    rng = random.Random(chk.seed + 8)
    so = str(engines.build_native())
    fjm_run = engines.setup(so_path=so)
    chk.assumptions += ["StlSem.tla (pointer part) transcribes the documentation of the pointer / stack / call macros over an abstract "
                        "store: pointer = signed cell index, buffer = bytes, and every cell of every buffer plus every variable is compared after every step",
                        "pointed cells lie inside the observed buffers (12-cell buffer, first 40 stack cells); pointers are op-aligned",
                        "the library's shared pointer ops are NOT reset between the steps of a behaviour nor between behaviours",
                        "operands of one call are distinct variables, except in the block named hex.ptr_index[dst=ptr] (KF-8)"]
    import os
    part = os.environ.get("FJV_C08_PART")          # development aid: run one part only
    if part:
        if part == "bit":
            for w in (64, 32, 16):
                run_arena(chk, fjm_run, w, bit_blocks(rng, w, w == 16), False, 300, 4, rng, "bit")
        else:
            run_arena(chk, fjm_run, int(part), hex_blocks(rng, int(part), [2], 3, False), True, 700, 4, rng, "hex")
    elif quick:
        run_arena(chk, fjm_run, 64, hex_blocks(rng, 64, [2, 3], 5, False), True, 1500, 4, rng, "hex")
        run_arena(chk, fjm_run, 32, hex_blocks(rng, 32, [2], 3, False), True, 700, 4, rng, "hex")
        run_arena(chk, fjm_run, 64, bit_blocks(rng, 64, False), False, 300, 4, rng, "bit")
        run_arena(chk, fjm_run, 32, bit_blocks(rng, 32, False), False, 300, 4, rng, "bit")
        run_arena(chk, fjm_run, 16, bit_blocks(rng, 16, True), False, 300, 4, rng, "bit")
    else:
        # (sized so that the TLC oracle - byte-limb arithmetic on 40-cell buffers - finishes in about half an hour)
        run_arena(chk, fjm_run, 64, hex_blocks(rng, 64, [2, 3, 4, 5], 16, True), True, 12000, 8, rng, "hex")
        run_arena(chk, fjm_run, 32, hex_blocks(rng, 32, [2, 3, 5], 12, True), True, 8000, 8, rng, "hex")
        run_arena(chk, fjm_run, 64, bit_blocks(rng, 64, False), False, 3000, 8, rng, "bit")
        run_arena(chk, fjm_run, 32, bit_blocks(rng, 32, False), False, 3000, 8, rng, "bit")
        run_arena(chk, fjm_run, 16, bit_blocks(rng, 16, True), False, 3000, 8, rng, "bit")
        run_arena(chk, fjm_run, 64, hex_blocks(rng, 64, [2], 4, False), True, 1500, 5, rng, "hex", engine="fast")
