"""shared driver for the library checks (C04 hex, C05 bit, ...): behaviours -> arena -> TLC oracle -> comparison"""
from __future__ import annotations

import json
import random
import shutil
import tempfile
from pathlib import Path
from typing import Dict, List, Sequence, Tuple

from fjv import c01, engines, tlc
from fjv.arena import Arena, Block
from fjv.c02 import jint
from fjv.core import Check, MachineryFailure

ORACLE_CFG = "SPECIFICATION Spec\nCONSTRAINT Emit\nCHECK_DEADLOCK FALSE\n"


def ival(j):
    m = int.from_bytes(bytes(j["mag"]), "little")
    return -m if j["neg"] else m


def oracle(chk: Check, B: int, variables: Sequence[str], blocks: Sequence[Block], behaviours: List[List[dict]], name: str, batch: int = 150):
    """TLC (Trace_Stl / StlSem) computes the state after every step of every behaviour"""
    scratch = Path(tempfile.mkdtemp(prefix="fjv_stl_"))
    out: Dict[int, list] = {}
    try:
        jobs, offs = [], []
        for b0 in range(0, len(behaviours), batch):
            recs = []
            for beh in behaviours[b0:b0 + batch]:
                steps = []
                for st in beh:
                    s = blocks[st["block"]].step_json()
                    s["set"] = [[k, jint(v)] for k, v in st["set"].items()]
                    s["B"] = blocks[st["block"]].B or B
                    s["inp"] = list(st.get("inp", []))
                    steps.append(s)
                recs.append({"B": B, "vars": list(variables), "steps": steps})
            f = scratch / f"b{b0}.json"
            f.write_text(json.dumps(recs))
            jobs.append(dict(module="Trace_Stl", cfg_text=ORACLE_CFG, workers=1, env={"TRACE_FILE": str(f)}, timeout=3000))
            offs.append(b0)
        for b0, res in zip(offs, tlc.run_many(jobs, parallel=16)):
            chk.add_tlc(res, f"{name}@{b0}", behaviours=min(batch, len(behaviours) - b0))
            for p in res.emitted.get("P", []):
                out[b0 + p["tid"] - 1] = p["post"]
    finally:
        shutil.rmtree(scratch, ignore_errors=True)
    chk.configs[:] = c01._squash(chk.configs, name)
    return out


def assemble_blaming(chk: Check, make_arena, blocks: List[Block], tag: str, min_blocks: int = 3):
    """assemble the arena.  If the assembler refuses it for lack of address space, drop the last third of the blocks
    (the caller gives the rest an arena of its own); if it refuses it for any other reason, find the macro instances
    that do not assemble on their own: each is a VIOLATION (a documented macro must assemble for its documented
    operands), and the arena is built without them.  Returns (arena, blocks_used)."""
    from flipjump.utils.exceptions import FlipJumpException
    blocks = list(blocks)
    refused: List[Block] = []
    for _ in range(12):
        arena = make_arena(blocks)
        try:
            arena.assemble()
            arena.refused_blocks = refused
            return arena, blocks
        except FlipJumpException as e:
            arena.close()
            if "Not enough space" in str(e) or "verlap" in str(e):
                if len(blocks) < min_blocks:
                    raise
                blocks = blocks[: len(blocks) * 2 // 3]
                continue
            bad = []
            for b in blocks:
                a1 = make_arena([b])
                try:
                    a1.assemble()
                except FlipJumpException as e1:
                    bad.append((b, e1))
                finally:
                    a1.close()
            if not bad:
                raise MachineryFailure(f"{tag}: the arena does not assemble although every block does on its own: {e}")
            for b, e1 in bad:
                text = b.fj.format(n=b.n, m=b.m, sh=b.sh, c=b.c, **{f"v{q}": x for q, x in enumerate(b.v)}, **{x: x for x in b.branches})
                chk.violation({"macro": b.name, "what": "does-not-assemble"},
                              f"{tag}: `{text}` does not assemble: {type(e1).__name__}: {str(e1)[:300]}", {"block": text, "error": str(e1)[:2000]})
            refused += [x for x, _ in bad]
            blocks = [b for b in blocks if all(b is not x for x, _ in bad)]
    raise MachineryFailure(f"{tag}: could not build an arena")


def bits_repr(bits) -> str:
    by = bytes(sum(b << i for i, b in enumerate(bits[k:k + 8])) for k in range(0, len(bits) - len(bits) % 8, 8))
    return f"{by!r}+{len(bits) % 8}bits"


def run_behaviours(arena: Arena, behaviours: List[List[dict]]) -> Tuple[List, List[int]]:
    """run all behaviours; a behaviour that breaks the run is reported and skipped"""
    results: List = [None] * len(behaviours)
    broken: List[int] = []
    todo = list(range(len(behaviours)))
    guard = 0
    while todo and guard < 50:
        guard += 1
        # the time budget grows with the work: a slow machine must not look like a macro that never returns
        res = arena.run([behaviours[i] for i in todo], budget_s=60.0 + 0.25 * len(todo))
        done = 0
        for k, r in enumerate(res):
            if r is None:
                break
            results[todo[k]] = r
            done += 1
        if done == len(todo):
            break
        if arena.last_end == "budget":
            # out of time inside behaviour todo[done]: give it a run of its own before calling it non-terminating
            alone = arena.run([behaviours[todo[done]]], budget_s=120.0)
            if alone[0] is not None:
                results[todo[done]] = alone[0]
                todo = todo[done + 1:]
                continue
        broken.append(todo[done])
        arena.__dict__.setdefault("break_reasons", {})[todo[done]] = (arena.last_end, arena.broke_at)
        todo = todo[done + 1:]
    return results, broken


def compare(chk: Check, arena: Arena, behaviours, results, broken, expected, blocks, tag: str):
    nsteps = 0
    for i, beh in enumerate(behaviours):
        if i in broken:
            why, at = getattr(arena, "break_reasons", {}).get(i, (arena.last_end, arena.broke_at))
            kbroke = min(len(beh) - 1, max(0, at[1]))
            # a macro that does not come back may only be the victim of an EARLIER step that already left a wrong value (a wild
            # pointer, say): the steps before it are run again on their own and judged first - the first wrong step is the finding
            if kbroke > 0 and expected.get(i) is not None:
                pre = arena.run([beh[:kbroke]], budget_s=120.0)[0]
                if pre is not None:
                    before = len(chk.violations) + sum(chk.known_hits.values())
                    nsteps += _compare_steps(chk, arena, beh[:kbroke], pre, expected[i][:kbroke], blocks, tag)
                    if len(chk.violations) + sum(chk.known_hits.values()) > before:
                        continue
            blk = blocks[beh[kbroke]["block"]]
            chk.violation({"macro": blk.name, "what": "did-not-return"},
                          f"{tag}: macro {blk.name} (n={blk.n}) never came back to a marker ({why})", {"behaviour": beh, "block": blk.fj})
            continue
        got, exp = results[i], expected.get(i)
        if got is None:
            continue
        if exp is None:
            raise MachineryFailure(f"no oracle output for behaviour {i}")
        nsteps += _compare_steps(chk, arena, beh, got, exp, blocks, tag)
    return nsteps


def _compare_steps(chk: Check, arena: Arena, beh, got, exp, blocks, tag: str) -> int:
    """judge the observed steps of one behaviour against TLC's expected states; reports the first step that differs"""
    nsteps = 0
    if True:
        for k, (g, e) in enumerate(zip(got, exp)):
            nsteps += 1
            blk = blocks[beh[k]["block"]]
            if "*" in e.get("dontcare", []):
                break        # the step's documented result depends on state the documentation leaves unspecified
            ev = {v: ival(x) for v, x in e["vals"].items()}
            diffs = []
            if g["out"] != e["out"]:
                diffs.append(f"output: got {bits_repr(g['out'])} expected {bits_repr(e['out'])}")
            if g["inused"] != e["inused"]:
                diffs.append(f"input bits consumed: got {g['inused']} expected {e['inused']}")
            for v in arena.vars:
                if v in e.get("dontcare", []):
                    continue
                if g["vals"][v] != ev[v]:
                    diffs.append(f"{v}: got {hex(g['vals'][v])} expected {hex(ev[v])}")
            if g["br"] != e["br"]:
                diffs.append(f"branch: got {g['br']} expected {e['br']}")
            if (e["addc"] != 2 and g["addc"] != e["addc"]) or (e["subc"] != 2 and g["subc"] != e["subc"]):      # 2 = not documented
                diffs.append(f"carry: got add={g['addc']} sub={g['subc']} expected add={e['addc']} sub={e['subc']}")
            if not g["hidden_ok"]:
                diffs.append("hidden library state is not at rest after the macro")
            if not g["clean"]:
                diffs.append("a variable op is left with bits outside its data field")
            if diffs:
                # how it differs (only used to tell a listed known finding from any other failure of the same macro)
                pattern = "other"
                if g["out"] != e["out"] and len(g["out"]) == len(e["out"]) and len(g["out"]) % 8 == 0:
                    gb = [g["out"][q:q + 8] for q in range(0, len(g["out"]), 8)]
                    if [x for ch in reversed(gb) for x in ch] == e["out"] and all(g["vals"][v] == ev[v] for v in arena.vars):
                        pattern = "characters-in-reverse-order"
                elif g["out"] == e["out"] and blk.key == "in_bytes" and blk.n > 1:
                    v0 = blk.v[0]
                    nb = blk.n
                    lowg = (g["vals"][v0] & ((1 << (8 * nb)) - 1)).to_bytes(nb, "little")
                    lowe = (ev[v0] & ((1 << (8 * nb)) - 1)).to_bytes(nb, "little")
                    others = all(g["vals"][v] == ev[v] for v in arena.vars if v != v0) and (g["vals"][v0] >> (8 * nb)) == (ev[v0] >> (8 * nb))
                    if lowg == lowe[::-1] and others:
                        pattern = "bytes-in-reverse-order"
                chk.violation({"macro": blk.name, "what": "wrong-result", "pattern": pattern},
                              f"{tag}: step {k} {blk.fj.format(n=blk.n, m=blk.m, sh=blk.sh, c=blk.c, **{f'v{q}': x for q, x in enumerate(blk.v)}, **{b: b for b in blk.branches})}: " + "; ".join(diffs[:4]),
                              {"behaviour": beh[:k + 1], "step": k, "got": g, "expected": {"vals": {v: hex(x) for v, x in ev.items()}, "br": e["br"]}})
                break
            if e.get("dontcare"):
                break        # a destination is unspecified from here on (documented error branch): the rest is not judged
    return nsteps
