"""
C18 - a device failure or interrupt stops the run at a consistent point.

FJMachineFaults.tla = FJMachine + a device that raises at its k-th call (library IO error, the library's
end-of-input exception raised from a WRITE, a foreign exception, KeyboardInterrupt).  It prescribes the
caller-visible outcome and the state at the stop (nothing of the failing op has happened).
(A) TLC explores it exhaustively at w=8 (every image x input x k x kind; invariant StopIsConsistent) and
    emits every stop; each is replayed on every engine configuration with a faulty harness device and the
    outcome class, exception identity / cause, device-side call record, output, op count, last-ops list and
    post-stop memory (read through the DeviceMemory the device was handed) are compared for equality.
(B) generated IO-heavy images at w in {8,16,32,64}: every (image, k, kind, engine) observation is judged by TLC
    (Trace_FJFaults).
(C) real interrupts: a SIGALRM-driven KeyboardInterrupt is delivered at seeded times into long-running periodic
    programs; the returned (ops, memory, last ops) must be a state of the specification's run: TLC steps one
    period, checks that the machine state recurs, and accepts ops = k through the period (Trace_FJPeriodic).
"""
from __future__ import annotations

import contextlib
import io
import json
import random
import shutil
import tempfile
from pathlib import Path
from typing import Dict, List, Tuple

from fjv import c01, engines, par, tlc
from fjv.core import Check, MachineryFailure
from fjv.engines import AW, bn, nb

KINDS = ["libio", "eofw", "foreign", "kbdint"]
ENGINES = ["featured", "fast", "fast-noring", "native-flat", "native-flat-ring", "native-paged", "native-paged-ring",
           "native-measured", "native-hybrid:3", "native-hybrid:2:ring"]


def make_faulty(in_bits, fault_at: int, kind: str):
    from flipjump.interpreter.io_devices.IODevice import IODevice
    from flipjump.utils.exceptions import IODeviceException, IOReadOnEOF

    class HarnessIOError(IODeviceException):
        pass

    class Faulty(IODevice):
        def __init__(self):
            self._in = list(in_bits)
            self.inpos = 0
            self.out: List[int] = []
            self.calls: List[list] = []
            self.mem = None
            self.raised = None

        def attach_memory(self, dm):
            self.mem = dm

        def _maybe_fail(self):
            if len(self.calls) + 1 == fault_at:
                self.calls.append(["x"])
                if kind == "libio":
                    self.raised = HarnessIOError("harness: device failure")
                elif kind == "eofw":
                    self.raised = IOReadOnEOF("harness: end-of-input exception raised by the device")
                elif kind == "foreign":
                    self.raised = ValueError("harness: foreign exception")
                else:
                    self.raised = KeyboardInterrupt()
                raise self.raised

        def read_bit(self):
            self._maybe_fail()
            if self.inpos >= len(self._in):
                self.calls.append(["eof"])
                raise IOReadOnEOF("harness input exhausted")
            b = self._in[self.inpos]
            self.inpos += 1
            self.calls.append(["r", b])
            return bool(b)

        def write_bit(self, bit):
            self._maybe_fail()
            self.calls.append(["w", 1 if bit else 0])
            self.out.append(1 if bit else 0)

        def get_output(self, *, allow_incomplete_output=False):  # noqa: ARG002
            return b""

    return Faulty()


def run_faulty(fjm_run, path, engine, in_bits, fault_at, kind, w, mem_addrs, ring_len) -> dict:
    from flipjump.utils.exceptions import FlipJumpRuntimeException

    dev = make_faulty(in_bits, fault_at, kind)
    knobs = engines.engine_knobs(engine)
    kwargs = {}
    if knobs.get("profile"):
        kwargs["profile"] = True
    if knobs.get("ring"):
        kwargs["last_ops_debugging_list_length"] = ring_len
    if knobs.get("flat_max_words"):
        kwargs["flat_max_words"] = knobs["flat_max_words"]
    stats = None
    outcome = None
    with engines._env(knobs.get("env")), engines._Alarm(5.0) as alarm:
        try:
            with contextlib.redirect_stdout(io.StringIO()):
                stats = fjm_run.run(path, io_device=dev, **kwargs)
        except BaseException as e:  # noqa: BLE001
            if e is dev.raised:
                outcome = "propagates-unchanged"
            elif isinstance(e, FlipJumpRuntimeException) and e.__cause__ is dev.raised and dev.raised is not None:
                outcome = "wrapped-runtime-error"
            else:
                outcome = f"other:{type(e).__name__}"
    obs = {"engine": engine, "hasops": stats is not None, "ops": 0, "hashist": False, "hist": [], "ringlen": ring_len}
    if alarm.fired:
        outcome = "budget"
    if stats is not None:
        cause = engines.CAUSE_NAMES.get(int(stats.termination_cause), str(stats.termination_cause))
        outcome = outcome or ("kbdint-termination" if cause == "kbdint" else "normal:" + cause)
        obs["ops"] = int(stats.op_counter)
        if stats.last_ops_addresses is not None and knobs.get("ring"):
            obs["hashist"] = True
            obs["hist"] = [nb(a, AW) for a in stats.last_ops_addresses]
    obs["outcome"] = outcome
    obs["calls"] = dev.calls
    obs["out"] = dev.out
    mem = []
    if dev.mem is not None:
        for a in mem_addrs:
            mem.append([nb(a, AW), nb(dev.mem.read_word(a), w // 8)])
    obs["mem"] = mem
    return obs


# ---------------------------------------------------------------------------------------------
def fam_cfg(nwords: int, alphabet, inputs, fault_ats) -> Tuple[str, Dict[str, str]]:
    in_tla = "{" + ", ".join("<<" + ",".join(map(str, i)) + ">>" for i in inputs) + "}"
    root = f"""---- MODULE MCfl ----
EXTENDS MC_FJFaults
L_def == <<[start |-> 0, len |-> 6, ndata |-> {nwords}]>>
In_def == {in_tla}
====
"""
    cfg = f"""SPECIFICATION FSpec
CONSTANTS
  Layout <- L_def
  Alphabet = {{{", ".join(map(str, alphabet))}}}
  Inputs <- In_def
  MaxOps = 16
  EmitOn = TRUE
  FaultAts = {{{", ".join(map(str, fault_ats))}}}
  Kinds = {{"libio", "eofw", "foreign", "kbdint"}}
INVARIANT StopConsistent
PROPERTY StopKeepsCounts
CONSTRAINT FEmit
CHECK_DEADLOCK FALSE
"""
    return cfg, {"MCfl": root}


def _replay_stop(args):
    idx, rec = args
    fjm_run = par.fjm_run()
    w = rec["w"]
    d = Path(tempfile.mkdtemp(prefix="fjv_c18_"))
    bad = []
    try:
        path = d / "p.fjm"
        engines.write_image(path, w, idx % 4, c01._segments_from_layout(rec))
        addrs = [bn(a) for a, _ in rec["mem"]]
        exp_mem = sorted([[a, v] for a, v in rec["mem"]])
        for en in ENGINES:
            obs = run_faulty(fjm_run, path, en, rec["inp"], rec["faultAt"], rec["kind"], w, addrs, 1000)
            diffs = []
            if obs["outcome"] != rec["outcome"]:
                diffs.append(("outcome", obs["outcome"], rec["outcome"]))
            if obs["calls"] != rec["calls"]:
                diffs.append(("calls", obs["calls"], rec["calls"]))
            if obs["out"] != rec["out"]:
                diffs.append(("out", obs["out"], rec["out"]))
            if obs["hasops"] and obs["ops"] != rec["ops"]:
                diffs.append(("ops", obs["ops"], rec["ops"]))
            if obs["hashist"] and obs["hist"] != rec["hist"]:
                diffs.append(("hist", obs["hist"], rec["hist"]))
            if sorted(obs["mem"]) != exp_mem:
                diffs.append(("mem", sorted(obs["mem"]), exp_mem))
            if diffs:
                bad.append({"engine": en, "kind": rec["kind"], "diffs": diffs, "spec": rec})
    finally:
        shutil.rmtree(d, ignore_errors=True)
    return bad


def gen_io_case(rng: random.Random, w: int) -> dict:
    case = c01.gen_case(rng, w)
    dw = 2 * w
    mask = (1 << w) - 1
    # make it IO heavy: many ops flip an output bit; op 1 (ip = 2w) covers the input bit
    for wa in list(case["data"]):
        if wa % 2 == 0 and wa < 16 and rng.random() < 0.5:
            case["data"][wa] = rng.choice([dw, dw + 1]) & mask
    case["inp"] = [rng.randrange(2) for _ in range(rng.choice([0, 1, 3, 8]))]
    return case


def _run_fault_case(args):
    idx, case, kinds = args
    fjm_run = par.fjm_run()
    w = case["w"]
    d = Path(tempfile.mkdtemp(prefix="fjv_c18g_"))
    recs = []
    try:
        path = d / "p.fjm"
        segs = c01.case_segments(case)
        try:
            engines.write_image(path, w, case["version"], segs)
        except Exception as e:  # noqa: BLE001
            return {"skipped": f"writer: {type(e).__name__}"}
        dev = engines.make_device(case["inp"])
        with contextlib.redirect_stdout(io.StringIO()):
            try:
                st = fjm_run.run(path, io_device=dev, breakpoint_handler=c01._Cut(60))
            except Exception as e:  # noqa: BLE001
                return {"skipped": f"prescreen: {type(e).__name__}"}
        if int(st.termination_cause) == 6:
            return {"skipped": "non-halting"}
        ncalls = len(dev.calls)
        if ncalls == 0:
            return {"skipped": "no-io"}
        addrs = c01.case_mem_addrs(case)
        base = {"w": w, "segs": [[nb(s, AW), nb(l, AW)] for s, l, _ in segs],
                "data": [[nb(s + i, AW), nb(v, w // 8)] for s, _, dd in segs for i, v in enumerate(dd) if v],
                "inp": case["inp"], "bound": 62}
        ks = sorted({1, ncalls, max(1, ncalls // 2), min(ncalls, 2), ncalls + 1})
        for k in ks:
            for kind in kinds:
                for en in ENGINES:
                    obs = run_faulty(fjm_run, path, en, case["inp"], k, kind, w, addrs, 70)
                    r = dict(base)
                    r.update(faultAt=k, kind=kind, obs={x: obs[x] for x in ("outcome", "calls", "hasops", "ops", "hashist", "hist", "ringlen", "out", "mem")},
                             engine=en, case=idx)
                    recs.append(r)
    finally:
        shutil.rmtree(d, ignore_errors=True)
    return {"recs": recs}


TRACE_CFG = """SPECIFICATION Spec
INVARIANT Consistent
CONSTRAINT Verdict
CHECK_DEADLOCK FALSE
"""


def validate(chk: Check, records: List[dict], name: str, batch: int = 300):
    scratch = Path(tempfile.mkdtemp(prefix="fjv_c18t_"))
    verdicts: Dict[int, dict] = {}
    try:
        jobs, offs = [], []
        for b0 in range(0, len(records), batch):
            part = [{k: r[k] for k in ("w", "segs", "data", "inp", "bound", "faultAt", "kind", "obs")} for r in records[b0:b0 + batch]]
            f = scratch / f"b{b0}.json"
            f.write_text(json.dumps(part))
            jobs.append(dict(module="Trace_FJFaults", cfg_text=TRACE_CFG, workers=1, env={"TRACE_FILE": str(f)}, timeout=3000))
            offs.append(b0)
        for b0, res in zip(offs, tlc.run_many(jobs, parallel=16)):
            chk.add_tlc(res, f"{name}@{b0}", records=min(batch, len(records) - b0))
            for v in res.emitted.get("V", []):
                verdicts[b0 + v["tid"] - 1] = v
    finally:
        shutil.rmtree(scratch, ignore_errors=True)
    chk.configs[:] = c01._squash(chk.configs, name)
    return verdicts


# ---- (C) real interrupts into periodic programs ----------------------------------------------------
def gen_periodic(rng: random.Random, w: int) -> dict:
    """a non-terminating program: a ring of ops that flip data bits, sometimes print, sometimes toggle another op's jump target"""
    dw = 2 * w
    lg2dw = dw.bit_length() - 1
    L = rng.randrange(3, 9)
    nd = 4
    first, nops = 2, 2 + L
    nwords = 2 * nops + nd
    words = [0] * nwords
    data_bit0 = 2 * nops * w

    def target(k):
        return (first + k % L) * dw

    words[0] = data_bit0 + rng.randrange(nd * w)
    words[1] = target(0)
    for k in range(L):
        r = rng.random()
        if r < 0.2:
            f = dw + rng.randrange(2)                              # an output op
        elif r < 0.3:
            o = first + rng.randrange(L)
            f = (2 * o + 1) * w + lg2dw                            # toggle the jump target of op o between neighbours
        else:
            f = data_bit0 + rng.randrange(nd * w)
        words[2 * (first + k)] = f
        words[2 * (first + k) + 1] = target(k + 1) if rng.random() < 0.85 else target(rng.randrange(L))
    return {"w": w, "words": words, "version": rng.randrange(4)}


def _run_periodic(args):
    idx, case, plan = args
    fjm_run = par.fjm_run()
    w, words = case["w"], case["words"]
    d = Path(tempfile.mkdtemp(prefix="fjv_c18p_"))
    recs = []
    try:
        path = d / "p.fjm"
        segs = [(0, len(words), words)]
        try:
            engines.write_image(path, w, case["version"], segs)
        except Exception as e:  # noqa: BLE001
            return {"skipped": f"writer: {type(e).__name__}"}
        with contextlib.redirect_stdout(io.StringIO()):
            try:
                st = fjm_run.run(path, io_device=engines.make_device([]), breakpoint_handler=c01._Cut(400))
            except Exception as e:  # noqa: BLE001
                return {"skipped": f"prescreen: {type(e).__name__}"}
        if int(st.termination_cause) != 6:
            return {"skipped": "halts"}
        addrs = list(range(len(words)))
        base = {"w": w, "segs": [[nb(0, AW), nb(len(words), AW)]], "data": [[nb(i, AW), nb(v, w // 8)] for i, v in enumerate(words) if v],
                "maxsteps": 260}
        for en, budget, ring in plan:
            obs = engines.run_engine(fjm_run, path, en, [], w=w, mem_addrs=addrs, budget_s=budget, ring_len=ring)
            r = dict(base)
            hist = obs.get("hist")
            has = hist is not None and bool(engines.engine_knobs(en).get("ring"))
            r.update(ring=ring, engine=en, case=idx, budget=budget, raw={k: obs.get(k) for k in ("cause", "exc", "budget_fired", "memread_exc")},
                     obs={"ops": obs["ops"], "mem": obs["mem"], "hashist": has, "hist": hist if has else [],
                          "nout": len(obs["out"]), "tail": list(obs["out"][-16:])})
            recs.append(r)
    finally:
        shutil.rmtree(d, ignore_errors=True)
    return {"recs": recs}


PERIODIC_CFG = "SPECIFICATION Spec\nCONSTRAINT Verdict\nCHECK_DEADLOCK FALSE\n"


def validate_periodic(chk: Check, records: List[dict], name: str, batch: int = 40):
    scratch = Path(tempfile.mkdtemp(prefix="fjv_c18q_"))
    verdicts: Dict[int, dict] = {}
    try:
        jobs, offs = [], []
        for b0 in range(0, len(records), batch):
            part = [{k: r[k] for k in ("w", "segs", "data", "maxsteps", "ring", "obs")} for r in records[b0:b0 + batch]]
            f = scratch / f"b{b0}.json"
            f.write_text(json.dumps(part))
            jobs.append(dict(module="Trace_FJPeriodic", cfg_text=PERIODIC_CFG, workers=1, env={"TRACE_FILE": str(f)}, timeout=3000))
            offs.append(b0)
        for b0, res in zip(offs, tlc.run_many(jobs, parallel=16)):
            chk.add_tlc(res, f"{name}@{b0}", records=min(batch, len(records) - b0))
            for v in res.emitted.get("V", []):
                verdicts[b0 + v["tid"] - 1] = v
    finally:
        shutil.rmtree(scratch, ignore_errors=True)
    chk.configs[:] = c01._squash(chk.configs, name)
    return verdicts


def part_c(chk: Check, so: str, rng: random.Random, quick: bool):
    ncases = 24 if quick else 200
    cases = [gen_periodic(rng, [16, 32, 64, 8][i % 4]) for i in range(ncases)]
    jobs = []
    for i, c in enumerate(cases):
        plan = []
        for en in ENGINES:
            for _ in range(1 if quick else 3):
                plan.append((en, rng.choice([0.03, 0.05, 0.08, 0.13]) + rng.random() * 0.01, rng.choice([1, 2, 7, 70])))
        jobs.append((i, c, plan))
    outs = par.pmap(_run_periodic, jobs, so_path=so, procs=8, chunksize=1)
    records, skipped = [], {}
    for o in outs:
        if "skipped" in o:
            skipped[o["skipped"]] = skipped.get(o["skipped"], 0) + 1
        else:
            records += o["recs"]
    # an interrupt that arrives outside the run loop (while the file is loaded, after the loop) is not an interrupt of the run
    judged = []
    for r in records:
        if r["raw"]["cause"] != "kbdint" or not r["raw"]["budget_fired"] or r["obs"]["ops"] < 0 or r["obs"]["ops"] >= 1 << 31:
            skipped["not-interrupted-in-the-loop:" + str(r["raw"]["cause"])] = skipped.get("not-interrupted-in-the-loop:" + str(r["raw"]["cause"]), 0) + 1
            continue
        judged.append(r)
    verdicts = validate_periodic(chk, judged, "Trace_FJPeriodic")
    classes: Dict[str, int] = {}
    for i, rec in enumerate(judged):
        v = verdicts.get(i)
        if v is None:
            raise MachineryFailure(f"no periodic verdict for record {i}")
        fam = "native" if rec["engine"].startswith("native") else rec["engine"].split("-")[0]
        classes[f"{fam}:{v['class']}"] = classes.get(f"{fam}:{v['class']}", 0) + 1
        if v["class"] in ("consistent", "no-period"):
            continue
        if v["class"] == "mid-op":
            key = {"engine_family": fam, "kind": "async-interrupt", "class": "mid-op"}
        else:
            key = key_of(rec["engine"], "kbdint", v["fail"], rec["obs"]["hist"])
        chk.violation(key, f"engine {rec['engine']} (w={rec['w']}) interrupted by a signal after {rec['obs']['ops']} reported ops: {v['class']}, "
                           f"components not those of the state after that many ops: {v['fail']}; spec says {v['spec']}", {"record": rec, "verdict": v})
    chk.traces += len(judged)
    chk.extra["C_programs"] = ncases
    chk.extra["C_skipped"] = skipped
    chk.extra["C_records_judged"] = len(judged)
    chk.extra["C_classes"] = classes
    if judged:
        chk.sample({"kind": "real interrupt", "engine": judged[0]["engine"], "w": judged[0]["w"], "reported_ops": judged[0]["obs"]["ops"], "verdict": verdicts[0]})
    # self-test of the binding: one more op than reported / a flipped memory bit must not be "consistent"
    good = [r for i, r in enumerate(judged) if verdicts[i]["class"] == "consistent"][:8]
    mut = []
    for k, r in enumerate(good):
        m = json.loads(json.dumps(r))
        if k % 2 == 0:
            m["obs"]["ops"] += 1
        else:
            m["obs"]["mem"][-1][1][0] ^= 0x10
        mut.append(m)
    if mut:
        mv = validate_periodic(chk, mut, "Trace_FJPeriodic[self-test]")
        acc = [i for i in range(len(mut)) if mv.get(i, {"class": "x"})["class"] == "consistent"]
        chk.extra["C_selftest_rejected"] = len(mut) - len(acc)
        if len(acc) > len(mut) // 2:        # +1 op may coincide with an op that changes nothing observable; a flipped data bit may not
            raise MachineryFailure("binding self-test: corrupted interrupt observations were accepted")


def key_of(engine: str, kind: str, clauses, hist=None) -> dict:
    k = {"engine_family": "native" if engine.startswith("native") else engine.split("-")[0], "kind": kind,
         "clauses": ",".join(sorted(clauses))}
    if "hist" in clauses:
        k["hist"] = "empty" if hist == [] else "wrong"      # how the last-ops list differs (KF-2 is the EMPTY list only)
    return k


def run(chk: Check, replay=None):
    quick = chk.tier == "quick"
    rng = random.Random(chk.seed + 18)
    so = str(engines.build_native())
    chk.assumptions += [
        "device failures are injected by a harness IODevice raising at its k-th call; interrupts raised by the device are KeyboardInterrupt",
        "when an exception propagates, run() returns no statistics: op count and last-ops list are then not observable and not judged",
    ]
    # (A) exhaustive at w=8
    alpha = [16, 17, 28, 32, 0, 24, 13, 29] if quick else [16, 17, 28, 32, 0, 24, 13, 29, 20, 12]
    cfg, extra = fam_cfg(4, alpha, [[], [1], [0, 1]], [1, 2, 3] if quick else [1, 2, 3, 4])
    res = tlc.run_tlc("MCfl", cfg, workers=8, extra_modules=extra, heap="8g", timeout=3600)
    stops = res.emitted.get("F", [])
    chk.add_tlc(res, "MC_FJFaults", exhaustive=True, stops=len(stops))
    if not stops:
        raise MachineryFailure("no stops emitted")
    items = stops if not quick or len(stops) <= 5000 else rng.sample(stops, 5000)
    bad_lists = par.pmap(_replay_stop, list(enumerate(items)), so_path=so, procs=16, chunksize=16)
    chk.traces += len(items) * len(ENGINES)
    chk.extra["A_stops_emitted"] = len(stops)
    chk.extra["A_stops_replayed"] = len(items)
    chk.sample({"kind": "spec->code stop", "stop": items[0]})
    for bl in bad_lists:
        for b in bl:
            chk.violation(key_of(b["engine"], b["kind"], [x[0] for x in b["diffs"]], next((x[1] for x in b["diffs"] if x[0] == "hist"), None)),
                          f"engine {b['engine']}, device raising {b['kind']}: differs from the specification in {[x[0] for x in b['diffs']]}", b)
    # (B) generated, judged by TLC
    ncases = 60 if quick else 1200
    cases = [gen_io_case(rng, [8, 16, 32, 64][i % 4]) for i in range(ncases)]
    outs = par.pmap(_run_fault_case, [(i, c, KINDS) for i, c in enumerate(cases)], so_path=so, procs=16, chunksize=2)
    records, skipped = [], {}
    for o in outs:
        if "skipped" in o:
            skipped[o["skipped"]] = skipped.get(o["skipped"], 0) + 1
        else:
            records += o["recs"]
    chk.extra["B_cases"] = ncases
    chk.extra["B_skipped"] = skipped
    chk.extra["B_records"] = len(records)
    verdicts = validate(chk, records, "Trace_FJFaults[generated]")
    chk.traces += len(records)
    for i, rec in enumerate(records):
        v = verdicts.get(i)
        if v is None:
            raise MachineryFailure(f"no verdict for record {i}")
        if v["fail"]:
            key = key_of(rec["engine"], rec["kind"], v["fail"], rec["obs"]["hist"])
            if rec["w"] == 64 and v["spec"].get("topop"):
                key = {"engine_family": key["engine_family"], "w": 64, "input_class": "w64-op-on-last-word-of-address-space"}
            chk.violation(key,
                          f"engine {rec['engine']} (w={rec['w']}), device raising {rec['kind']} at call {rec['faultAt']}: rejected by Trace_FJFaults, clauses {v['fail']}; spec says {v['spec']}",
                          {"record": rec, "verdict": v})
    # (C) real interrupts
    part_c(chk, so, rng, quick)
    # self-test
    good = [r for i, r in enumerate(records) if not verdicts[i]["fail"]][:20]
    mut = []
    for k, r in enumerate(good):
        m = json.loads(json.dumps(r))
        if k % 3 == 0:
            m["obs"]["outcome"] = "normal:looping" if m["obs"]["outcome"] != "normal:looping" else "normal:eof"
        elif k % 3 == 1:
            m["obs"]["calls"] = m["obs"]["calls"] + [["w", 1]]
        else:
            m["obs"]["out"] = m["obs"]["out"] + [0]
        mut.append(m)
    if mut:
        mv = validate(chk, mut, "Trace_FJFaults[self-test]")
        acc = [i for i in range(len(mut)) if not mv.get(i, {"fail": ["x"]})["fail"]]
        chk.extra["selftest_rejected"] = len(mut) - len(acc)
        if acc:
            raise MachineryFailure("binding self-test: corrupted fault observations were accepted")
