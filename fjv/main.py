import importlib
import sys

from fjv.core import main_wrapper


def main() -> int:
    if len(sys.argv) < 2:
        print("usage: check <Cxx> [--tier quick|thorough]")
        return 2
    pid = sys.argv[1].upper()
    mod = importlib.import_module(f"fjv.{pid.lower()}")
    return main_wrapper(pid, mod.run)


if __name__ == "__main__":
    sys.exit(main())
