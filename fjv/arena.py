"""
The arena: device-driven model-based testing of assembled standard-library macros (DESIGN.md 1.5).

One program holds a block per macro instance.  It prints a marker byte and then executes `dispatch: ;blk_0`, whose
jump word the harness device overwrites.  On every marker byte the device (the environment)
  1. snapshots, through the DeviceMemory hook, every declared variable, the carry bits and the library's hidden cells,
  2. writes the next step's operand values into the variables,
  3. patches `dispatch` to the next block;
branching macros end in targets that print their own marker byte.  So one assembly serves arbitrary run-time
sequences of macro applications with arbitrary operand values at native-engine speed.
"""
from __future__ import annotations

import contextlib
import io
import re
import signal
import tempfile
from pathlib import Path
from typing import Dict, List, Optional, Sequence, Tuple

from fjv import engines

MARK_RET = 1
MARK_BR0 = 0x10


class Block:
    """one macro instance in the arena"""

    def __init__(self, key: str, fj: str, v: Sequence[str], n: int = 0, m: int = 0, sh: int = 0, c: int = 0,
                 branches: Sequence[str] = (), name: str = "", B: int = 0, js: Optional[dict] = None):
        self.key, self.fj, self.v, self.n, self.m, self.sh, self.c = key, fj, list(v), n, m, sh, c
        self.B = B          # digit base of the macro's namespace (0: the arena's)
        self.js = dict(js or {})   # fields of the step record that differ from / add to the text's parameters
        self.branches = list(branches)
        self.name = name or key

    def render(self, idx: int) -> str:
        labels = {b: f"br_{idx}_{b}" for b in self.branches}
        text = self.fj.format(n=self.n, m=self.m, sh=self.sh, c=self.c, **{f"v{i}": x for i, x in enumerate(self.v)}, **labels)
        out = [f"blk_{idx}:", f"  {text}", "  ;again"]
        for j, b in enumerate(self.branches):
            out += [f"br_{idx}_{b}:", f"  hex.set brvar, {j + 1}", "  ;again"]
        return "\n".join(out)

    def step_json(self) -> dict:
        from fjv.c02 import jint
        d = {"k": self.key, "n": self.n, "m": self.m, "sh": self.sh, "c": jint(self.c), "v": self.v}
        for k, v in self.js.items():
            d[k] = jint(v) if k == "c" else v
        return d


class StopRun(Exception):
    pass


class Arena:
    def __init__(self, fjm_run, w: int, kind: str, variables: Sequence[str], ndigits: int, blocks: Sequence[Block],
                 extra_decl: str = "", init: str = "stl.startup_and_init_all", engine: str = "native-flat"):
        self.fjm_run, self.w, self.kind, self.vars, self.nd, self.blocks = fjm_run, w, kind, list(variables), ndigits, list(blocks)
        self.extra_decl, self.init, self.engine = extra_decl, init, engine
        self.extra_names: List[str] = []      # labels of extra declarations (not hidden library state)
        self.var_kind: Dict[str, str] = {}    # variable -> "hex" / "bit" (default: the arena's kind)
        self.var_nd: Dict[str, int] = {}      # variable -> number of digits (default: ndigits)
        # kinds: "hex" (4 data bits per op), "bit" (1), "byte" (8: a buffer of cells), "flipbyte" (the low 8 bits of
        # the FLIP word of every op: a second view of a buffer)
        self.var_at: Dict[str, str] = {}      # variable -> label it lives at (not declared by the arena: library cells, views)
        self.var_ptr: Dict[str, str] = {}     # pointer variable -> label of the buffer it points into (value = cell index)
        self.no_restore: Tuple[str, ...] = ()  # label prefixes of library state that is carried over, not restored
        self.rest_check = None                # optional callable(dev) -> bool: library invariant at every marker
        self.dir = Path(tempfile.mkdtemp(prefix="fjv_arena_"))
        self.labels: Dict[str, int] = {}
        self.asm_seconds = 0.0

    # ---- building -----------------------------------------------------------------------------
    def source(self) -> str:
        vec = "hex.vec" if self.kind == "hex" else "bit.vec"
        # the marker: set a flag cell, then output ONE bit.  The device looks at the flag on every output bit, so the
        # macros under test may print anything (their bits arrive with the flag clear).
        lines = [self.init, "again:", "  hex.set mflag, 1", "  stl.output_bit 0", "dispatch:", "  ;blk_0"]
        for i, b in enumerate(self.blocks):
            lines.append(b.render(i))
        for v in self.vars:
            if v in self.var_at:
                continue
            vk = self.var_kind.get(v, self.kind)
            lines.append(f"{v}: {'bit.vec' if vk == 'bit' else 'hex.vec'} {self.var_nd.get(v, self.nd)}")
        lines += ["mflag: hex.hex", "brvar: hex.hex"]
        lines.append(self.extra_decl)
        return "\n".join(lines) + "\n"

    def assemble(self) -> None:
        import time
        import flipjump
        from flipjump.utils.functions import load_debugging_labels

        src = self.dir / "arena.fj"
        src.write_text(self.source())
        t0 = time.time()
        with contextlib.redirect_stdout(io.StringIO()):
            flipjump.assemble([src], self.dir / "arena.fjm", memory_width=self.w, debugging_file_path=self.dir / "arena.fjd",
                              print_time=False, warning_as_errors=False)
        self.asm_seconds = time.time() - t0
        self.labels = load_debugging_labels(self.dir / "arena.fjd")
        glob = {k: v for k, v in self.labels.items() if "---" not in k and ":" not in k}
        mine = set(self.vars) | set(self.var_at.values()) | {"again", "dispatch", "mflag", "brvar"} | set(self.extra_names) | {k for k in glob if k.startswith(("blk_", "br_"))}
        self.hidden_labels = sorted((v, k) for k, v in glob.items() if k not in mine and k != "stl.IO" and not k.startswith("_")
                                    and not k.startswith(self.no_restore))
        self.flip_views = {self.var_at.get(v, v) for v in self.vars if self.var_kind.get(v) == "flipbyte"}

    def close(self) -> None:
        import shutil
        shutil.rmtree(self.dir, ignore_errors=True)

    # ---- running ------------------------------------------------------------------------------
    def run(self, behaviours: List[List[dict]], budget_s: float = 30.0) -> List[Optional[List[dict]]]:
        """each behaviour: list of steps {"block": idx, "set": {var: int}}.  returns per behaviour the list of
        observations (one per step: vals, addc, subc, br, hidden_ok) or None if the run broke down inside it."""
        from flipjump.interpreter.io_devices.IODevice import IODevice
        from flipjump.utils.exceptions import IODeviceException

        class Stop(IODeviceException):
            pass

        w = self.w
        lw = w.bit_length() - 1
        sh = w.bit_length()                      # data bits sit at bit #w of the jump word
        dig_bits = 4 if self.kind == "hex" else 1
        dig_mask = (1 << dig_bits) - 1
        arena = self
        lab = self.labels
        results: List[Optional[List[dict]]] = [None] * len(behaviours)

        def op_word(addr_bits: int) -> int:
            return addr_bits >> lw

        class Dev(IODevice):
            def __init__(self):
                self.mem = None
                self.byte = 0
                self.nbits = 0
                self.bi = 0            # behaviour index
                self.si = -1           # step index within the behaviour (-1: before the first step)
                self.rest = None       # hidden words at rest
                self.cur: List[dict] = []
                self.nbytes = 0
                self.inbits: List[int] = []
                self.inpos = 0
                self.inused = 0
                self.outbits: List[int] = []

            def attach_memory(self, dm):
                self.mem = dm

            def read_bit(self):
                # the current step's input bits, then zeros for ever (a real end of input would end the whole run)
                self.inused += 1
                if self.inpos < len(self.inbits):
                    b = self.inbits[self.inpos]
                    self.inpos += 1
                    return bool(b)
                return False

            def get_output(self, *, allow_incomplete_output=False):  # noqa: ARG002
                return b""

            # -- memory helpers
            def geom(self, name: str):
                k = arena.var_kind.get(name, arena.kind)
                db = {"hex": 4, "bit": 1, "byte": 8, "flipbyte": 8}[k]
                return db, (1 << db) - 1, arena.var_nd.get(name, arena.nd)

            def base(self, name: str) -> int:
                return op_word(lab[arena.var_at.get(name, name)])

            def get_raw(self, name: str) -> int:
                base = self.base(name)
                db, dm, nd = self.geom(name)
                v = 0
                if arena.var_kind.get(name) == "flipbyte":
                    for i in range(nd):
                        v |= (self.mem.read_word(base + 2 * i) & dm) << (db * i)
                    return v
                for i in range(nd):
                    v |= ((self.mem.read_word(base + 2 * i + 1) >> sh) & dm) << (db * i)
                return v

            def get_var(self, name: str) -> int:
                raw = self.get_raw(name)
                region = arena.var_ptr.get(name)
                if region is None:
                    return raw
                # a pointer: its value is the (signed) index of the cell of `region` it points to
                delta = (raw - lab[region]) % (1 << w)
                if delta % (2 * w):
                    return (1 << 300) + raw            # not cell-aligned: equal to no expected value
                idx = delta // (2 * w)
                ncell = (1 << w) // (2 * w)
                return idx - ncell if idx >= ncell // 2 else idx

            def clean_var(self, name: str) -> bool:
                """at rest a variable op is exactly  0 ; value << #w  (hex) / value * dw (bit)"""
                if arena.var_kind.get(name) == "flipbyte":
                    return True
                base = self.base(name)
                db, dm, nd = self.geom(name)
                fmask = 0xFF if arena.var_at.get(name, name) in arena.flip_views else 0
                for i in range(nd):
                    if self.mem.read_word(base + 2 * i) & ~fmask:
                        return False
                    if self.mem.read_word(base + 2 * i + 1) & ~(dm << sh):
                        return False
                return True

            def set_var(self, name: str, value: int):
                base = self.base(name)
                db, dm, nd = self.geom(name)
                region = arena.var_ptr.get(name)
                if region is not None:
                    value = (lab[region] + value * 2 * w) % (1 << w)
                if arena.var_kind.get(name) == "flipbyte":
                    for i in range(nd):
                        a = base + 2 * i
                        self.mem.write_word(a, (self.mem.read_word(a) & ~dm) | ((value >> (db * i)) & dm))
                    return
                for i in range(nd):
                    self.mem.write_word(base + 2 * i + 1, ((value >> (db * i)) & dm) << sh)

            def hidden(self) -> List[int]:
                out = []
                for addr, _name in arena.hidden_labels:
                    b = op_word(addr)
                    out.append(self.mem.read_word(b))
                    out.append(self.mem.read_word(b + 1))
                return out

            def carry(self, label: str) -> int:
                if label not in lab:
                    return 0
                return (self.mem.read_word(op_word(lab[label]) + 1) >> (sh + 8)) & 1

            def write_bit(self, bit):
                fw = op_word(lab["mflag"]) + 1
                if not (self.mem.read_word(fw) >> sh) & 0xF:
                    self.outbits.append(1 if bit else 0)      # output of the macro under test
                    return
                self.mem.write_word(fw, 0)
                bw = op_word(lab["brvar"]) + 1
                br = (self.mem.read_word(bw) >> sh) & 0xF
                self.mem.write_word(bw, 0)
                self.on_marker(MARK_RET if br == 0 else MARK_BR0 + br - 1)

            def on_marker(self, marker: int):
                self.nbytes += 1
                if self.rest is None:
                    self.rest = self.hidden()          # right after the init macros, before any macro under test
                if self.si >= 0:
                    beh = behaviours[self.bi]
                    blk = arena.blocks[beh[self.si]["block"]]
                    if marker == MARK_RET:
                        br = "ret"
                    elif MARK_BR0 <= marker < MARK_BR0 + len(blk.branches):
                        br = blk.branches[marker - MARK_BR0]
                    else:
                        br = f"marker:{marker}"
                    hid = self.hidden()
                    mask_ix = [2 * k + 1 for k, (_a, n) in enumerate(arena.hidden_labels) if n in ("hex.add.dst", "hex.sub.dst")]
                    hid_ok = all(h == r or (i in mask_ix and (h ^ r) == (1 << (sh + 8))) for i, (h, r) in enumerate(zip(hid, self.rest)))
                    if arena.rest_check is not None and not arena.rest_check(self):
                        hid_ok = False
                    self.cur.append({"vals": {v: self.get_var(v) for v in arena.vars},
                                     "clean": all(self.clean_var(v) for v in arena.vars),
                                     "addc": self.carry("hex.add.dst"), "subc": self.carry("hex.sub.dst"),
                                     "br": br, "hidden_ok": hid_ok, "out": self.outbits, "inused": self.inused})
                    if self.si + 1 >= len(beh):
                        results[self.bi] = self.cur
                        self.cur = []
                        self.bi += 1
                        self.si = -1
                # next step
                if self.bi >= len(behaviours):
                    raise Stop("done")
                beh = behaviours[self.bi]
                if self.si == -1:
                    # a behaviour starts from the library's rest state: restore the hidden cells
                    for k, (addr, _n) in enumerate(arena.hidden_labels):
                        b0 = op_word(addr)
                        self.mem.write_word(b0, self.rest[2 * k])
                        self.mem.write_word(b0 + 1, self.rest[2 * k + 1])
                self.si += 1
                step = beh[self.si]
                self.inbits, self.inpos, self.inused, self.outbits = list(step.get("inp", [])), 0, 0, []
                for name, value in step["set"].items():
                    self.set_var(name, value)
                self.mem.write_word(op_word(lab["dispatch"]) + 1, lab[f"blk_{step['block']}"])

        dev = Dev()
        knobs = engines.engine_knobs(self.engine)
        kwargs = {}
        if knobs.get("profile"):
            kwargs["profile"] = True
        with engines._env(knobs.get("env")), engines._Alarm(budget_s) as alarm:
            try:
                with contextlib.redirect_stdout(io.StringIO()):
                    self.fjm_run.run(self.dir / "arena.fjm", io_device=dev, **kwargs)
                self.last_end = "run returned"
            except Stop:
                self.last_end = "done"
            except BaseException as e:  # noqa: BLE001
                self.last_end = f"{type(e).__name__}: {e}"
        if alarm.fired:
            self.last_end = "budget"
        self.broke_at = (dev.bi, dev.si)
        return results
