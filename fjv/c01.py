"""
C01 - every engine executes the FlipJump machine semantics exactly.

(A) spec -> code: TLC explores MC_FJMachine exhaustively (every image over a word alphabet x inputs,
    w = 8) and emits the terminal state of every run; each is written with the real Writer and run on
    every engine configuration; the engine's observation must EQUAL what TLC printed.
(B) code -> spec: a seeded generator builds images at w in {8,16,32,64} that TLC cannot enumerate;
    each is run on every engine and TLC (Trace_FJMachine) judges every observation.
(C) binding self-test: corrupted observations must be rejected by TLC.
"""
from __future__ import annotations

import json
import os
import random
import shutil
import tempfile
from pathlib import Path
from typing import Dict, List, Sequence, Tuple

from fjv import engines, par, tlc
from fjv.core import Check, MachineryFailure
from fjv.engines import AW, bn, nb

# ---------------------------------------------------------------------------------------------
# (A) exhaustive families at w = 8.  word 3 bit 4 (=28) is the input bit, 16/17 the output bits.

FAMILIES = {
    # name: (layout [(start,len,ndata)...], alphabet, inputs).  ops sit at 0, 16, 32 (words 0..5).
    # every alphabet carries the off-by-one neighbours of the comparisons in the semantics:
    #   f in {2w, 2w+1} -> 15..18;  input cover ip in (12, 28] -> 12, 13, 28, 29;  j < 2w -> 15, 16;
    #   self-loop window ip <= f < ip+2w -> ip-1, ip, ip+15, ip+16;  segment ends -> last bit / first bit outside
    "control":   ([(0, 6, 0)], [0, 15, 16, 17, 18, 32, 31, 33, 48, 47, 255, 8], [[]]),
    "io":        ([(0, 6, 0)], [16, 17, 12, 13, 28, 29, 32, 0, 24, 18, 15, 20], [[], [1], [0, 1]]),
    "selfmod":   ([(0, 6, 0)], [8, 12, 15, 16, 31, 32, 35, 3, 40, 24, 47, 19], [[]]),
    "unaligned": ([(0, 6, 0)], [16, 20, 9, 28, 33, 4, 36, 47, 1, 8, 24, 40], [[], [1]]),
    "edges":     ([(0, 4, 0), (8, 2, 0)], [16, 24, 64, 72, 32, 63, 80, 65, 0, 31, 79, 56], [[]]),
    "zerotail":  ([(0, 8, 0)], [16, 32, 48, 52, 17, 28, 60, 64, 63, 47, 12, 56], [[], [1]]),
}


def family_cfg(name: str, nwords: int, nvalues: int, max_ops: int) -> Tuple[str, Dict[str, str]]:
    layout, alphabet, inputs = FAMILIES[name]
    alphabet = alphabet[:nvalues]
    # distribute the data words over the segments in order
    left = nwords
    lay = []
    for (start, length, _nd) in layout:
        nd = min(left, length)
        nd -= nd % 2 if False else 0
        lay.append((start, length, nd))
        left -= nd
    lay_tla = "<<" + ", ".join(f"[start |-> {s}, len |-> {l}, ndata |-> {d}]" for s, l, d in lay) + ">>"
    in_tla = "{" + ", ".join("<<" + ",".join(map(str, i)) + ">>" for i in inputs) + "}"
    root = f"""---- MODULE MCrun ----
EXTENDS MC_FJMachine
L_def == {lay_tla}
In_def == {in_tla}
====
"""
    cfg = f"""SPECIFICATION Spec
CONSTANTS
  Layout <- L_def
  Alphabet = {{{", ".join(map(str, alphabet))}}}
  Inputs <- In_def
  MaxOps = {max_ops}
  EmitOn = TRUE
INVARIANT TypeInv
INVARIANT FaultIsOutside
INVARIANT HistLen
PROPERTY OutputOnlyOnIOFlip
PROPERTY InputOnlyWhenCovered
PROPERTY MemChangesOnlyInFlipOrInput
PROPERTY JumpWordReadAfterFlip
PROPERTY OpsCountsRetiredOps
PROPERTY AbortsDoNotCount
CONSTRAINT Emit
CHECK_DEADLOCK FALSE
"""
    return cfg, {"MCrun": root}


REPLAY_ENGINES = ["featured", "fast", "native-flat", "native-flat-ring", "native-paged", "native-paged-ring",
                  "native-measured", "native-hybrid:3", "native-hybrid:2:ring"]


def _segments_from_layout(rec) -> List[Tuple[int, int, List[int]]]:
    segs = []
    pos = 0
    for lay in rec["layout"]:
        nd = lay["ndata"]
        data = list(rec["img"][pos:pos + nd])
        if nd % 2 and nd < lay["len"]:
            data.append(0)          # the file format stores whole ops: an explicit zero word equals the zero tail it replaces
        segs.append((lay["start"], lay["len"], data))
        pos += nd
    return segs


def _replay_one(args):
    """worker: run one TLC-emitted behaviour on every engine; return list of mismatches."""
    idx, rec, engine_names = args
    fjm_run = par.fjm_run()
    w = rec["w"]
    d = Path(tempfile.mkdtemp(prefix="fjv_c01_"))
    bad = []
    try:
        path = d / "p.fjm"
        segs = _segments_from_layout(rec)
        engines.write_image(path, w, idx % 4, segs)
        addrs = [bn(a) for a, _ in rec["mem"]]
        exp_mem = sorted([[a, v] for a, v in rec["mem"]])
        for en in engine_names:
            obs = engines.run_engine(fjm_run, path, en, rec["inp"], w=w, mem_addrs=addrs, budget_s=5.0)
            diffs = []
            if obs["exc"]:
                diffs.append(("exception", obs["exc"]))
            if obs["cause"] != rec["status"]:
                diffs.append(("cause", obs["cause"], rec["status"]))
            if obs["ops"] != rec["ops"]:
                diffs.append(("ops", obs["ops"], rec["ops"]))
            if obs["fault"] != rec["fault"]:
                diffs.append(("fault", obs["fault"], rec["fault"]))
            if obs["out"] != rec["out"]:
                diffs.append(("out", obs["out"], rec["out"]))
            if obs["inused"] != rec["inused"]:
                diffs.append(("inused", obs["inused"], rec["inused"]))
            if obs["hist"] is not None and obs["hist"] != rec["hist"]:
                diffs.append(("hist", obs["hist"], rec["hist"]))
            if sorted(obs["mem"]) != exp_mem:
                diffs.append(("mem", sorted(obs["mem"]), exp_mem))
            if obs.get("flips") is not None and (obs["flips"], obs["jumps"]) != (rec["flips"], rec["jumps"]):
                diffs.append(("stats", [obs["flips"], obs["jumps"]], [rec["flips"], rec["jumps"]]))
            if diffs:
                bad.append({"engine": en, "version": idx % 4, "diffs": diffs, "spec": rec})
    finally:
        shutil.rmtree(d, ignore_errors=True)
    return bad


# ---------------------------------------------------------------------------------------------
# (B) generator of images at every width

def gen_case(rng: random.Random, w: int) -> dict:
    """a random small program with the features the property names."""
    dw = 2 * w
    lw = w.bit_length() - 1
    in_addr = 3 * w + w.bit_length()
    nops = rng.randint(3, 8 if w > 8 else 6)
    seg0_len = 2 * nops + rng.choice([2, 2, 4, 6])
    segs = [[0, seg0_len]]
    # a second, far segment (its ops are reachable by jumps)
    far_start = None
    if rng.random() < 0.5:
        cands = {8: [20, 28, 30], 16: [64, 2046, 4090, 4094], 32: [1 << 14, (1 << 14) - 2, (1 << 20), (1 << 26) - 2, (1 << 27) - 2],
                 64: [1 << 14, (3 << 14) - 2, 1 << 23, (1 << 23) - 2, 1 << 40, (1 << 57), (1 << 58) - 2, (1 << 58) - 4]}[w]
        far_start = rng.choice(cands)
        if far_start >= seg0_len:
            segs.append([far_start, rng.choice([2, 4, 6])])
        else:
            far_start = None
    if rng.random() < 0.2:  # a long zero tail (dense / lazy threshold of the reader)
        segs[0][1] = seg0_len + rng.choice([998, 1000, 1002])
        if len(segs) > 1 and segs[1][0] < segs[0][1]:
            segs.pop()
            far_start = None
    op_addrs = [i * dw for i in range(nops)]
    far_ops = []
    if len(segs) > 1:
        far_ops = [segs[1][0] * w + i * dw for i in range(segs[1][1] // 2)]
    all_ops = op_addrs + far_ops
    word_mask = (1 << w) - 1

    def seg_bits():
        s = rng.choice(segs)
        wa = s[0] + rng.randrange(min(s[1], 2 * nops + 4))
        return wa * w + rng.randrange(w)

    wild = rng.choice([0.08, 0.2, 0.4, 1.0])
    data_words = [wa for wa in range(2 * nops, seg0_len)] or [1]

    def pick_flip(ip):
        if rng.random() > wild:
            # harmless: a bit of a data word after the ops, or the high bits of some op's flip word (re-aims a later flip)
            return (rng.choice(data_words) * w + rng.randrange(w)) & word_mask
        r = rng.random()
        if r < 0.18:
            return rng.choice([dw, dw + 1])                      # output bits
        if r < 0.30:
            return ip + rng.randrange(dw)                         # flips its own op (flip or jump word)
        if r < 0.40:
            nxt = rng.choice(all_ops)
            return nxt + rng.randrange(dw)                        # flips another op
        if r < 0.46:
            s = rng.choice(segs)                                  # first / last word of a segment, one outside
            return rng.choice([s[0] * w, (s[0] + s[1] - 1) * w + w - 1, (s[0] + s[1]) * w, max(0, s[0] * w - 1)]) & word_mask
        if r < 0.50:
            return rng.randrange(1 << w)                          # anywhere (mostly a fault)
        if r < 0.55:
            return in_addr
        return seg_bits() & word_mask

    def pick_jump(ip, last):
        if last:
            return ip
        if rng.random() > wild:
            return all_ops[all_ops.index(ip) + 1] & word_mask
        r = rng.random()
        if r < 0.12:
            return ip                                             # halt (unless it flips itself)
        if r < 0.55:
            return (ip + dw) & word_mask                          # next op
        if r < 0.70:
            return rng.choice(all_ops) & word_mask
        if r < 0.82:
            t = rng.choice(all_ops) + rng.choice([1, lw + 1, w - 1, w, w + 1, rng.randrange(dw)])
            return t & word_mask                                  # unaligned / jump-word-aligned
        if r < 0.86:
            return rng.randrange(dw)                              # null ip
        if r < 0.92:
            # ops straddling the input cell
            return rng.randrange(in_addr - dw - 1, in_addr + 3)
        if r < 0.96:
            s = rng.choice(segs)
            return ((s[0] + s[1]) * w - rng.choice([w, dw, 1])) & word_mask   # op straddling the segment end
        return rng.randrange(1 << w)

    data: Dict[int, int] = {}
    for k, ip in enumerate(all_ops):
        wa = ip >> lw
        data[wa] = pick_flip(ip) & word_mask
        data[wa + 1] = pick_jump(ip, k == len(all_ops) - 1) & word_mask
    # some random data words elsewhere in segment 0
    for _ in range(rng.randint(0, 3)):
        wa = rng.randrange(segs[0][1]) if segs[0][1] <= 64 else rng.randrange(2 * nops + 4)
        data.setdefault(wa, rng.choice([0, 1, word_mask, rng.randrange(1 << w), 0xBB67AE8584CAA73B & word_mask]))
    nin = rng.choice([0, 1, 2, 5, 9, 16])
    inp = [rng.randrange(2) for _ in range(nin)]
    return {"w": w, "segs": segs, "data": data, "inp": inp, "version": rng.randrange(4)}


def directed_cases() -> List[dict]:
    """hand-picked boundary layouts at every width (top of the address space, ops on the last words)."""
    out = []
    for w in (8, 16, 32, 64):
        lw = w.bit_length() - 1
        mask = (1 << w) - 1
        top = 1 << (w - lw)          # number of words reachable by w-bit bit addresses
        harmless = 3 * w
        dw = 2 * w
        # op 0 jumps to an op on the LAST word of the address space: its jump word is word `top` (bit address 2^w)
        out.append({"w": w, "segs": [[0, 4], [top - 2, 2]], "data": {0: harmless, 1: ((top - 1) * w) & mask},
                    "inp": [], "version": 1, "tag": "jump-word-beyond-top"})
        # the same with the word above the top inside a segment (a segment may extend beyond 2^w bits)
        out.append({"w": w, "segs": [[0, 4], [top - 2, 4]], "data": {0: harmless, 1: ((top - 1) * w) & mask, top - 1: harmless, top: 0},
                    "inp": [], "version": 2, "tag": "jump-word-above-top-in-segment"})
        # an aligned op on the last two words: runs, then halts on itself
        out.append({"w": w, "segs": [[0, 4], [top - 2, 2]], "data": {0: harmless, 1: ((top - 2) * w) & mask, top - 2: harmless, top - 1: ((top - 2) * w) & mask},
                    "inp": [], "version": 3, "tag": "last-op-of-address-space"})
        # an unaligned op whose jump word straddles the top
        out.append({"w": w, "segs": [[0, 4], [top - 2, 2]], "data": {0: harmless, 1: ((top - 2) * w + 1) & mask, top - 2: 2 * harmless, top - 1: 0},
                    "inp": [], "version": 0, "tag": "unaligned-straddling-top"})
        # flip of the very last bit of the address space, and of the first bit above the last segment
        out.append({"w": w, "segs": [[0, 6], [top - 2, 2]], "data": {0: mask, 1: 2 * w, 2: ((top - 2) * w - 1) & mask, 3: 2 * w},
                    "inp": [], "version": 1, "tag": "flip-last-bit"})
        # self-referential ops at every alignment: an op that jumps to ITSELF and flips a bit of its own flip word /
        # its own jump word (not a halt), or a bit just outside itself (a halt) - op 0 jumps to it
        nwords = 10
        for off in (0, 1, lw + 1, w - 1, w, w + 1, dw - 1):
            A = 4 * w + off
            for rel in (0, w - 1, w, w + lw, dw - 1, -1, dw):
                f = A + rel
                jpre = A ^ (1 << (rel - w)) if w <= rel < dw else A        # the jump word equals A after the flip
                bits = harmless | (A << w)                                   # op 0: harmless flip; jump to A
                bits |= (f & mask) << A
                bits |= (jpre & mask) << (A + w)
                data = {k: (bits >> (k * w)) & mask for k in range(nwords) if (bits >> (k * w)) & mask}
                out.append({"w": w, "segs": [[0, nwords]], "data": data, "inp": [], "version": (off + rel) % 4,
                            "tag": f"self-op off={off} flip={rel}"})
    return out


def case_segments(case) -> List[Tuple[int, int, List[int]]]:
    """segments with contiguous data prefix (the writer's model: data then zeros)."""
    out = []
    for start, length in case["segs"]:
        inside = sorted(a for a in case["data"] if start <= a < start + length)
        nd = (inside[-1] - start + 1) if inside else 0
        nd += nd % 2
        nd = min(nd, length)
        out.append((start, length, [case["data"].get(start + i, 0) for i in range(nd)]))
    return out


def case_mem_addrs(case) -> List[int]:
    addrs = set()
    for start, length in case["segs"]:
        if length <= 40:
            addrs.update(range(start, start + length))
        else:
            addrs.update(range(start, start + 24))
            addrs.update([start + length - 1, start + length - 2, start + 998, start + 999, start + 1000])
            addrs = {a for a in addrs if a < start + length or any(s <= a < s + l for s, l in case["segs"])}
    return sorted(addrs)


class _Cut:
    """a duck-typed breakpoint handler that stops the featured loop after k ops (pre-screening only)."""

    def __init__(self, k):
        self.k = k
        self.breakpoints = {}
        self.address_to_label = {}

    def should_break(self, ip, op_counter):  # noqa: ARG002
        return op_counter >= self.k

    def query_user_for_debug_action(self, ip, mem, op_counter):  # noqa: ARG002
        return ("exit", 0)

    def apply_debug_action(self, action, op_counter):  # noqa: ARG002
        raise KeyboardInterrupt()


def _run_case(args):
    """worker: write the case, pre-screen for halting, run it on the engines, return records."""
    idx, case, engine_names, max_ops = args
    import contextlib
    import io

    fjm_run = par.fjm_run()
    w = case["w"]
    d = Path(tempfile.mkdtemp(prefix="fjv_c01g_"))
    recs = []
    try:
        path = d / "p.fjm"
        segs = case_segments(case)
        try:
            engines.write_image(path, w, case["version"], segs)
        except Exception as e:  # noqa: BLE001  (not an engine matter: C06)
            return {"skipped": f"writer: {type(e).__name__}"}
        # pre-screen with the featured loop cut at max_ops
        dev = engines.make_device(case["inp"])
        with contextlib.redirect_stdout(io.StringIO()):
            try:
                st = fjm_run.run(path, io_device=dev, breakpoint_handler=_Cut(max_ops))
            except Exception as e:  # noqa: BLE001
                return {"skipped": f"prescreen: {type(e).__name__}: {e}"}
        if int(st.termination_cause) == 6:
            return {"skipped": "non-halting"}
        addrs = case_mem_addrs(case)
        base = {"w": w, "segs": [[nb(s, AW), nb(l, AW)] for s, l, _ in segs],
                "data": [[nb(s + i, AW), nb(v, w // 8)] for s, _, dd in segs for i, v in enumerate(dd) if v],
                "inp": case["inp"]}
        for en in engine_names:
            obs = engines.run_engine(fjm_run, path, en, case["inp"], w=w, mem_addrs=addrs, budget_s=5.0,
                                     ring_len=max_ops + 5)
            o = {"cause": obs["cause"], "ops": max(obs["ops"], 0), "fault": obs["fault"], "out": obs["out"],
                 "inused": obs["inused"], "mem": obs["mem"],
                 "hashist": obs["hist"] is not None, "hist": obs["hist"] or [], "ringlen": max_ops + 5,
                 "hasstats": obs.get("flips") is not None, "flips": obs.get("flips") or 0, "jumps": obs.get("jumps") or 0}
            if obs["exc"]:
                o["cause"] = "exception:" + obs["exc"]
            r = dict(base)
            r["obs"] = o
            r["engine"] = en
            r["case"] = idx
            r["version"] = case["version"]
            recs.append(r)
    finally:
        shutil.rmtree(d, ignore_errors=True)
    return {"recs": recs}


TRACE_CFG = """SPECIFICATION Spec
CONSTRAINT Verdict
CHECK_DEADLOCK FALSE
"""


def validate_records(chk: Check, records: List[dict], name: str, batch: int = 250, parallel: int = 16):
    """hand the records to TLC in batches; returns {index: verdict dict}."""
    scratch = Path(tempfile.mkdtemp(prefix="fjv_c01t_"))
    verdicts: Dict[int, dict] = {}
    try:
        jobs = []
        offsets = []
        for b0 in range(0, len(records), batch):
            part = [{k: r[k] for k in ("w", "segs", "data", "inp", "obs")} for r in records[b0:b0 + batch]]
            f = scratch / f"batch_{b0}.json"
            f.write_text(json.dumps(part))
            jobs.append(dict(module="Trace_FJMachine", cfg_text=TRACE_CFG, workers=1, env={"TRACE_FILE": str(f)},
                             timeout=3000))
            offsets.append(b0)
        results = tlc.run_many(jobs, parallel=parallel)
        for b0, res in zip(offsets, results):
            chk.add_tlc(res, f"{name}@{b0}", records=min(batch, len(records) - b0))
            for v in res.emitted.get("V", []):
                verdicts[b0 + v["tid"] - 1] = v
    finally:
        shutil.rmtree(scratch, ignore_errors=True)
    chk.configs[:] = _squash(chk.configs, name)
    return verdicts


def _squash(configs, name):
    """merge the per-batch entries of one validation into one line of evidence."""
    keep = [c for c in configs if not c["name"].startswith(name + "@")]
    mine = [c for c in configs if c["name"].startswith(name + "@")]
    if mine:
        keep.append({"name": name, "batches": len(mine), "distinct": sum(c["distinct"] for c in mine),
                     "generated": sum(c["generated"] for c in mine), "records": sum(c.get("records", 0) for c in mine),
                     "wall_s": round(sum(c["wall_s"] for c in mine), 1)})
    return keep


def classify(rec: dict, fail: Sequence[str]) -> dict:
    """classification key of a rejected observation (for known-findings matching)."""
    w = rec["w"]
    key = {"engine_family": "native" if rec["engine"].startswith("native") else rec["engine"].split("-")[0],
           "clauses": ",".join(sorted(fail)), "w": w}
    return key


def classify_v(rec: dict, v: dict) -> dict:
    """classification that also looks at what the specification prescribes for this input."""
    key = classify(rec, v["fail"])
    spec = v.get("spec", {})
    if rec["w"] == 64 and spec.get("topop"):
        key["input_class"] = "w64-op-on-last-word-of-address-space"
        del key["clauses"]
    return key


def run(chk: Check, replay=None):
    quick = chk.tier == "quick"
    rng = random.Random(chk.seed)
    so = str(engines.build_native())
    chk.assumptions += [
        "the specification FJMachine.tla is the machine definition (transcribed from the property text, reference order of fjm_run._run_featured)",
        "exhaustive exploration is at w=8 over 8-value word alphabets; other widths are covered by generated images judged by TLC",
        "runs that do not halt within the op bound are not replayed on the fast/native engines (counted as 'cut')",
    ]
    # ---------------- (A) exhaustive families --------------------------------------------------
    # quick: 4 data words x 12 values (20,736 images per family and input);
    # thorough: 4 x 12, 5 x 10 and 6 x 8 (262,144 images per family and input)
    shapes = [(4, 12)] if quick else [(4, 12), (5, 10), (6, 8)]
    max_ops = 24
    fams = [(f, nw, nv) for (nw, nv) in shapes for f in FAMILIES]
    jobs = []
    for fam, nwords, nvalues in fams:
        cfg, extra = family_cfg(fam, nwords, nvalues, max_ops)
        jobs.append(dict(module="MCrun", cfg_text=cfg, workers=2 if quick else 4, extra_modules=extra,
                         timeout=7200, heap="4g"))
    results = tlc.run_many(jobs, parallel=8 if quick else 4)
    total_b = 0
    cut = 0
    replay_items = []
    for (fam, nwords, nvalues), res in zip(fams, results):
        chk.add_tlc(res, f"MC_FJMachine[{fam} {nwords}x{nvalues}]", nwords=nwords, alphabet=FAMILIES[fam][1][:nvalues], exhaustive=True)
        beh = res.emitted.get("B", [])
        total_b += len(beh)
        for rec in beh:
            if rec["status"] == "cut":
                cut += 1
                continue
            replay_items.append(rec)
    if not replay_items:
        raise MachineryFailure("TLC emitted no behaviours")
    # quick: replay a seeded sample of 6000; thorough: a seeded sample of 300,000 (every behaviour is checked in the model;
    # replaying all of them on 9 engine configurations would take many hours)
    cap = 6000 if quick else 300000
    if len(replay_items) > cap:
        replay_items = rng.sample(replay_items, cap)
    work = [(i, rec, REPLAY_ENGINES) for i, rec in enumerate(replay_items)]
    bad_lists = par.pmap(_replay_one, work, so_path=so, procs=16, chunksize=16)
    nrep = len(work) * len(REPLAY_ENGINES)
    chk.traces += nrep
    chk.extra["A_behaviours_emitted"] = total_b
    chk.extra["A_behaviours_cut_nonhalting"] = cut
    chk.extra["A_replayed_runs"] = nrep
    chk.sample({"kind": "spec->code replay", "spec_behaviour": replay_items[0]})
    for bl in bad_lists:
        for b in bl:
            key = {"engine_family": "native" if b["engine"].startswith("native") else b["engine"].split("-")[0],
                   "clauses": ",".join(sorted(d[0] for d in b["diffs"])), "w": 8, "route": "replay"}
            chk.violation(key, f"engine {b['engine']} differs from the specification on a w=8 image: "
                               f"{[d[0] for d in b['diffs']]}", b)

    # ---------------- (B) generated images judged by TLC --------------------------------------
    ncases = 700 if quick else 12000
    gen_engines = ["featured", "fast", "native-flat", "native-flat-ring", "native-paged", "native-paged-ring",
                   "native-measured", "native-hybrid:5", "native-hybrid:16384:ring"]
    cases = []
    for i in range(ncases):
        w = [8, 16, 32, 64][i % 4]
        cases.append(gen_case(rng, w))
    cases += directed_cases()
    gmax = 60
    outs = par.pmap(_run_case, [(i, c, gen_engines, gmax) for i, c in enumerate(cases)], so_path=so, procs=16,
                    chunksize=8)
    records = []
    skipped: Dict[str, int] = {}
    for o in outs:
        if "skipped" in o:
            k = o["skipped"].split(":")[0]
            skipped[k] = skipped.get(k, 0) + 1
        else:
            records += o["recs"]
    chk.extra["B_cases_generated"] = ncases
    chk.extra["B_cases_skipped"] = skipped
    chk.extra["B_records"] = len(records)
    verdicts = validate_records(chk, records, "Trace_FJMachine[generated]")
    chk.traces += len(records)
    if records:
        chk.sample({"kind": "code->spec record", "record": {k: records[0][k] for k in ("w", "segs", "inp", "engine", "obs")}})
    for i, rec in enumerate(records):
        v = verdicts.get(i)
        if v is None:
            raise MachineryFailure(f"no verdict from TLC for record {i}")
        if v["fail"]:
            chk.violation(classify_v(rec, v),
                          f"engine {rec['engine']} (w={rec['w']}) observation rejected by Trace_FJMachine: clauses {v['fail']}; spec says {v['spec']}",
                          {"record": rec, "verdict": v})

    # ---------------- (C) binding self-test -----------------------------------------------------
    good = [r for i, r in enumerate(records) if not verdicts[i]["fail"]][:40]
    mutants = []
    for k, r in enumerate(good):
        m = json.loads(json.dumps(r))
        o = m["obs"]
        kind = k % 5
        if kind == 0:
            o["ops"] += 1
        elif kind == 1:
            o["out"] = o["out"] + [1]
        elif kind == 2 and o["mem"]:
            o["mem"][0][1][0] ^= 1
        elif kind == 3:
            o["cause"] = "nullip" if o["cause"] != "nullip" else "looping"
        else:
            if o["hashist"] and o["hist"]:
                o["hist"][-1][0] ^= 1
            else:
                o["inused"] += 1
        mutants.append(m)
    if mutants:
        mv = validate_records(chk, mutants, "Trace_FJMachine[self-test]")
        accepted = [i for i in range(len(mutants)) if not mv.get(i, {"fail": ["x"]})["fail"]]
        chk.extra["C_selftest_mutants"] = len(mutants)
        chk.extra["C_selftest_rejected"] = len(mutants) - len(accepted)
        if accepted:
            raise MachineryFailure(f"binding self-test: corrupted observations were accepted: {accepted}")
