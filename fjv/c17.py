"""
C17 - bit-level IO devices are byte-exact.

FJDevices.tla models FixedIO / StandardIO (byte buffers) and KeyboardIO (polling protocol) with
implementation-shaped state, and states the property over ghost variables with declarative definitions
(Pack, BitsOfBytes, KbdStream with a stable sort).  TLC checks the invariants exhaustively over all call
sequences of bounded length and emits every maximal behaviour (call sequence with the result of every call);
the harness replays each one, call by call, into the real FixedIO, StandardIO and KeyboardIO objects and
compares every returned value / raised exception with what TLC printed.
"""
from __future__ import annotations

import io
import random
import sys
from typing import Dict, List, Tuple

from fjv import engines, par, tlc
from fjv.core import Check, MachineryFailure

INV = """INVARIANT OutputIsPacking
INVARIANT IncompleteReported
INVARIANT ReadsAreInputBits
INVARIANT KbdFollowsProtocol
CONSTRAINT Emit
CHECK_DEADLOCK FALSE
"""


def cfg(kind: str, inputs: List[List[int]], scripts: List[List[Tuple[int, int, int]]], alphabet: List[str],
        maxlen: int) -> Tuple[str, Dict[str, str]]:
    tl = lambda xs: "<<" + ", ".join(map(str, xs)) + ">>"  # noqa: E731
    ins = "{" + ", ".join(tl(i) for i in inputs) + "}"
    scr = "{" + ", ".join("<<" + ", ".join(tl(e) for e in s) + ">>" for s in scripts) + "}"
    root = f"""---- MODULE MCdev ----
EXTENDS FJDevices
In_def == {ins}
Scr_def == {scr}
Alpha_def == {{{", ".join('"' + a + '"' for a in alphabet)}}}
====
"""
    c = f"""SPECIFICATION Spec
CONSTANTS
  Kind = "{kind}"
  Inputs <- In_def
  Scripts <- Scr_def
  Alphabet <- Alpha_def
  MaxLen = {maxlen}
  EmitOn = TRUE
{INV}"""
    return c, {"MCdev": root}


def _mk_devices(kind: str, beh: dict):
    from flipjump.interpreter.io_devices.FixedIO import FixedIO
    import importlib
    std_mod = importlib.import_module('flipjump.interpreter.io_devices.StandardIO')
    from flipjump.interpreter.io_devices.KeyboardIO import KeyboardIO, ScriptedKeyEventSource, KeyEvent

    devs = []
    if kind == "bytes":
        data = bytes(beh["input"])
        devs.append(("FixedIO", FixedIO(data), None))
        fake_in = io.TextIOWrapper(io.BytesIO(data), encoding="latin-1", newline="")
        fake_out = io.StringIO()
        devs.append(("StandardIO", std_mod.StandardIO(True), (std_mod, fake_in, fake_out)))
        devs.append(("StandardIO-quiet", std_mod.StandardIO(False),
                     (std_mod, io.TextIOWrapper(io.BytesIO(data), encoding="latin-1", newline=""), io.StringIO())))
        # the stdin a process really has in a UTF-8 / POSIX locale (python's defaults: utf-8, surrogateescape, newline="\n")
        devs.append(("StandardIO-utf8-stdin", std_mod.StandardIO(False),
                     (std_mod, io.TextIOWrapper(io.BytesIO(data), encoding="utf-8", errors="surrogateescape", newline="\n"), io.StringIO())))
    else:
        ev = [KeyEvent(t, bool(d), k) for t, d, k in beh["script"]]
        devs.append(("KeyboardIO", KeyboardIO(ScriptedKeyEventSource(list(ev))), None))
        text = "# script\n" + "\n".join(f"{t}, {'down' if d else 'up'}, {hex(k) if k % 2 else k}" for t, d, k in beh["script"]) + "\n"
        devs.append(("KeyboardIO.from_text", KeyboardIO(ScriptedKeyEventSource.from_text(text)), None))
    return devs


def _replay(args):
    idx, beh = args
    par.fjm_run()
    from flipjump.utils.exceptions import IOReadOnEOF, IncompleteOutput

    bad = []
    for name, dev, patch in _mk_devices(beh["kind"], beh):
        if patch:
            mod, fin, fout = patch
            old = (mod.stdin, mod.stdout)
            mod.stdin, mod.stdout = fin, fout
        try:
            for k, (call, exp) in enumerate(beh["h"]):
                try:
                    if call == "w0":
                        got = dev.write_bit(False)
                        got = 0 if got is None else ("ret", repr(got))
                    elif call == "w1":
                        got = dev.write_bit(True)
                        got = 0 if got is None else ("ret", repr(got))
                    elif call == "r":
                        try:
                            b = dev.read_bit()
                            got = 1 if b is True else 0 if b is False else ("ret", repr(b))
                        except IOReadOnEOF:
                            got = 2
                    elif call in ("g", "ga"):
                        try:
                            got = list(dev.get_output(allow_incomplete_output=(call == "ga")))
                        except IncompleteOutput:
                            got = [300]
                    else:
                        raise MachineryFailure(call)
                except Exception as e:  # noqa: BLE001
                    got = ("exc", f"{type(e).__name__}: {e}")
                if got != exp:
                    bad.append({"device": name, "call_index": k, "call": call, "got": got, "expected": exp,
                                "behaviour": beh})
                    break
            if patch and name == "StandardIO":
                # the verbose device echoes every completed byte to stdout
                exp_bytes = None
                w = [1 if c == "w1" else 0 for c, _ in beh["h"] if c in ("w0", "w1")]
                # (what TLC said get_output(allow) returns is the echo; use the last 'ga' result if the behaviour ends with one)
                if beh["h"] and beh["h"][-1][0] == "ga":
                    exp_bytes = beh["h"][-1][1]
                    echoed = list(fout.getvalue().encode("latin-1"))
                    if echoed != exp_bytes:
                        bad.append({"device": name, "call": "stdout-echo", "got": echoed, "expected": exp_bytes, "behaviour": beh})
        finally:
            if patch:
                mod.stdin, mod.stdout = old
    return bad


def run(chk: Check, replay=None):
    quick = chk.tier == "quick"
    so = None
    chk.assumptions += [
        "StandardIO is driven through a latin-1 text wrapper (its byte mapping is defined on code points 0-255), and - input only - through "
        "the utf-8 / surrogateescape text layer a process has by default",
        "call sequences are bounded in length; the invariants are stated for every prefix",
    ]
    inputs = [[], [0xA5], [0x01, 0x80], [0xFF, 0x00], [0x5A, 0xC3, 0x7E]]
    scripts = [[], [(0, 1, 65)], [(3, 1, 65), (3, 0, 65)], [(2, 1, 66), (0, 0, 67)],
               [(1, 1, 2), (1, 1, 1), (1, 0, 2)], [(5, 0, 255), (0, 1, 0), (0, 0, 128), (2, 1, 7)]]
    jobs = [
        ("writes+get", cfg("bytes", [[]], [], ["w0", "w1", "g"], 9 if quick else 12)),
        ("writes+get-allow", cfg("bytes", [[]], [], ["w0", "w1", "ga"], 9 if quick else 11)),
        ("pure-writes", cfg("bytes", [[]], [], ["w0", "w1"], 12 if quick else 16)),
        ("reads", cfg("bytes", inputs, [], ["r"], 28)),
        ("mixed", cfg("bytes", inputs[:4], [], ["r", "w0", "w1", "ga", "g"], 6 if quick else 8)),
        ("kbd-reads", cfg("kbd", [], scripts, ["r"], 60 if quick else 100)),
        ("kbd-mixed", cfg("kbd", [], scripts, ["r", "w1", "g", "ga"], 6 if quick else 8)),
    ]
    results = tlc.run_many([dict(module="MCdev", cfg_text=c, extra_modules=x, workers=2, heap="4g", timeout=3000)
                            for _, (c, x) in jobs], parallel=8)
    behs = []
    for (name, _), res in zip(jobs, results):
        chk.add_tlc(res, f"FJDevices[{name}]", exhaustive=True, behaviours=len(res.emitted.get("D", [])))
        behs += res.emitted.get("D", [])
    if not behs:
        raise MachineryFailure("no behaviours emitted")
    # pure-writes behaviours end without a get_output: append both flavours from a second TLC pass? no - every
    # write prefix followed by g / ga is already enumerated by the first two configurations.
    so = str(engines.build_native())
    bad_lists = par.pmap(_replay, list(enumerate(behs)), so_path=so, procs=16, chunksize=64)
    chk.traces += len(behs)
    chk.exhaustive = True
    chk.extra["behaviours_replayed"] = len(behs)
    chk.extra["devices"] = ["FixedIO", "StandardIO(verbose)", "StandardIO(quiet)", "StandardIO(quiet, utf-8 stdin)", "KeyboardIO", "KeyboardIO.from_text"]
    chk.sample(behs[0])
    chk.sample(behs[-1])
    for bl in bad_lists:
        for b in bl:
            key = {"device": b["device"], "call": b["call"]}
            if b["device"] == "StandardIO-utf8-stdin":
                key["input_class"] = "has-byte-above-0x7f" if any(x >= 0x80 for x in b["behaviour"].get("input", [])) else "ascii"
            chk.violation(key,
                          f"{b['device']}: call #{b.get('call_index')} {b['call']} returned {b['got']} but the specification says {b['expected']}", b)
