"""fjv - harness for the TLA+ model-based verification of tomhea/flip-jump (see /verif/DESIGN.md)."""
