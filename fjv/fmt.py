"""
Shared harness for C06 (write -> read preserves the image) and C10 (reading is total, torn files rejected).
The oracle is FJMFormat.tla: MC_FJMFormat explores bounded writer call sequences exhaustively (RoundTrip,
TornPrefixRejectedOrSame as invariants) and emits them; Trace_FJMFormat judges recorded writer sequences and
reader outcomes on arbitrary byte strings at every width.
"""
from __future__ import annotations

import json
import lzma
import random
import shutil
import struct
import tempfile
import time
import tracemalloc
from pathlib import Path
from typing import Dict, List, Optional, Tuple

from fjv import c01, engines, par, tlc
from fjv.core import Check, MachineryFailure
from fjv.engines import bn, nb


def num(v: int) -> dict:
    return {"neg": v < 0, "mag": nb(abs(v), 9) if abs(v) < (1 << 72) else nb((1 << 72) - 1, 9)}


def classify_exc(e: BaseException, kind: str) -> str:
    from flipjump.utils.exceptions import FlipJumpWriteFjmException, FlipJumpReadFjmException

    if kind == "w" and isinstance(e, FlipJumpWriteFjmException):
        return "werr"
    if kind == "r" and isinstance(e, FlipJumpReadFjmException):
        return "rerr"
    return f"other:{type(e).__name__}"


def read_image(path: Path, probes: List[int], w: int) -> dict:
    """load with the real Reader; returns rok / rsegs / rwords / rexc"""
    from flipjump.fjm.fjm_reader import Reader
    from flipjump.utils.exceptions import FlipJumpRuntimeMemoryException

    out = {"rok": False, "rsegs": [], "rwords": [], "rexc": ""}
    try:
        r = Reader(path)
    except BaseException as e:  # noqa: BLE001
        out["rexc"] = classify_exc(e, "r")
        return out
    out["rok"] = True
    out["rsegs"] = [[nb(s.segment_start, 8), nb(s.segment_length, 8)] for s in r.memory_segments]
    words = {}
    if len(r.memory) <= 6000:
        for a, v in r.memory.items():
            words[a] = nb(v, w // 8)
    lw = w.bit_length() - 1
    for a in probes:
        if a in words:
            continue
        try:
            words[a] = nb(r.get_word(a << lw), w // 8)
        except FlipJumpRuntimeMemoryException:
            words[a] = []
        except BaseException as e:  # noqa: BLE001
            out["rexc"] = f"probe:{type(e).__name__}"
    out["rwords"] = [[nb(a, 9), v] for a, v in sorted(words.items())]
    return out


def perform_calls(calls: List[dict], w: int, version: int, preset: int, workdir: Path) -> dict:
    """perform a writer call sequence on the real Writer; calls use python ints"""
    from flipjump.fjm.fjm_writer import Writer
    from flipjump.fjm.fjm_consts import FJMVersion

    path = workdir / "f.fjm"
    if path.exists():
        path.unlink()
    obs = {"steps": [], "final": "none", "bytes": [], "rok": False, "rsegs": [], "rwords": [], "rexc": ""}
    kw = {"lzma_preset": preset} if version == 3 else {}
    wr = Writer(path, w, FJMVersion(version), **kw)
    probes = set()
    for c in calls:
        try:
            if c["op"] == "data":
                wr.add_data(list(c["words"]))
            else:
                wr.add_segment(c["s"], c["l"], c["ds"], c["dl"])
                if 0 <= c["s"] < (1 << 64) and 0 < c["l"] < (1 << 64):
                    probes.update([c["s"], c["s"] + c["l"] - 1, c["s"] + c["l"], max(0, c["s"] - 1), c["s"] + max(0, c["dl"]),
                                   c["s"] + min(c["l"] - 1, 999), c["s"] + min(c["l"] - 1, 1000)])
            obs["steps"].append("ok")
        except BaseException as e:  # noqa: BLE001
            obs["steps"].append(classify_exc(e, "w"))
    try:
        wr.write_to_file()
        obs["final"] = "ok"
    except BaseException as e:  # noqa: BLE001
        obs["final"] = classify_exc(e, "w")
    if path.exists():
        data = path.read_bytes()
        if obs["final"] == "ok" and version <= 2:
            obs["bytes"] = list(data)
        top = 1 << w
        obs.update(read_image(path, sorted(a for a in probes if 0 <= a < top), w))
    return obs


def to_record(calls: List[dict], w: int, version: int, obs: dict) -> dict:
    jc = []
    for c in calls:
        if c["op"] == "data":
            jc.append({"op": "data", "words": [num(v) for v in c["words"]]})
        else:
            jc.append({"op": "seg", "s": num(c["s"]), "l": num(c["l"]), "ds": num(c["ds"]), "dl": num(c["dl"])})
    return {"kind": "write", "w": w, "version": version, "calls": jc,
            "obs": {k: obs[k] for k in ("steps", "final", "bytes", "rok", "rsegs", "rwords")},
            "bytes": [], "unz": []}


# ---------------------------------------------------------------------------------------------
def gen_calls(rng: random.Random, w: int) -> List[dict]:
    """a writer call sequence with the features the property names"""
    mask = (1 << w) - 1
    lw = w.bit_length() - 1

    def word():
        r = rng.random()
        if r < 0.3:
            return rng.randrange(1 << w)
        if r < 0.5:
            return rng.choice([0, 1, mask, mask - 1, 2 * w, 2 * w + 1])
        return rng.randrange(64) * w

    nd = rng.choice([0, 2, 2, 4, 6, 8, 3])
    calls = [{"op": "data", "words": [word() for _ in range(nd)]}]
    if rng.random() < 0.3:
        calls.append({"op": "data", "words": [word() for _ in range(rng.choice([2, 4]))]})
    pool = sum(len(c["words"]) for c in calls)
    starts = [0, 2, 4, 8, 64, 1000, 1 << 14, (1 << 14) - 2, 1 << 20]
    if w >= 32:
        starts += [(1 << (w - lw)) - 2, (1 << (w - lw)), 1 << 31]
    if w == 64:
        starts += [1 << 40, (1 << 58) - 2, (1 << 63), (1 << 64) - 2, (1 << 64) - 4]
    if w >= 16 and rng.random() < 0.08:
        # several segments with long zero tails (kept as ranges, not as words), listed in descending or shuffled address order
        k = rng.choice([2, 3])
        bases = {16: [0, 1200, 2400], 32: [0, 4096, 1 << 20], 64: [0, 1 << 14, 1 << 40]}[w]
        bases = rng.sample(bases, k)
        if rng.random() < 0.5:
            bases.sort(reverse=True)
        calls = [{"op": "data", "words": [word() for _ in range(2 * k)]}]
        for i, b in enumerate(bases):
            calls.append({"op": "seg", "s": b, "l": 2 + rng.choice([1000, 1002, 1100]), "ds": 2 * i, "dl": 2})
        return calls
    nseg = rng.choice([1, 1, 2, 2, 3])
    used_ds = []
    if rng.random() < 0.12 and pool >= 4:
        # data claimed out of append order, then shared
        order = rng.choice([[pool - 2, 0, pool - 2], [2, 0, 2], [0, 2, 0], [2, 0, 0]])
        base = rng.choice([0, 1 << 14, 1000])
        for k, ds in enumerate(order):
            calls.append({"op": "seg", "s": base + 4 * k, "l": rng.choice([2, 4]), "ds": ds, "dl": 2})
        return calls
    if rng.random() < 0.12 and pool >= 4:
        # two segments whose data windows are neighbours or overlap by one word or more (odd data starts)
        a = rng.choice([0, 1, 2])
        b = a + rng.choice([1, 1, 2, 3, -1])
        base = rng.choice([0, 64, 1 << 14])
        calls.append({"op": "seg", "s": base, "l": rng.choice([2, 4]), "ds": a, "dl": 2})
        calls.append({"op": "seg", "s": base + 8, "l": rng.choice([2, 4]), "ds": max(0, b), "dl": 2})
        return calls
    for _ in range(nseg):
        s = rng.choice(starts)
        if rng.random() < 0.08:
            s += 1                                      # odd start
        dl = rng.choice([0, 2, 2, 4, min(pool, 6), 1, 3])
        ds = rng.choice([0, 0, 2, max(0, pool - dl), pool, 4] + used_ds)
        ln = rng.choice([dl, dl + 2, dl + 4, dl + 998, dl + 1000, dl + 1002, 2, 4, 0, max(0, dl - 2), dl + 1])
        r = rng.random()
        if r < 0.03:
            ln = 1 << 64
        elif r < 0.05:
            s = -2
        elif r < 0.07:
            ds = -1
        elif r < 0.09:
            s = 1 << 64
        calls.append({"op": "seg", "s": s, "l": ln, "ds": ds, "dl": dl})
        used_ds.append(ds)
    if rng.random() < 0.06:                            # an out-of-range word
        calls[0]["words"] = calls[0]["words"] + [rng.choice([1 << w, -1, (1 << w) + 5, 1 << 64])]
        if len(calls[0]["words"]) % 2:
            calls[0]["words"].append(0)
    return calls


def _run_write_case(args):
    idx, w, version, preset, calls = args
    par.fjm_run()
    d = Path(tempfile.mkdtemp(prefix="fjv_fmt_"))
    try:
        obs = perform_calls(calls, w, version, preset, d)
        rec = to_record(calls, w, version, obs)
        rec["idx"] = idx
        rec["rexc"] = obs["rexc"]
        return rec
    finally:
        shutil.rmtree(d, ignore_errors=True)


TRACE_CFG = """SPECIFICATION Spec
CONSTRAINT Verdict
CHECK_DEADLOCK FALSE
"""


def validate(chk: Check, records: List[dict], name: str, batch: int = 300) -> Dict[int, dict]:
    scratch = Path(tempfile.mkdtemp(prefix="fjv_fmtt_"))
    verdicts: Dict[int, dict] = {}
    keys = ("kind", "w", "version", "calls", "obs", "bytes", "unz")
    try:
        jobs, offs = [], []
        for b0 in range(0, len(records), batch):
            part = [{k: r.get(k, []) for k in keys} for r in records[b0:b0 + batch]]
            f = scratch / f"b{b0}.json"
            f.write_text(json.dumps(part))
            jobs.append(dict(module="Trace_FJMFormat", cfg_text=TRACE_CFG, workers=1, env={"TRACE_FILE": str(f)}, timeout=3000))
            offs.append(b0)
        for b0, res in zip(offs, tlc.run_many(jobs, parallel=16)):
            chk.add_tlc(res, f"{name}@{b0}", records=min(batch, len(records) - b0))
            for v in res.emitted.get("V", []):
                verdicts[b0 + v["tid"] - 1] = v
    finally:
        shutil.rmtree(scratch, ignore_errors=True)
    chk.configs[:] = c01._squash(chk.configs, name)
    return verdicts


# ---------------------------------------------------------------------------------------------
# exhaustive model checking of the writer/reader pair

def mc_cfg(w: int, chunks, starts, lens, dstarts, dlens, maxsegs, emit) -> Tuple[str, Dict[str, str]]:
    tl = lambda xs: "<<" + ", ".join(map(str, xs)) + ">>"  # noqa: E731
    n8 = lambda v: "<<" + ", ".join(map(str, nb(v, 8))) + ">>"  # noqa: E731
    root = f"""---- MODULE MCfmt ----
EXTENDS MC_FJMFormat
Ch_def == {{{", ".join(tl(c) for c in chunks)}}}
St_def == {{{", ".join(n8(s) for s in starts)}}}
Ln_def == {{{", ".join(n8(s) for s in lens)}}}
====
"""
    cfg = f"""SPECIFICATION Spec
CONSTANTS
  W = {w}
  Versions = {{0, 1, 2}}
  Chunks <- Ch_def
  Starts <- St_def
  Lens <- Ln_def
  DStarts = {{{", ".join(map(str, dstarts))}}}
  DLens = {{{", ".join(map(str, dlens))}}}
  MaxSegs = {maxsegs}
  EmitOn = {"TRUE" if emit else "FALSE"}
INVARIANT RoundTrip
INVARIANT TornPrefixRejectedOrSame
CONSTRAINT Emit
CHECK_DEADLOCK FALSE
"""
    return cfg, {"MCfmt": root}


def mc_jobs(quick: bool):
    jobs = []
    # w = 8
    jobs.append(("w8", mc_cfg(8, [[1, 255, 16, 40], [7, 9], []], [0, 2, 3, 6], [0, 2, 4, 5], [0, 1, 2], [0, 2, 3], 2, True)))
    # w = 16: start * w wraps modulo 2^16 (relative jumps), high starts
    jobs.append(("w16", mc_cfg(16, [[513, 65535, 4096, 32], [258, 772]], [0, 4094, 4096, 65534], [2, 4], [0, 2], [0, 2, 4], 2, True)))
    # three segments claiming data out of append order / sharing it (allowed in versions 0/1 only)
    jobs.append(("w8-3segs-share", mc_cfg(8, [[1, 255, 16, 40]], [0, 2, 4, 6], [2], [0, 2], [0, 2], 3, True)))
    if not quick:
        jobs.append(("w8-3segs", mc_cfg(8, [[1, 255, 16, 40]], [0, 2, 6], [2, 4], [0, 2], [0, 2], 3, True)))
        jobs.append(("w16-wide", mc_cfg(16, [[513, 65535, 4096, 32, 7, 9], []], [0, 2, 3, 4096, 65534, 1 << 40], [0, 2, 5, 1002], [0, 1, 4], [0, 1, 2, 4], 2, True)))
    return jobs


def calls_from_emitted(st: dict) -> List[dict]:
    out = []
    for c in st["calls"]:
        if c["op"] == "data":
            out.append({"op": "data", "words": list(c["words"])})
        else:
            out.append({"op": "seg", "s": bn(c["s"]), "l": bn(c["l"]), "ds": c["ds"], "dl": c["dl"]})
    return out


def _replay_emitted(args):
    """spec->code: perform an emitted call sequence; compare accept flags and bytes; cut the file at every offset"""
    idx, st, do_cuts = args
    par.fjm_run()
    from flipjump.fjm.fjm_reader import Reader
    from flipjump.utils.exceptions import FlipJumpReadFjmException

    w, version = st["w"], st["version"]
    calls = calls_from_emitted(st)
    d = Path(tempfile.mkdtemp(prefix="fjv_fmtr_"))
    bad = []
    try:
        versions = [version] + ([3] if version == 2 else [])
        for ver in versions:
            obs = perform_calls(calls, w, ver, idx % 10, d)
            exp_steps = ["ok" if (c["op"] == "data" or c["ok"]) else "werr" for c in st["calls"]]
            diffs = []
            if obs["steps"] != exp_steps:
                diffs.append(("steps", obs["steps"], exp_steps))
            if obs["final"] != "ok":
                diffs.append(("final", obs["final"], "ok"))
            if ver <= 2 and obs["final"] == "ok" and obs["steps"] == exp_steps and obs["bytes"] != st["bytes"]:
                diffs.append(("bytes", obs["bytes"], st["bytes"]))
            rec = to_record(calls, w, ver, obs)
            if diffs:
                bad.append({"route": "write", "version": ver, "diffs": diffs, "spec": st})
                continue
            # C10: every strict prefix of the written file
            if do_cuts and obs["final"] == "ok":
                full = (d / "f.fjm").read_bytes()
                ref = read_image(d / "f.fjm", [], w)
                cut_path = d / "cut.fjm"
                accepted = []
                for k in range(len(full)):
                    cut_path.write_bytes(full[:k])
                    try:
                        r = Reader(cut_path)
                    except FlipJumpReadFjmException:
                        continue
                    except BaseException as e:  # noqa: BLE001
                        bad.append({"route": "cut", "version": ver, "k": k, "diffs": [("exception", f"{type(e).__name__}: {e}")], "spec": st})
                        continue
                    accepted.append(k)
                    img = read_image(cut_path, [], w)
                    if img["rsegs"] != ref["rsegs"] or img["rwords"] != ref["rwords"]:
                        bad.append({"route": "cut", "version": ver, "k": k, "diffs": [("torn-file-loads-different-image", k)], "spec": st})
                    del r
                if ver <= 2:
                    extra = sorted(set(accepted) - set(st["cuts"]))
                    if extra:
                        bad.append({"route": "cut", "version": ver, "k": extra[0],
                                    "diffs": [("prefix-accepted-but-spec-rejects", extra)], "spec": st})
            bad.append({"record": rec})
    finally:
        shutil.rmtree(d, ignore_errors=True)
    return bad


# ---------------------------------------------------------------------------------------------
# reader totality: arbitrary byte strings

def base_files(rng: random.Random, workdir: Path) -> List[Tuple[bytes, int, int]]:
    """a few writer-produced files (bytes, w, version) to corrupt"""
    out = []
    for w in (8, 16, 32, 64):
        for version in (0, 1, 2, 3):
            mask = (1 << w) - 1
            calls = [{"op": "data", "words": [rng.randrange(1 << w) for _ in range(6)]},
                     {"op": "seg", "s": 0, "l": 6, "ds": 0, "dl": 4},
                     {"op": "seg", "s": rng.choice([8, 64, 1 << 14]), "l": rng.choice([2, 1004]), "ds": 4, "dl": 2},
                     {"op": "seg", "s": 1 << 20, "l": 4, "ds": 6, "dl": 0}]          # a segment of zeros only
            obs = perform_calls(calls, w, version, rng.randrange(10), workdir)
            if obs["final"] == "ok":
                out.append(((workdir / "f.fjm").read_bytes(), w, version))
    return out


FIELD_VALUES = [0, 1, 2, 3, 5, 7, 8, 9, 12, 16, 24, 32, 33, 64, 128, 0x4A46, 999, 1000, 1001, 1 << 16, (1 << 32) - 1, 1 << 32,
                (1 << 63), (1 << 64) - 1, (1 << 64) - 2, 1 << 23, 1 << 27, 1 << 40, 1 << 58]


def corruptions(data: bytes, w: int, version: int, rng: random.Random, dense: bool) -> List[bytes]:
    hl = 20 if version == 0 else 32
    count = struct.unpack_from("<Q", data, 12)[0]
    fields = [(0, 2), (2, 2), (4, 8), (12, 8)]
    if version:
        fields += [(20, 8), (28, 4)]
    for k in range(count):
        for j in range(4):
            fields.append((hl + 32 * k + 8 * j, 8))
    out = []
    for off, size in fields:
        cur = int.from_bytes(data[off:off + size], "little")
        vals = set(FIELD_VALUES) | {cur + 1, cur - 1, cur + 2, cur ^ 1, cur * 2}
        vals = [v for v in vals if 0 <= v < (1 << (8 * size)) and v != cur]
        if not dense:
            vals = rng.sample(vals, min(len(vals), 7))
        for v in vals:
            out.append(data[:off] + v.to_bytes(size, "little") + data[off + size:])
    # payload damage
    pl = hl + 32 * count
    for _ in range(6 if not dense else 20):
        if len(data) > pl:
            i = rng.randrange(pl, len(data))
            out.append(data[:i] + bytes([data[i] ^ (1 << rng.randrange(8))]) + data[i + 1:])
    out.append(data + b"\x00")
    out.append(data + bytes(w // 8))
    out.append(data[:-1])
    out.append(data[: pl + (len(data) - pl) // 2])
    return out


def big_blobs() -> List[Tuple[str, bytes]]:
    """files whose reading cost can be out of proportion to their size (judged on time and allocation only)"""
    def head(w, version, segs):
        h = b"FJ" + struct.pack("<HQQ", w, version, len(segs)) + struct.pack("<QL", 0, 0)
        return h + b"".join(struct.pack("<QQQQ", *sg) for sg in segs)
    raw = dict(format=lzma.FORMAT_RAW, filters=[{"id": lzma.FILTER_LZMA2}])
    out = [("v3-zero-filled-payload", head(64, 3, [(0, 2, 0, 2)]) + bytes(4_000_000)),
           ("v3-small-file-huge-pool", head(64, 3, [(0, 2, 0, 2)]) + lzma.compress(bytes(96 << 20), **raw)),
           ("v3-two-streams", head(64, 3, [(0, 2, 0, 2)]) + lzma.compress(bytes(16), **raw) + lzma.compress(bytes(16), **raw)),
           ("v1-large-plain", head(8, 1, [(0, 2, 0, 2)]) + bytes(3_000_000))]
    return out


def _read_case(args):
    idx, blob = args
    big = None
    if isinstance(blob, tuple):
        big, blob = blob
    par.fjm_run()
    from flipjump.fjm.fjm_reader import Reader
    from flipjump.utils.exceptions import FlipJumpReadFjmException
    import resource

    d = Path(tempfile.mkdtemp(prefix="fjv_rd_"))
    try:
        path = d / "x.fjm"
        path.write_bytes(blob)
        rec = {"kind": "read", "w": 8, "version": 0, "calls": [], "bytes": list(blob if big is None else blob[:96]), "unz": [], "idx": idx,
               "big": big, "size": len(blob), "trailing": False}
        # the decompression oracle for version-3 payloads (an observation about the input, see FJMFormat): the payload is ONE
        # raw LZMA2 stream; bytes after its end marker make the record ambiguous (accepting the first stream's image or rejecting
        # the file are both within the property) and only totality is judged then
        if big is None and len(blob) >= 32 and blob[:2] == b"FJ" and int.from_bytes(blob[4:12], "little") == 3:
            cnt = int.from_bytes(blob[12:20], "little")
            if cnt < (1 << 20) and len(blob) >= 32 + 32 * cnt:
                try:
                    dec = lzma.LZMADecompressor(format=lzma.FORMAT_RAW, filters=[{"id": lzma.FILTER_LZMA2}])
                    pool = dec.decompress(blob[32 + 32 * cnt:])
                    rec["unz"] = [list(pool)] if dec.eof else []
                    rec["trailing"] = bool(dec.eof and dec.unused_data)
                except lzma.LZMAError:
                    rec["unz"] = []
        soft, hard = resource.getrlimit(resource.RLIMIT_AS)
        resource.setrlimit(resource.RLIMIT_AS, (6 << 30, hard))
        tracemalloc.start()
        t0 = time.time()
        outcome = "image"
        try:
            with engines._Alarm(20.0):
                Reader(path)
        except FlipJumpReadFjmException:
            outcome = "rerr"
        except KeyboardInterrupt:
            outcome = "hang"
        except BaseException as e:  # noqa: BLE001
            outcome = f"other:{type(e).__name__}"
        peak = tracemalloc.get_traced_memory()[1]
        tracemalloc.stop()
        resource.setrlimit(resource.RLIMIT_AS, (soft, hard))
        rec["obs"] = {"rok": outcome == "image", "steps": [], "final": "none", "bytes": [], "rsegs": [], "rwords": []}
        rec["outcome"] = outcome
        rec["peak"] = peak
        rec["secs"] = time.time() - t0
        return rec
    finally:
        shutil.rmtree(d, ignore_errors=True)
