"""
C10 - reading an .fjm is total, and damaged or torn files are rejected.
See fjv/fmt.py and specs/FJMFormat.tla.
(A) every writer sequence emitted by MC_FJMFormat is written with the real Writer and cut at EVERY byte offset:
    each strict prefix must raise the read error or load exactly the same image, and (versions 0-2) only the
    prefixes TLC lists as still decodable may be accepted.
(B) byte strings TLC cannot enumerate - every single-field corruption of header and segment table of files at
    every width/version, payload damage, appended/removed bytes, random strings - are opened with the real
    Reader; TLC (Trace_FJMFormat) judges every outcome against Decode / WellFormed; anything but an image or the
    read error, a hang, or an allocation out of proportion to the file is a violation.
"""
from __future__ import annotations

import random
import shutil
import tempfile
from pathlib import Path

from fjv import engines, fmt, par, tlc
from fjv.core import Check, MachineryFailure


def run(chk: Check, replay=None):
    quick = chk.tier == "quick"
    rng = random.Random(chk.seed + 10)
    so = str(engines.build_native())
    fjm_run = engines.setup(so_path=so)  # noqa: F841
    chk.assumptions += [
        "WellFormed (FJMFormat!Decode): magic, version 0-3, width, reserved = 0, complete table, even data lengths, data ranges inside the pool, "
        "data length <= segment length, payload a whole number of words (version 3: the payload decompresses)",
        "allocation ceiling: 64 MB + 200 x file size per open (tracemalloc); time ceiling 20 s",
    ]
    jobs = fmt.mc_jobs(quick)
    results = tlc.run_many([dict(module="MCfmt", cfg_text=c, extra_modules=x, workers=4, heap="6g", timeout=3600) for _, (c, x) in jobs], parallel=4)
    emitted = []
    for (name, _), res in zip(jobs, results):
        chk.add_tlc(res, f"MC_FJMFormat[{name}]", exhaustive=True, sequences=len(res.emitted.get("W", [])))
        emitted += [st for st in res.emitted.get("W", []) if any(c["op"] == "seg" and c["ok"] for c in st["calls"])]
    if not emitted:
        raise MachineryFailure("no writer sequences emitted")
    nsel = 1500 if quick else 20000
    if len(emitted) > nsel:
        emitted = rng.sample(emitted, nsel)
    outs = par.pmap(fmt._replay_emitted, [(i, st, True) for i, st in enumerate(emitted)], so_path=so, procs=16, chunksize=8)
    ncuts = 0
    for bl in outs:
        for b in bl:
            if "record" in b:
                continue
            if b["route"] == "cut":
                chk.violation({"route": "cut", "clauses": b["diffs"][0][0]},
                              f"torn file (version {b['version']}, cut at byte {b['k']}): {b['diffs'][0]}", b)
    chk.extra["A_files_cut_at_every_offset"] = len(emitted)
    chk.traces += len(emitted)
    # (B)
    d = Path(tempfile.mkdtemp(prefix="fjv_c10_"))
    try:
        bases = fmt.base_files(rng, d)
    finally:
        shutil.rmtree(d, ignore_errors=True)
    blobs = []
    for data, w, version in bases:
        blobs += fmt.corruptions(data, w, version, rng, dense=not quick)
        blobs.append(data)
    for _ in range(200 if quick else 5000):
        n = rng.choice([0, 1, 2, 19, 20, 31, 32, 52, 64, 100])
        blob = bytes(rng.randrange(256) for _ in range(n))
        if rng.random() < 0.7 and n >= 4:
            blob = b"FJ" + bytes([rng.choice([8, 16, 32, 64, 12]), 0]) + blob[4:]
            if n >= 12 and rng.random() < 0.8:
                blob = blob[:4] + bytes([rng.randrange(5)]) + bytes(7) + blob[12:]
            if n >= 20 and rng.random() < 0.8:
                blob = blob[:12] + bytes([rng.randrange(3)]) + bytes(7) + blob[20:]
        blobs.append(blob)
    nsmall = len(blobs)
    blobs += fmt.big_blobs()          # (name, bytes): judged on totality only (too large for TLC, and not needed: see below)
    recs = par.pmap(fmt._read_case, list(enumerate(blobs)), so_path=so, procs=16, chunksize=16)
    verdicts = fmt.validate(chk, recs[:nsmall], "Trace_FJMFormat[read]")
    chk.traces += len(recs)
    chk.extra["B_byte_strings"] = len(recs)
    chk.extra["B_outcomes"] = {o: sum(1 for r in recs if r["outcome"] == o) for o in sorted({r["outcome"] for r in recs})}
    chk.sample({"kind": "byte string", "bytes": recs[0]["bytes"][:64], "outcome": recs[0]["outcome"]})
    for i, rec in enumerate(recs):
        v = verdicts.get(i) if i < nsmall else {"fail": []}
        if v is None:
            raise MachineryFailure(f"no verdict for record {i}")
        oc = rec["outcome"]
        what = rec["big"] or "string"
        if oc not in ("image", "rerr"):
            chk.violation({"route": "read", "clauses": "not-total", "outcome": oc.split(":")[0]},
                          f"Reader on a {rec['size']}-byte {what}: outcome {oc} (neither an image nor the read error)",
                          {"bytes": rec["bytes"], "outcome": oc, "recipe": rec["big"]})
        elif rec["peak"] > (64 << 20) + 200 * rec["size"]:
            chk.violation({"route": "read", "clauses": "allocation"},
                          f"Reader allocated {rec['peak']} bytes for a {rec['size']}-byte {what}", {"bytes": rec["bytes"], "peak": rec["peak"], "recipe": rec["big"]})
        elif rec["trailing"]:
            continue            # bytes after the end of the compressed stream: accepting and rejecting are both fine
        elif v["fail"]:
            chk.violation({"route": "read", "clauses": "outcome", "real": oc},
                          f"Reader outcome {oc} on a {len(rec['bytes'])}-byte string, but FJMFormat!Decode says ok={v['spec']['ok']}", {"bytes": rec["bytes"], "outcome": oc, "verdict": v})
