"""
C12 - constant expressions evaluate as unbounded-integer arithmetic.

FJInt.tla (unbounded integers on byte limbs) + FJExpr.tla (Eval, the three-stage evaluation Staged, and Render =
fewest parentheses allowed by the precedence / associativity table).  TLC enumerates every tree of the given shapes
(single operators, all ordered operator pairs in both nestings, unary mixes, ternaries) over operand values incl.
negatives and > 64-bit numbers, checks Staged = Eval (the value does not depend on when identifiers are resolved)
and emits tokens, identifier tagging (literal / constant / macro parameter / label) and the value.  The harness
renders a source text (literal notations rotate: decimal, hex, binary, character), assembles it with the real
assembler and reads the value back from probe statements; errors must surface as a library exception.
"""
from __future__ import annotations

import random
import shutil
import tempfile
from pathlib import Path
from typing import Dict, List, Tuple

from fjv import engines, par, tlc
from fjv.core import Check, MachineryFailure

OPS2 = ["+", "-", "*", "/", "%", "<<", ">>", "&", "|", "^", "&&", "||", "<", ">", "<=", ">=", "==", "!=", "**"]
W = 64
NLIMBS = 5            # 320-bit window + sign + bit length


def tla_int(v: int) -> str:
    mag = list(abs(v).to_bytes((abs(v).bit_length() + 7) // 8, "little")) if v else []
    return f'Mk({"TRUE" if v < 0 else "FALSE"}, <<{", ".join(map(str, mag))}>>)'


def expr_cfg(o1s, vals: List[int], small, labelable, shapes, tagpats, maxbytes) -> Tuple[str, Dict[str, str]]:
    q = lambda xs: "{" + ", ".join('"' + x + '"' for x in xs) + "}"  # noqa: E731
    root = f"""---- MODULE MCe ----
EXTENDS MC_FJExpr
Ops2_def == {q(OPS2)}
O1_def == {q(o1s)}
Vals_def == <<{", ".join(tla_int(v) for v in vals)}>>
Tags_def == {{{", ".join("<<" + ", ".join('"' + t + '"' for t in p) + ">>" for p in tagpats)}}}
====
"""
    cfg = f"""SPECIFICATION Spec
CONSTANTS
  Ops2 <- Ops2_def
  O1s <- O1_def
  Ops1 = {{"neg", "~", "#"}}
  Vals <- Vals_def
  SmallVals = {{{", ".join(map(str, small))}}}
  LabelAble = {{{", ".join(map(str, labelable))}}}
  Shapes = {{{", ".join(map(str, shapes))}}}
  TagPatterns <- Tags_def
  MaxBytes = {maxbytes}
  EmitOn = TRUE
INVARIANT StagedEqualsDirect
CONSTRAINT Emit
CHECK_DEADLOCK FALSE
"""
    return cfg, {"MCe": root}


def ival(j: dict) -> int:
    m = int.from_bytes(bytes(j["mag"]), "little")
    return -m if j["neg"] else m


def lit_text(v: int, variant: int) -> str:
    if v < 0:
        return f"(0-{lit_text(-v, variant)})"
    k = variant % 4
    if k == 1:
        return hex(v)
    if k == 2:
        return bin(v)
    if k == 3 and 32 <= v <= 126 and chr(v) not in "'\\\"":
        return f"'{chr(v)}'"
    return str(v)


def render_expr(item: dict, idx: int, names: Dict[int, str]) -> str:
    out = []
    for t in item["toks"]:
        if isinstance(t, list):
            if t[0] == "lit":
                out.append(lit_text(ival(t[1]), idx + len(out)))
            else:
                out.append(names[{"a": 0, "b": 1, "c": 2}[t[1]]])
        else:
            out.append(t)
    return " ".join(out)


def build_program(items: List[Tuple[int, dict]]) -> Tuple[str, Dict[int, int]]:
    """one source text for several expressions; returns (source, first op index per expression id)"""
    consts, macros, body, labels = [], [], [], {}
    opidx = 0
    first_op: Dict[int, int] = {}
    mask = (1 << W) - 1
    for idx, it in items:
        names = {}
        params, args, used_labels = [], [], []
        for k in range(3):
            if (k + 1) not in it["uses"]:
                continue
            tag = it["tags"][k]
            v = ival(it["vals"][k])
            if tag == "const":
                names[k] = f"c{idx}_{k}"
                consts.append(f"{names[k]} = {lit_text(v, idx + k)}")
            elif tag == "param":
                names[k] = f"p{k}"
                params.append(names[k])
                args.append(lit_text(v, idx + k + 1))
            elif tag == "label":
                names[k] = f"L{v}"
                labels[v] = names[k]
                if names[k] not in used_labels:
                    used_labels.append(names[k])
        e = render_expr(it, idx, names)
        probes = [f";(({e}) >> {64 * n}) & {hex(mask)}" for n in range(NLIMBS)]
        probes.append(f";(({e}) < 0) + 2*((({e}) >> {64 * NLIMBS}) == 0) + 4*((({e}) >> {64 * NLIMBS}) == (0-1))")
        probes.append(f";#({e})")
        first_op[idx] = opidx
        opidx += len(probes)
        if params:
            glob = (" < " + ", ".join(used_labels)) if used_labels else ""
            macros.append(f"def e{idx} {', '.join(params)}{glob} {{\n  " + "\n  ".join(probes) + "\n}")
            body.append(f"e{idx} {', '.join(args)}")
        else:
            body += probes
    tail = []
    for v, name in sorted(labels.items()):
        tail.append(f"segment {v}\n{name}:")
    src = "\n".join(consts) + "\n" + "\n".join(macros) + "\n" + "\n".join(body) + "\n" + "\n".join(tail) + "\n"
    return src, first_op


def spell(code: int, variant: int, escapes: Dict[int, str]) -> str:
    """one character of a literal: plain, escape letter, or \\xHH (rotating)"""
    if code in escapes and variant % 2 == 0:
        return "\\" + escapes[code]
    if 32 <= code <= 126 and chr(code) not in "'\\\"" and variant % 3 != 2:
        return chr(code)
    return "\\x%02x" % code


def lit_items(lits: List[dict]) -> List[Tuple[int, dict]]:
    """turn TLC's literal cases into pseudo expression items (one token: the literal text)"""
    out = []
    for i, lc in enumerate(lits):
        esc = {c: l for l, c in lc["escapes"]}
        codes = lc["codes"]
        text = "".join(spell(c, i + k, esc) for k, c in enumerate(codes))
        quoted = f"'{text}'" if len(codes) == 1 and i % 2 == 0 else f'"{text}"'
        out.append((1000000 + i, {"toks": [quoted], "tags": ["lit", "lit", "lit"], "uses": [], "vals": [], "ok": True, "v": lc["v"]}))
        # two string literals in one expression: "s1" + "s2" (value from TLC)
        text2 = "".join(spell(c, i + k + 1, esc) for k, c in enumerate(lc["codes2"]))
        out.append((2000000 + i, {"toks": [f'"{text}"', "+", f'"{text2}"'], "tags": ["lit", "lit", "lit"], "uses": [], "vals": [], "ok": True, "v": lc["pair"]}))
    return out


ASM_BUDGET_S = 40.0


def _assemble_group(args):
    gid, items = args
    par.fjm_run()
    import flipjump
    from flipjump.fjm.fjm_reader import Reader
    from flipjump.utils.exceptions import FlipJumpException

    d = Path(tempfile.mkdtemp(prefix="fjv_c12_"))
    bad = []
    try:
        src, first_op = build_program(items)
        fj = d / "e.fj"
        fj.write_text(src)
        out = d / "e.fjm"
        with engines._Alarm(ASM_BUDGET_S) as alarm:         # every run of the code under test is bounded
            try:
                flipjump.assemble([fj], out, memory_width=W, use_stl=False, print_time=False, warning_as_errors=True)
                err = None
            except FlipJumpException as e:
                err = ("fjexc", type(e).__name__, str(e)[:300])
            except BaseException as e:  # noqa: BLE001
                err = ("raw", type(e).__name__, str(e)[:300])
        if alarm.fired:
            bad.append({"idx": items[0][0], "what": f"assembly did not terminate within {ASM_BUDGET_S} s", "got": err, "source": src[:3000], "item": items[0][1]})
            return bad
        expect_error = any(not it["ok"] for _, it in items)
        if expect_error:
            # error expressions are assembled alone: a library exception is the only acceptable outcome
            if err is None or err[0] != "fjexc":
                bad.append({"idx": items[0][0], "what": "error expression did not raise a library exception", "got": err, "item": items[0][1], "source": src})
            return bad
        if err is not None:
            bad.append({"idx": items[0][0], "what": "assembly of valid expressions failed", "got": err, "source": src[:3000], "item": items[0][1]})
            return bad
        try:
            mem = Reader(out).memory
        except BaseException as e:  # noqa: BLE001      the assembler reported success but its output does not load
            bad.append({"idx": items[0][0], "what": "assembly of valid expressions produced an unreadable file", "got": f"{type(e).__name__}: {e}",
                        "source": src[:3000], "item": items[0][1]})
            return bad
        for idx, it in items:
            v = ival(it["v"])
            o = first_op[idx]
            got_limbs = [mem.get(2 * (o + n) + 1, 0) for n in range(NLIMBS)]
            got_flags = mem.get(2 * (o + NLIMBS) + 1, 0)
            got_bitlen = mem.get(2 * (o + NLIMBS + 1) + 1, 0)
            exp_limbs = [(v >> (64 * n)) & ((1 << 64) - 1) for n in range(NLIMBS)]
            exp_flags = (1 if v < 0 else 0) + 2 * (1 if 0 <= v < (1 << (64 * NLIMBS)) else 0) + 4 * (1 if -(1 << (64 * NLIMBS)) <= v < 0 else 0)
            exp_bitlen = abs(v).bit_length()
            if got_limbs != exp_limbs or got_flags != exp_flags or got_bitlen != exp_bitlen:
                # reconstruct what the assembler computed (when it fits the window)
                gv = sum(l << (64 * n) for n, l in enumerate(got_limbs))
                if got_flags & 1:
                    gv -= 1 << (64 * NLIMBS)
                bad.append({"idx": idx, "what": "value differs", "expr": render_expr(it, idx, {0: "a", 1: "b", 2: "c"}),
                            "expected": str(v), "got": str(gv), "got_bitlen": got_bitlen, "item": it})
    finally:
        shutil.rmtree(d, ignore_errors=True)
    return bad


def run(chk: Check, replay=None):
    quick = chk.tier == "quick"
    rng = random.Random(chk.seed + 12)
    so = str(engines.build_native())
    chk.assumptions += [
        "the precedence / associativity table is the real grammar's (there is no separate documentation of it); Render pins every adjacent pair",
        "expected values leave TLC as sign + magnitude bytes; the harness only slices them into the 64-bit probe words (limbs, sign/window flags, bit length)",
        "shift counts <= 300 and exponents <= 6 (larger ones are not computed by either side)",
    ]
    vals = [-3, 0, 2, 1 << 20, 1 << 63, (1 << 64) + 1, 5, -(1 << 33)]
    labelable = [4, 5]
    small = [1, 2, 3, 7]
    if quick:
        use_vals = vals[:6]
        tagpats = [("lit", "lit", "lit"), ("const", "param", "label"), ("label", "const", "param"), ("param", "label", "lit")]
        shards = [OPS2[i::8] for i in range(8)]
        shapes_pairs, shapes_misc = [2, 3], [1, 4, 5, 6, 7, 8, 9]
        pair_vals = [-3, 0, 2, 1 << 63]
    else:
        use_vals = vals
        tagpats = [("lit", "lit", "lit"), ("const", "param", "label"), ("label", "const", "param"), ("param", "label", "const"),
                   ("label", "label", "lit"), ("param", "param", "param"), ("const", "const", "label"), ("lit", "label", "param")]
        shards = [[o] for o in OPS2]
        shapes_pairs, shapes_misc = [2, 3], [1, 4, 5, 6, 7, 8, 9]
        pair_vals = [-3, 0, 2, 1 << 20, 1 << 63, (1 << 64) + 1]
    jobs = []
    for sh in shards:
        # pairs: fewer operand values; label-able indices recomputed
        lab_p = [i + 1 for i, v in enumerate(pair_vals) if v in (1 << 20, 1 << 63)]
        cfg, extra = expr_cfg(sh, pair_vals, [1, 2, 3], lab_p, shapes_pairs, tagpats[: (2 if quick else 4)], 38)
        jobs.append(("pairs:" + ",".join(sh), dict(module="MCe", cfg_text=cfg, extra_modules=extra, workers=1, heap="3g", timeout=7200)))
        lab_m = [i + 1 for i, v in enumerate(use_vals) if v in (1 << 20, 1 << 63)]
        cfg, extra = expr_cfg(sh, use_vals, small, lab_m, shapes_misc, tagpats, 38)
        jobs.append(("misc:" + ",".join(sh), dict(module="MCe", cfg_text=cfg, extra_modules=extra, workers=1, heap="3g", timeout=7200)))
    results = tlc.run_many([j for _, j in jobs], parallel=16)
    items = []
    for (name, _), res in zip(jobs, results):
        chk.add_tlc(res, f"MC_FJExpr[{name}]", exhaustive=True, trees=len(res.emitted.get("E", [])))
        items += res.emitted.get("E", [])
    chk.configs[:] = [c for c in chk.configs if not c["name"].startswith("MC_FJExpr[")] + [{
        "name": "MC_FJExpr (all shards)", "shards": len(jobs), "distinct": sum(c["distinct"] for c in chk.configs if c["name"].startswith("MC_FJExpr[")),
        "generated": sum(c["generated"] for c in chk.configs if c["name"].startswith("MC_FJExpr[")), "trees": len(items),
        "operators": OPS2 + ["neg", "~", "#", "?:"], "values": [str(v) for v in use_vals], "exhaustive": True}]
    if not items:
        raise MachineryFailure("no trees emitted")
    # literals: characters with every escape, \\xHH, little-endian strings up to 24 characters
    strs = [[c] for c in (0, 7, 8, 9, 10, 11, 12, 13, 27, 34, 39, 63, 92, 65, 48, 126, 32, 255, 128, 1)]
    strs += [[65, 66], [10, 0], [0, 65], [255, 0, 1], [92, 120, 52, 49], [104, 105, 10], [34, 39, 63], list(range(1, 25)), [0, 0, 7], [200] * 9]
    root = "---- MODULE MCl ----\nEXTENDS MC_FJLit\nStr_def == <<" + ", ".join("<<" + ", ".join(map(str, x)) + ">>" for x in strs) + ">>\n====\n"
    lres = tlc.run_tlc("MCl", "SPECIFICATION Spec\nCONSTANTS\n  Strings <- Str_def\nCONSTRAINT Emit\nCHECK_DEADLOCK FALSE\n", extra_modules={"MCl": root}, timeout=600)
    chk.add_tlc(lres, "MC_FJLit", literals=len(strs))
    lits = lit_items(lres.emitted.get("L", []))
    if quick and len(items) > 60000:
        items = rng.sample(items, 60000)
    indexed = list(enumerate(items))
    good = [(i, it) for i, it in indexed if it["ok"]]
    errs = [(i, it) for i, it in indexed if not it["ok"]]
    if quick and len(errs) > 1500:
        errs = rng.sample(errs, 1500)
    good = good + lits
    groups = [good[k:k + 40] for k in range(0, len(good), 40)] + [[e] for e in errs]
    bad_lists = par.pmap(_assemble_group, list(enumerate(groups)), so_path=so, procs=16, chunksize=4)
    chk.traces += len(good) + len(errs)
    chk.extra["trees_replayed"] = len(good)
    chk.extra["error_trees_replayed"] = len(errs)
    chk.sample({"kind": "expression", "tokens": items[0]["toks"], "tags": items[0]["tags"], "value": items[0]["v"]})
    for bl in bad_lists:
        for b in bl:
            chk.violation({"what": b["what"]}, f"{b['what']}: {b.get('expr', '')} expected {b.get('expected')} got {b.get('got')}", b)
