"""
C15 - debugging never changes the program and stops exactly where asked.

FJDebug.tla puts FJMachine under the debugger (pause only in front of an op; step / skip N / continue /
continue-all / quit / reads / no-op commands).  TLC explores, for fixed images, EVERY breakpoint subset and
EVERY command script of bounded length and checks non-interference as an invariant (at every op boundary the
debugged machine equals the undebugged machine after the same number of ops), that pauses happen exactly when
asked and are never missed, and that reads change nothing.  Every terminal behaviour (events the user sees,
final outcome) is emitted and replayed into the real fjm_run.run(breakpoint_handler=...) with the script on
stdin; the transcript is parsed into events and compared for equality.
"""
from __future__ import annotations

import contextlib
import io
import random
import re
import shutil
import sys
import tempfile
from pathlib import Path
from typing import Dict, List, Tuple

from fjv import c01, engines, par, tlc
from fjv.core import Check, MachineryFailure
from fjv.engines import AW, bn, nb


def pick_images(rng: random.Random, fjm_run, count: int, widths=(8, 16)) -> List[dict]:
    """seeded halting images with some IO and at least 3 ops (inputs to TLC, no expected values)."""
    out = []
    tries = 0
    d = Path(tempfile.mkdtemp(prefix="fjv_c15p_"))
    try:
        while len(out) < count and tries < 4000:
            tries += 1
            w = widths[tries % len(widths)]
            case = c01.gen_case(rng, w)
            if len(case["segs"]) > 1 or case["segs"][0][1] > 40:
                continue
            dw = 2 * w
            for wa in list(case["data"]):
                if wa % 2 == 0 and wa < 12 and rng.random() < 0.3:
                    case["data"][wa] = rng.choice([dw, dw + 1])
            case["inp"] = [rng.randrange(2) for _ in range(3)]
            segs = c01.case_segments(case)
            path = d / "p.fjm"
            try:
                engines.write_image(path, w, 1, segs)
            except Exception:  # noqa: BLE001
                continue
            dev = engines.make_device(case["inp"])
            with contextlib.redirect_stdout(io.StringIO()):
                try:
                    st = fjm_run.run(path, io_device=dev, breakpoint_handler=c01._Cut(14), last_ops_debugging_list_length=100)
                except Exception:  # noqa: BLE001
                    continue
            if int(st.termination_cause) == 6 or st.op_counter < 3:
                continue
            ips = list(dict.fromkeys(st.last_ops_addresses))[:5]
            # every third image must end in a memory error (the pause message pre-reads the op's words)
            out.append({"w": w, "segs": [[s, l] for s, l, _ in segs],
                        "data": [[s + i, v] for s, _, dd in segs for i, v in enumerate(dd) if v],
                        "inp": case["inp"], "ips": ips, "_segs": segs, "cause": int(st.termination_cause)})
    finally:
        shutil.rmtree(d, ignore_errors=True)
    if len(out) < count:
        raise MachineryFailure("could not find enough halting images")
    return out


def commands_for(img: dict, rich: bool) -> List[dict]:
    w = img["w"]
    seg_end = (img["segs"][0][0] + img["segs"][0][1]) * w
    cmds = [{"c": "step"}, {"c": "skip", "n": 2}, {"c": "cont"}, {"c": "contall"}, {"c": "quit"}, {"c": "noop"},
            {"c": "read", "kind": "w", "len": 1, "idx": 0, "a": w},            # the first op's jump word
            {"c": "read", "kind": "w", "len": 1, "idx": 0, "a": seg_end},      # just outside the segment
            {"c": "read", "kind": "j", "len": 1, "idx": 1, "a": 0}]
    if rich:
        cmds += [{"c": "skip", "n": 3},
                 {"c": "read", "kind": "w", "len": 1, "idx": 0, "a": w + 1},   # unaligned: bad address
                 {"c": "read", "kind": "h" if w >= 16 else "b", "len": 2, "idx": 1, "a": 0},
                 {"c": "read", "kind": "f", "len": 1, "idx": 2, "a": 2 * w},
                 {"c": "read", "kind": "B" if w >= 16 else "b", "len": 3, "idx": 0, "a": seg_end - 4 * w}]
    return cmds


def tla_val(v) -> str:
    if isinstance(v, bool):
        return "TRUE" if v else "FALSE"
    if isinstance(v, int):
        return str(v)
    if isinstance(v, str):
        return '"' + v + '"'
    if isinstance(v, list):
        return "<<" + ", ".join(tla_val(x) for x in v) + ">>"
    if isinstance(v, dict):
        return "[" + ", ".join(f"{k} |-> {tla_val(x)}" for k, x in v.items() if not k.startswith("_")) + "]"
    raise TypeError(v)


def dbg_cfg(images, commands, max_script, max_bps, max_ops) -> Tuple[str, Dict[str, str]]:
    root = f"""---- MODULE MCdbg ----
EXTENDS MC_FJDebug
Img_def == {tla_val(images)}
Cmd_def == {{{", ".join(tla_val(c) for c in commands)}}}
====
"""
    cfg = f"""SPECIFICATION Spec
CONSTANTS
  Images <- Img_def
  Commands <- Cmd_def
  MaxScript = {max_script}
  MaxBps = {max_bps}
  MaxOps = {max_ops}
  EmitOn = TRUE
INVARIANT NonInterference
PROPERTY PausedOnlyWhenAsked
PROPERTY NoMissedPause
PROPERTY ReadsChangeNothing
CONSTRAINT Emit
CHECK_DEADLOCK FALSE
"""
    return cfg, {"MCdbg": root}


def render(cmd: dict, variant: int) -> str:
    c = cmd["c"]
    if c == "step":
        return ["s", "step", "S"][variant % 3]
    if c == "skip":
        return [f"s {cmd['n']}", f"skip {hex(cmd['n'])}", f"skip {cmd['n']}"][variant % 3]
    if c == "cont":
        return ["c", "cont", "continue"][variant % 3]
    if c == "contall":
        return ["c*", "ca", "continue all"][variant % 3]
    if c == "quit":
        return ["q", "quit", "exit"][variant % 3]
    if c == "noop":
        return ["h", "bogus", "", "s x", "skip 0", "read", "?", "skip -2", "r :b" + "1" * 4301 + ":0", "skip " + "9" * 4301][variant % 10]
    if c == "read":
        a = cmd["a"]
        astr = [str(a), hex(a)][variant % 2]
        if variant % 5 >= 3:
            astr = label_of(a, variant)         # the same address, spelled as one of its labels
        if cmd["kind"] == "w":
            return ["r ", "read "][variant % 2] + astr
        return f"r :{cmd['kind']}{cmd['len']}:{cmd['idx']}:{astr}"
    raise MachineryFailure(str(cmd))


def label_of(a: int, variant: int) -> str:
    """a label of the address: a global one, or one declared inside macro calls (the assembler joins the call path with ':' and '---')"""
    return [f"v{a}", f"f1:l{a % 97}:hex.inc(2)---s18:l131:rep0:hex.inc.step(2)---v{a}"][variant % 2]


def labels_for(script: List[dict], w: int) -> Dict[str, int]:
    out = {"f1": w}                  # a global label that is a prefix (up to the first ':') of the macro-local ones
    for c in script:
        if c["c"] == "read":
            for v in (0, 1):
                out[label_of(c["a"], v)] = c["a"]
    return out


TITLE = re.compile(r"^==== (.*) ====$", re.M)


def parse_transcript(text: str, w: int) -> List[list]:
    events = []
    parts = TITLE.split(text)
    # parts = [pre, title1, body1, title2, body2, ...]
    for i in range(1, len(parts), 2):
        title, body = parts[i], parts[i + 1]
        if title in ("Breakpoint", "Debug Step"):
            m = re.search(r"Address (0x[0-9a-f]+)", body)
            n = re.search(r"(\d+) ops executed", body)
            if not m or not n:
                events.append(["unparsed-pause", body[:80]])
            else:
                events.append(["pause", nb(int(m.group(1), 16), AW), int(n.group(1)), title])
        elif title == "Read Memory":
            m = re.search(r"memory\[0x[0-9a-f]+\] = (\d+)", body)
            events.append(["read", "word", nb(int(m.group(1)), w // 8)] if m else ["unparsed-read", body[:80]])
        elif title == "Reading FlipJump Variable":
            m = re.search(r"memory\[0x[0-9a-f]+, 0x[0-9a-f]+\) = (\d+)", body)
            events.append(["read", "var", int(m.group(1))] if m else ["unparsed-read", body[:80]])
        elif title == "Bad memory address":
            events.append(["read", "bad"])
        elif title == "Read Memory Failure":
            events.append(["read", "fail"])
        elif title == "Invalid memory address.":
            events.append(["read", "unresolvable"])
        elif title in ("Debugger", "Debugger commands"):
            pass
        else:
            events.append(["unknown-box", title])
    return events


def _replay(args):
    idx, beh, img = args
    fjm_run = par.fjm_run()
    from flipjump.interpreter.debugging.breakpoints import BreakpointHandler

    w = img["w"]
    d = Path(tempfile.mkdtemp(prefix="fjv_c15_"))
    bad = []
    try:
        path = d / "p.fjm"
        engines.write_image(path, w, idx % 4, img["_segs"])
        lines = [render(c, idx + k) for k, c in enumerate(beh["script"])]
        handler = BreakpointHandler({int(b): None for b in beh["bps"]}, {}, labels_for(beh["script"], w))
        dev = engines.make_device(img["inp"])
        out = io.StringIO()
        old_stdin = sys.stdin
        sys.stdin = io.StringIO("\n".join(lines) + ("\n" if lines else ""))
        exc = None
        st = None
        try:
            with contextlib.redirect_stdout(out), engines._Alarm(10.0):
                st = fjm_run.run(path, io_device=dev, breakpoint_handler=handler)
        except BaseException as e:  # noqa: BLE001
            exc = f"{type(e).__name__}: {e}"
        finally:
            sys.stdin = old_stdin
        got_events = parse_transcript(out.getvalue(), w)
        exp_events = [list(e) for e in beh["events"]]
        diffs = []
        if exc:
            diffs.append(("exception", exc))
        if got_events != exp_events:
            diffs.append(("events", got_events, exp_events))
        if st is not None:
            cause = engines.CAUSE_NAMES.get(int(st.termination_cause), "?")
            if cause != beh["status"]:
                diffs.append(("cause", cause, beh["status"]))
            if int(st.op_counter) != beh["ops"]:
                diffs.append(("ops", int(st.op_counter), beh["ops"]))
            fa = [] if st.memory_error_address is None else nb(st.memory_error_address, AW)
            if fa != beh["fault"]:
                diffs.append(("fault", fa, beh["fault"]))
        if dev.out != beh["out"]:
            diffs.append(("out", dev.out, beh["out"]))
        if diffs:
            bad.append({"image": {k: v for k, v in img.items() if not k.startswith("_")}, "bps": beh["bps"],
                        "script_lines": lines, "diffs": diffs, "spec": beh})
    finally:
        shutil.rmtree(d, ignore_errors=True)
    return bad


def classify(b) -> dict:
    kinds = sorted(x[0] for x in b["diffs"])
    key = {"clauses": ",".join(kinds)}
    # the documented pre-read defect: the paused op (or its flip target) touches memory outside every segment
    return key


def run(chk: Check, replay=None):
    quick = chk.tier == "quick"
    rng = random.Random(chk.seed + 15)
    so = str(engines.build_native())
    fjm_run = engines.setup(so_path=so)
    chk.assumptions += [
        "images are fixed seeded programs of <= 14 ops at w=8/16; breakpoints are subsets of the addresses the undebugged run executes",
        "commands are rendered in several spellings (s/step, c*/ca/continue all, decimal/hex addresses); transcript boxes are parsed by title",
    ]
    images = pick_images(rng, fjm_run, 4 if quick else 10)
    jobs, metas = [], []
    for k, img in enumerate(images):
        rich = (k % 2 == 1)
        cmds = commands_for(img, rich and not quick)
        ms = 2 if quick else 3
        cfg, extra = dbg_cfg([img], cmds, ms, 2, 16)
        jobs.append(dict(module="MCdbg", cfg_text=cfg, extra_modules=extra, workers=4, heap="6g", timeout=3600))
        metas.append(img)
    results = tlc.run_many(jobs, parallel=4)
    work = []
    for img, res in zip(metas, results):
        chk.add_tlc(res, f"MC_FJDebug[w={img['w']}]", exhaustive=True, behaviours=len(res.emitted.get("G", [])))
        for beh in res.emitted.get("G", []):
            if beh["status"] == "cut":
                continue
            work.append((len(work), beh, img))
    if not work:
        raise MachineryFailure("no debugger behaviours emitted")
    if quick and len(work) > 8000:
        work = rng.sample(work, 8000)
    bad_lists = par.pmap(_replay, work, so_path=so, procs=16, chunksize=16)
    chk.traces += len(work)
    chk.extra["behaviours_replayed"] = len(work)
    chk.sample({"kind": "debugger behaviour", "bps": work[0][1]["bps"], "script": work[0][1]["script"], "events": work[0][1]["events"]})
    for bl in bad_lists:
        for b in bl:
            chk.violation(classify(b), f"debugged run differs from FJDebug: {[x[0] for x in b['diffs']]} (bps {b['bps']}, script {b['script_lines']})", b)
