"""
C11 - the native engine is memory-safe for every image, input and knob.

What a TLA+ specification can and cannot decide here is stated in DESIGN.md: TLC cannot observe an
out-of-bounds access in C.  The check therefore has two parts.
(1) FJCoreMem.tla (the transcribed storage layer) carries the fast path's raw array indices as the ghost
    variable `touched`; AllIndicesInBounds is model-checked exhaustively together with the refinement invariants.
(2) The scenarios TLC generates from that model (geometries x windows x sentinel modes x access scripts, scaled to
    the real constants), the seeded C01/C07 images (ops on window / page / segment edges, top of the address space)
    and adversarial Memory-API scripts (overflowing / huge / thousands of segments, set_words beyond the span,
    get/set at any 64-bit address, re-initialisation, run without segments) are executed in child processes
    against an AddressSanitizer + UndefinedBehaviorSanitizer build of the CURRENT _fjcore.c.  A sanitizer report,
    a signal, or a child that dies is the rejected trace; the observations of the image runs are additionally judged
    by TLC against FJMachine (Trace_FJMachine), so a wild read that happens to stay inside the heap is still caught
    as a wrong value.
"""
from __future__ import annotations

import json
import os
import random
import shutil
import subprocess
import sys
import tempfile
from pathlib import Path
from typing import Dict, List

from fjv import c01, c07, engines, tlc
from fjv.core import Check, MachineryFailure
from fjv.engines import AW, nb

M64 = (1 << 64) - 1


def api_scripts(rng: random.Random, count: int) -> List[dict]:
    """adversarial Memory API call sequences (inputs only; outcomes: return or Python exception)"""
    out = []
    edge = [0, 1, 2, 3, (1 << 14) - 1, 1 << 14, (1 << 14) + 1, 1 << 23, (1 << 23) - 1, 1 << 40, (1 << 58) - 1, 1 << 58,
            (1 << 63), M64 - 1, M64]
    for i in range(count):
        w = rng.choice([8, 16, 32, 64])
        calls: List[list] = [["new", [w], {"flat_max_words": rng.choice([0, 0, 1, 2, 3, 5, 16384, 16385, 1 << 20])}]]
        nseg = rng.choice([0, 1, 2, 3, 5, 40]) if i % 7 else rng.choice([1000, 3000])
        for k in range(nseg):
            r = rng.random()
            if r < 0.5:
                s, ln = rng.choice([0, 2, 4, 64, 1 << 14, (1 << 14) - 2]) + (4 * k if nseg > 5 else 0), rng.choice([2, 4, 6, 1000, 1 << 14])
            elif r < 0.7:
                s, ln = rng.choice(edge), rng.choice([0, 1, 2, 1 << 14, 1 << 40, M64, M64 - 1, (1 << 63)])
            elif r < 0.85:
                s = rng.choice(edge)
                ln = M64 - s + rng.choice([0, 1, 2])            # ends at / wraps past 2^64
            else:
                s, ln = rng.randrange(1 << 64), rng.randrange(1 << 20)
            calls.append(["add_segment", s & M64, ln & M64])
        if rng.random() < 0.8:
            calls.append(["add_segment", 0, rng.choice([2, 4, 8, 3])])
        for _ in range(rng.randint(0, 4)):
            calls.append(["set_words", rng.choice([0, 2, 4, 1 << 14, M64 - 1, M64, (1 << 58) - 1]),
                          [rng.choice([0, 1, (1 << w) - 1, 2 * w, 2 * w + 1, 0xBB67AE8584CAA73B & ((1 << w) - 1)]) for _ in range(rng.choice([0, 1, 2, 4]))]])
        for _ in range(rng.randint(0, 3)):
            calls.append(["set_word", rng.choice(edge), rng.randrange(1 << 64)])
        nrun = rng.choice([0, 1, 1, 2])
        for _ in range(nrun):
            # (the last-ops length is caller-controlled too: huge values must be refused, not wrapped into a small allocation)
            calls.append(["run", {"last_ops_length": rng.choice([0, 0, 1, 3, -5, 1000, 1 << 40, 1 << 61, (1 << 61) + 1, 1 << 62, (1 << 63) - 1])}])
            for _ in range(rng.randint(0, 4)):
                if rng.random() < 0.5:
                    calls.append(["get_word", rng.choice(edge + [rng.randrange(1 << 64)])])
                else:
                    calls.append(["set_word", rng.choice(edge), rng.randrange(1 << 64)])
            if rng.random() < 0.3:
                calls.append(["set_words", rng.choice([0, 2, 5, 1 << 14, M64]), [1, 2, 3]])
            if rng.random() < 0.15:
                calls.append(["add_segment", rng.choice(edge), rng.choice([2, 1 << 14])])
            if rng.random() < 0.15:
                calls.append(["init", [rng.choice([8, 16, 32, 64, 12])], {}])
        out.append({"kind": "api", "id": f"api{i}", "calls": calls})
    return out


def asan_env() -> Dict[str, str]:
    p = subprocess.run(["clang", "-print-file-name=libclang_rt.asan-x86_64.so"], capture_output=True, text=True)
    lib = p.stdout.strip()
    if not lib or not Path(lib).exists():
        raise MachineryFailure("AddressSanitizer runtime not found")
    e = dict(os.environ)
    e["LD_PRELOAD"] = lib
    e["ASAN_OPTIONS"] = "detect_leaks=0:abort_on_error=1:halt_on_error=1:allocator_may_return_null=1:detect_odr_violation=0"
    e["UBSAN_OPTIONS"] = "halt_on_error=1:print_stacktrace=1"
    e["PYTHONPATH"] = str(Path(__file__).resolve().parent.parent)
    e["PYTHONHASHSEED"] = "0"
    e["PYTHONMALLOC"] = "malloc"
    return e


def run_children(items: List[dict], so: str, nproc: int = 16):
    """shard the work over child processes; returns (results by id, crashes [(item, stderr tail)])"""
    scratch = Path(tempfile.mkdtemp(prefix="fjv_c11p_"))
    results: Dict[str, dict] = {}
    crashes = []
    env = asan_env()
    try:
        pending = [items[i::nproc] for i in range(nproc)]
        rounds = 0
        while any(pending) and rounds < 40:
            rounds += 1
            procs = []
            for k, shard in enumerate(pending):
                if not shard:
                    continue
                wp, op, pp, ep = (scratch / f"w{k}.json", scratch / f"o{k}.ndjson", scratch / f"p{k}.txt", scratch / f"e{k}.txt")
                wp.write_text(json.dumps(shard))
                for f in (op, pp):
                    if f.exists():
                        f.unlink()
                procs.append((k, shard, subprocess.Popen([sys.executable, "-m", "fjv.c11_child", so, str(wp), str(op), str(pp)],
                                                         env=env, cwd=str(Path(__file__).resolve().parent.parent), stdout=subprocess.DEVNULL, stderr=open(ep, "w")), op, pp, ep))
            new_pending = [[] for _ in pending]
            for k, shard, p, op, pp, ep in procs:
                try:
                    rc = p.wait(timeout=3000)
                except subprocess.TimeoutExpired:
                    p.kill()
                    rc = -9
                done_ids = set()
                if op.exists():
                    for line in op.read_text().splitlines():
                        try:
                            r = json.loads(line)
                        except json.JSONDecodeError:
                            continue
                        results[r["id"]] = r
                        done_ids.add(r["id"])
                if rc != 0:
                    last = pp.read_text().split()[-1] if pp.exists() and pp.read_text().split() else None
                    err = ep.read_text()[-4000:] if ep.exists() else ""
                    bad = next((it for it in shard if it["id"] == last), None)
                    if bad is None:
                        raise MachineryFailure(f"sanitizer child died before its first item (rc={rc}):\n{err[-1500:]}")
                    crashes.append((bad, rc, err))
                    rest = [it for it in shard if it["id"] not in done_ids and it["id"] != last]
                    new_pending[k] = rest
            pending = new_pending
    finally:
        shutil.rmtree(scratch, ignore_errors=True)
    return results, crashes


def run(chk: Check, replay=None):
    quick = chk.tier == "quick"
    rng = random.Random(chk.seed + 11)
    so = str(engines.build_native(sanitize=True))
    chk.assumptions += [
        "level: model checking of the transcribed guard logic (FJCoreMem!AllIndicesInBounds) + sanitizer-observed replay of TLC-generated scenarios; "
        "NOT a proof of memory safety of the C source",
        "the sanitizer build (clang -fsanitize=address,undefined -fno-sanitize-recover=undefined) of the current _fjcore.c is the observation hook for 'an allocation was overrun'",
    ]
    # (1) model: guards + refinement
    gs = [[(0, 2)], [(0, 4), (6, 8)], [(6, 8), (0, 2)], [(0, 2), (2, 6)]]
    cfg, extra = c07.mc_cfg(gs, [1, 2, 3, 4, 5, 7, 8], 8, 2, emit=False)
    res = tlc.run_tlc("MCcm", cfg, workers=12, extra_modules=extra, heap="12g", timeout=3600)
    chk.add_tlc(res, "FJCoreMem AllIndicesInBounds + refinement (exhaustive)", exhaustive=True)
    # (2) scenarios from the model
    nsim = 120 if quick else 1500
    gs2 = c07.geometries(24, 3, rng, 40 if quick else 150)
    cfg, extra = c07.mc_cfg(gs2, list(range(1, 21)), 24, 6, emit=True, view=False, api=False)
    res = tlc.run_tlc("MCcm", cfg, workers=1, simulate=f"num={nsim}", depth=12, seed=chk.seed + 111, extra_modules=extra, timeout=3600)
    chk.add_tlc(res, "FJCoreMem scenarios (simulation)", behaviours=nsim)
    scen = res.emitted.get("S", [])
    items = []
    meta = {}
    for i, sc in enumerate(scen):
        case = c07.scale_scenario(sc, i)
        segs = c07.scen_segments(case)
        it = {"kind": "image", "id": f"scen{i}", "w": case["w"], "version": case["version"], "segs": [[s, l, dd] for s, l, dd in segs],
              "inp": [], "watch": case["watch"], "engines": [[e, (200 if r == 0 else r)] for e, r in c07.scen_engines(case) if e.startswith("native")]}
        items.append(it)
        meta[it["id"]] = (case["w"], segs, [])
    ncases = 150 if quick else 2500
    gen_engines = [["native-flat", -1], ["native-flat-ring", 70], ["native-paged", -1], ["native-paged-ring", 3], ["native-measured", -1],
                   ["native-hybrid:1", -1], ["native-hybrid:2:ring", 70], ["native-hybrid:3", -1], ["native-hybrid:5:ring", 2],
                   ["native-hybrid:16385", -1]]
    gcases = [c01.gen_case(rng, [8, 16, 32, 64][i % 4]) for i in range(ncases)] + c01.directed_cases()
    for i, case in enumerate(gcases):
        segs = c01.case_segments(case)
        it = {"kind": "image", "id": f"gen{i}", "w": case["w"], "version": case["version"], "segs": [[s, l, dd] for s, l, dd in segs],
              "inp": case["inp"], "watch": c01.case_mem_addrs(case), "engines": gen_engines}
        items.append(it)
        meta[it["id"]] = (case["w"], segs, case["inp"])
    apis = api_scripts(rng, 150 if quick else 3000)
    items += apis
    results, crashes = run_children(items, so)
    chk.extra["items"] = {"scenarios": len(scen), "generated_images": len(gcases), "api_scripts": len(apis)}
    chk.extra["sanitizer_crashes"] = len(crashes)
    for bad, rc, err in crashes:
        kind = "asan" if "AddressSanitizer" in err else "ubsan" if "runtime error" in err else "crash"
        first = next((l for l in err.splitlines() if "ERROR: AddressSanitizer" in l or "runtime error" in l or "SUMMARY" in l), err[-300:])
        chk.violation({"route": "sanitizer", "kind": kind},
                      f"native engine under ASan/UBSan: child died (rc={rc}) on item {bad['id']}: {first[:300]}",
                      {"item": bad, "stderr_tail": err[-3000:]})
    # judge the image observations with TLC
    records = []
    nonhalting = 0
    for it in items:
        if it["kind"] != "image" or it["id"] not in results:
            continue
        r = results[it["id"]]
        if "recs" not in r:
            continue
        w, segs, inp = meta[it["id"]]
        base = {"w": w, "segs": [[nb(s, AW), nb(l, AW)] for s, l, _ in segs],
                "data": [[nb(s + i, AW), nb(v, w // 8)] for s, _, dd in segs for i, v in enumerate(dd) if v], "inp": inp}
        if any(x["obs"]["cause"] == "budget" for x in r["recs"]):
            nonhalting += 1
            continue
        for x in r["recs"]:
            rec = dict(base)
            rec.update(obs=x["obs"], engine=x["engine"], id=it["id"])
            records.append(rec)
    chk.extra["image_records"] = len(records)
    chk.extra["nonhalting_images_skipped"] = nonhalting
    # non-halting generated images run into the 20 s budget: keep the spec bound small instead
    records = [r for r in records if r["obs"]["ops"] <= 200]
    verdicts = c01.validate_records(chk, records, "Trace_FJMachine[sanitized runs]")
    chk.traces += len(records) + len(apis)
    chk.sample({"kind": "api script", "calls": apis[0]["calls"][:8], "log": results.get(apis[0]["id"], {}).get("log", [])[:8]})
    for i, rec in enumerate(records):
        v = verdicts.get(i)
        if v is None:
            raise MachineryFailure(f"no verdict for record {i}")
        if v["fail"]:
            chk.violation(dict(c01.classify_v(rec, v), route="values"),
                          f"sanitized native run {rec['engine']} (w={rec['w']}) rejected by Trace_FJMachine: {v['fail']}; spec {v['spec']}",
                          {"record": rec, "verdict": v})
    # API scripts: every call returned or raised a Python exception (the child survived); run results are sane tuples
    for a in apis:
        r = results.get(a["id"])
        if r is None and not any(b["id"] == a["id"] for b, _, _ in crashes):
            raise MachineryFailure(f"no result for {a['id']}")
