"""
child process of the C11 check: runs under LD_PRELOAD=<asan runtime> with the sanitizer build of _fjcore.c.
argv: <so_path> <work.json> <out.ndjson> <progress file>
work items: {"kind": "image", ...} (an image + engine list, records for Trace_FJMachine)
            {"kind": "api", ...}   (a Memory API script, results to compare with FJCoreMem / to survive)
"""
import json
import os
import sys
import tempfile
from pathlib import Path


def main():
    so_path, work_path, out_path, prog_path = sys.argv[1:5]
    sys.path.insert(0, str(Path(__file__).resolve().parent.parent))
    from fjv import engines, c01, c07

    fjm_run = engines.setup(native=True, so_path=Path(so_path))
    core_mod = sys.modules["flipjump.interpreter._fjcore"]
    from flipjump.utils.exceptions import IOReadOnEOF
    work = json.load(open(work_path))
    d = Path(tempfile.mkdtemp(prefix="fjv_c11_", dir=str(Path(work_path).parent)))     # inside the parent's scratch: removed with it
    with open(out_path, "w") as out, open(prog_path, "w") as prog:
        for item in work:
            prog.write(f"{item['id']}\n")
            prog.flush()
            os.fsync(prog.fileno())
            res = {"id": item["id"], "kind": item["kind"]}
            if item["kind"] == "image":
                w = item["w"]
                path = d / "p.fjm"
                segs = [(s, l, dd) for s, l, dd in item["segs"]]
                try:
                    engines.write_image(path, w, item["version"], segs)
                except Exception as e:  # noqa: BLE001
                    res["skipped"] = f"writer: {type(e).__name__}"
                    out.write(json.dumps(res) + "\n")
                    continue
                recs = []
                for en, ring in item["engines"]:
                    obs = engines.run_engine(fjm_run, path, en, item["inp"], w=w, mem_addrs=item["watch"], budget_s=20.0,
                                             ring_len=ring if ring > 0 else 1)
                    knobs = engines.engine_knobs(en)
                    o = {"cause": obs["cause"], "ops": max(obs["ops"], 0), "fault": obs["fault"], "out": obs["out"],
                         "inused": obs["inused"], "mem": obs["mem"],
                         "hashist": obs["hist"] is not None and bool(knobs.get("ring")), "hist": (obs["hist"] or []) if knobs.get("ring") else [],
                         "ringlen": ring if ring > 0 else 1}
                    if obs["exc"]:
                        o["cause"] = "exception:" + obs["exc"]
                    if obs["budget_fired"]:
                        o["cause"] = "budget"
                    recs.append({"engine": en, "obs": o})
                res["recs"] = recs
            else:
                # Memory API script: every call either returns or raises a Python exception
                log = []
                mem = None
                for call in item["calls"]:
                    name, args = call[0], call[1:]
                    try:
                        if name == "new":
                            mem = core_mod.Memory(*args[0], **args[1])
                            r = "ok"
                        elif name == "run":
                            outbits = []

                            def rd():
                                raise IOReadOnEOF("eof")

                            def wr(b):
                                outbits.append(1 if b else 0)
                            rr = mem.run(rd, wr, IOReadOnEOF, **args[0])
                            r = ["run", rr[0], rr[1], rr[2], list(rr[3])[:8], outbits[:8]]
                        elif name == "init":
                            mem.__init__(*args[0], **args[1])
                            r = "ok"
                        else:
                            r = getattr(mem, name)(*args)
                            if r is None:
                                r = "ok"
                    except BaseException as e:  # noqa: BLE001
                        r = f"exc:{type(e).__name__}"
                    log.append(r)
                res["log"] = log
            out.write(json.dumps(res) + "\n")
            out.flush()
    return 0


if __name__ == "__main__":
    sys.exit(main())
