"""
C20 - the fj command, its split flows and the Python API agree.

FJCli.tla defines Effective(options) (the documented defaults: width 64, version 3 with an output file and 1 otherwise,
standard library unless disabled, lzma preset 6) and RoutesAgree.  TLC enumerates EVERY combination of
-w / -v / --no_stl / -d / --werror / --lzma_preset / -s (with -o) and emits it with its effective options; for every
combination and program the harness runs  `fj ... -o`,  `fj --asm -o` + `fj --run`  and  flipjump.assemble / run,
records the header fields (width, version) and the digest of each .fjm, the program output and the termination, and
TLC judges every record (Trace_FJCli): header = Effective, bytes identical across routes, runs equal.
"""
from __future__ import annotations

import hashlib
import json
import os
import random
import shutil
import struct
import subprocess
import sys
import tempfile
from concurrent.futures import ThreadPoolExecutor
from pathlib import Path
from typing import Dict, List

from fjv import engines, tlc
from fjv.core import Check, MachineryFailure

PROGS = {
    "stl_hello.fj": ("stl", 'N = 5\nstl.startup\n  stl.output "Hi!"\n  stl.output \'0\' + N\n  stl.output \'\\n\'\n  stl.loop\n', b""),
    "stl_const.fj": ("stl", 'N = 3\nM = N + 1\nstl.startup\n  stl.output \'0\' + M\n  stl.loop\n', b""),
    "nostl_hello.fj": ("nostl", None, b""),
    "stl_cat.fj": ("stl", None, b"ab\n"),
    # several files, given in an order that is NOT the alphabetical one, with top-level code in both (the order is the program)
    "multi": ("stl", [("zz_first.fj", 'stl.startup\n  stl.output "one "\n  second_part\n'),
                      ("aa_second.fj", 'def second_part {\n  stl.output "two "\n}\n  stl.output "three\\n"\n  stl.loop\n')], b""),
    # a program of many source files (31): the file list is part of the program
    "many": ("stl", [("main.fj", 'stl.startup\n  stl.output "many"\n  part_07\n  stl.loop\n')]
                    + [("module_%02d.fj" % k, "def part_%02d {\n  stl.output '%s'\n}\n" % (k, chr(97 + k % 26))) for k in range(30)], b""),
}

API_CHILD = r'''
import sys, json, hashlib, io, contextlib, struct
sys.path.insert(0, "@@REPO@@")
import flipjump
from pathlib import Path
from flipjump.fjm.fjm_consts import FJMVersion
from flipjump.interpreter.io_devices.FixedIO import FixedIO
jobs = json.load(open(sys.argv[1]))
res = []
for j in jobs:
    out = Path(j["out"]); r = {"id": j["id"], "ran": True, "ok": False, "w": 0, "version": 0, "digest": "", "out": "", "term": ""}
    try:
        with contextlib.redirect_stdout(io.StringIO()):
            flipjump.assemble([Path(x) for x in j["srcs"]], out, memory_width=j["w"], use_stl=j["stl"], fjm_version=FJMVersion(j["version"]),
                              warning_as_errors=j["werror"], debugging_file_path=(Path(j["dbg"]) if j["dbg"] else None), print_time=False)
        b = out.read_bytes()
        magic, w, ver, cnt = struct.unpack_from("<HHQQ", b, 0)
        dev = FixedIO(bytes(j["inp"]))
        with contextlib.redirect_stdout(io.StringIO()):
            st = flipjump.run(out, io_device=dev, print_time=False, print_termination=False)
        r.update(ok=True, w=w, version=ver, digest=hashlib.sha256(b).hexdigest()[:24], out=dev.get_output(allow_incomplete_output=True).decode("latin-1"),
                 term=str(st.termination_cause))
    except BaseException as e:
        r["err"] = f"{type(e).__name__}: {str(e)[:200]}"
    # the one-call convenience route
    r.update(qs_ran=True, qs_ok=False, qs_out="", qs_term="")
    try:
        dev2 = FixedIO(bytes(j["inp"]))
        with contextlib.redirect_stdout(io.StringIO()):
            st2 = flipjump.assemble_and_run([Path(x) for x in j["srcs"]], memory_width=j["w"], use_stl=j["stl"], fjm_version=FJMVersion(j["version"]),
                                            warning_as_errors=j["werror"], io_device=dev2, print_time=False, print_termination=False)
        r.update(qs_ok=True, qs_out=dev2.get_output(allow_incomplete_output=True).decode("latin-1"), qs_term=str(st2.termination_cause))
    except BaseException as e:
        r["qs_err"] = f"{type(e).__name__}: {str(e)[:200]}"
    res.append(r)
json.dump(res, open(sys.argv[2], "w"))
'''.replace("@@REPO@@", str(engines.REPO))

FJ = [sys.executable, "-c", f"import sys; sys.path.insert(0, {str(engines.REPO)!r}); from flipjump.flipjump_cli import main; main()"]


def cli_args(o: dict) -> List[str]:
    a = []
    if o["w"]:
        a += ["-w", str(o["w"])]
    if o["v"] != 9:
        a += ["-v", str(o["v"])]
    if o["nostl"]:
        # README.md documents the flag as --no-stl, the command's own help as --no_stl: both are the documented spelling
        a += ["--no-stl" if (o["w"] + o["v"] + o["preset"]) % 2 else "--no_stl"]
    if o["werror"]:
        a += ["--werror"]
    if o["preset"] != 99:
        a += ["--lzma_preset", str(o["preset"])]
    return a


def header(path: Path):
    b = path.read_bytes()
    magic, w, ver, cnt = struct.unpack_from("<HHQQ", b, 0)
    return w, ver, hashlib.sha256(b).hexdigest()[:24]


import re
_TIMING = re.compile(r"^  [a-z ]+: +[0-9.]+s\n", re.M)


def parse_run(stdout: str, silent: bool):
    if silent:
        return stdout, ""
    stdout = _TIMING.sub("", stdout)     # '  parsing:   0.002s' ... '  loading memory:  0.000s'

    marker = "\nFinished by "
    k = stdout.rfind(marker)
    if k < 0:
        return stdout, "?"
    term = stdout[k + len(marker):].split(" after")[0]
    # the program's output precedes the report (after the '  running:' line noise is not present with StandardIO)
    return stdout[:k], term


def run_combo(args):
    i, o, prog, kind, text, inp, base = args
    d = Path(base) / f"c{i}_{prog.split('.')[0]}"
    d.mkdir(parents=True, exist_ok=True)
    if isinstance(text, list):
        srcs = []
        for name_, t_ in text:
            (d / name_).write_text(t_)
            srcs.append(str(d / name_))
    else:
        (d / prog).write_text(text)
        srcs = [str(d / prog)]
    env = dict(os.environ, PYTHONHASHSEED="0", PYTHONIOENCODING="latin-1")
    common = cli_args(o)
    sil = ["-s"] if o["s"] else []
    rec = {"opts": o, "prog": prog}
    # one step
    one = {"ok": False, "w": 0, "version": 0, "digest": "", "out": "", "term": ""}
    out1 = d / "one.fjm"
    dbg1 = ["-d", str(d / "one.fjd")] if o["d"] else []
    p = subprocess.run(FJ + srcs + ["-o", str(out1)] + common + sil + dbg1, input=inp, capture_output=True, env=env, cwd=str(d), timeout=300)
    if p.returncode == 0 and out1.exists():
        w, ver, dg = header(out1)
        so = p.stdout.decode("latin-1")
        # non-silent: strip the assemble-stage timing lines that precede the run
        outp, term = parse_run(so, o["s"])
        one = {"ok": True, "w": w, "version": ver, "digest": dg, "out": outp, "term": term}
    else:
        one["err"] = (p.stderr.decode("latin-1")[-300:])
    # two steps
    two = {"ok": False, "w": 0, "version": 0, "digest": "", "out": "", "term": ""}
    out2 = d / "two.fjm"
    dbg2 = ["-d", str(d / "two.fjd")] if o["d"] else []
    p1 = subprocess.run(FJ + ["--asm"] + srcs + ["-o", str(out2)] + common + sil + dbg2, capture_output=True, env=env, cwd=str(d), timeout=300)
    if p1.returncode == 0 and out2.exists():
        p2 = subprocess.run(FJ + ["--run", str(out2)] + sil + dbg2, input=inp, capture_output=True, env=env, cwd=str(d), timeout=300)
        if p2.returncode == 0:
            w, ver, dg = header(out2)
            so = p2.stdout.decode("latin-1")
            outp, term = parse_run(so, o["s"])
            two = {"ok": True, "w": w, "version": ver, "digest": dg, "out": outp, "term": term}
        else:
            two["err"] = p2.stderr.decode("latin-1")[-300:]
    else:
        two["err"] = p1.stderr.decode("latin-1")[-300:]
    rec["one"], rec["two"] = one, two
    rec["apijob"] = {"srcs": srcs, "out": str(d / "api.fjm"), "dbg": str(d / "api.fjd") if o["d"] else "", "inp": list(inp)}
    return rec


def run(chk: Check, replay=None):
    quick = chk.tier == "quick"
    rng = random.Random(chk.seed + 20)
    chk.assumptions += [
        "the default version WITHOUT -o (documented: 1) is not observable from outside the command (the file is temporary) and is not judged",
        "non-silent runs: the termination cause is parsed from 'Finished by <cause> after'; silent runs compare the raw program output",
    ]
    cfg = """SPECIFICATION Spec
CONSTANTS
  Ws = {0, 32, 64}
  Vs = {9, 0, 1, 2, 3}
  Presets = {99, 0, 9}
  EmitOn = TRUE
CONSTRAINT Emit
CHECK_DEADLOCK FALSE
"""
    res = tlc.run_tlc("FJCli", cfg, workers=1, timeout=600)
    chk.add_tlc(res, "FJCli (all option combinations)", exhaustive=True)
    combos = res.emitted.get("O", [])
    if not combos:
        raise MachineryFailure("no option combinations emitted")
    n = 96 if quick else 900
    sel = rng.sample(combos, min(n, len(combos)))
    # always include the explicit -v 0..3 and default-everything rows
    must = [c for c in combos if c["opts"]["w"] == 0 and c["opts"]["preset"] == 99 and not c["opts"]["d"] and not c["opts"]["werror"] and c["opts"]["s"]]
    sel = must + [c for c in sel if c not in must]
    progs = dict(PROGS)
    progs["nostl_hello.fj"] = ("nostl", (engines.REPO / "programs/print_tests/hello_no-stl.fj").read_text(), b"")
    progs["stl_cat.fj"] = ("stl", (engines.REPO / "programs/print_tests/cat.fj").read_text(), b"ab\n")
    base = Path(tempfile.mkdtemp(prefix="fjv_c20_"))
    try:
        work = []
        for i, c in enumerate(sel):
            o = c["opts"]
            names = ["nostl_hello.fj"] if o["nostl"] else [["stl_hello.fj", "stl_cat.fj", "nostl_hello.fj", "stl_const.fj", "multi", "many"][i % 6]]
            for pn in names:
                kind, text, inp = progs[pn]
                work.append((i, o, pn, kind, text, inp, str(base)))
        with ThreadPoolExecutor(max_workers=16) as ex:
            recs = list(ex.map(run_combo, work))
        # the API route: all calls in ONE long-lived interpreter
        jobs = []
        for k, (r, w_) in enumerate(zip(recs, work)):
            e = next(c["eff"] for c in sel if c["opts"] == r["opts"])
            j = dict(r["apijob"], id=k, w=e["w"], version=e["version"], stl=e["stl"], werror=e["werror"])
            jobs.append(j)
        (base / "child.py").write_text(API_CHILD)
        (base / "jobs.json").write_text(json.dumps(jobs))
        p = subprocess.run([sys.executable, str(base / "child.py"), str(base / "jobs.json"), str(base / "api.json")], capture_output=True, text=True, timeout=3000)
        if not (base / "api.json").exists():
            raise MachineryFailure("API child failed: " + p.stderr[-1500:])
        api = {a["id"]: a for a in json.load(open(base / "api.json"))}
    finally:
        shutil.rmtree(base, ignore_errors=True)
    trace = []
    for k, r in enumerate(recs):
        a = api[k]
        a = {x: a[x] for x in ("ran", "ok", "w", "version", "digest", "out", "term", "qs_ran", "qs_ok", "qs_out", "qs_term")}
        # the API reports the cause as 'looping' etc. like the CLI text; silent CLI runs have no cause: blank it on both sides
        one, two = dict(r["one"]), dict(r["two"])
        if r["opts"]["s"]:
            a["term"] = ""
            a["qs_term"] = ""
        for x in (one, two):
            x.pop("err", None)
        trace.append({"opts": r["opts"], "one": one, "two": two, "api": a})
    scratch = Path(tempfile.mkdtemp(prefix="fjv_c20t_"))
    try:
        tf = scratch / "t.json"
        tf.write_text(json.dumps(trace))
        vres = tlc.run_tlc("Trace_FJCli", "SPECIFICATION Spec\nCONSTRAINT Verdict\nCHECK_DEADLOCK FALSE\n", workers=1, env={"TRACE_FILE": str(tf)}, timeout=1200)
    finally:
        shutil.rmtree(scratch, ignore_errors=True)
    chk.add_tlc(vres, "Trace_FJCli", records=len(trace))
    verdicts = {v["tid"] - 1: v for v in vres.emitted.get("V", [])}
    chk.traces += len(trace)
    chk.extra["combinations_total"] = len(combos)
    chk.extra["combinations_run"] = len(sel)
    chk.extra["records"] = len(trace)
    chk.sample({"kind": "cli record", "record": trace[0]})
    for k, t in enumerate(trace):
        v = verdicts.get(k)
        if v is None:
            raise MachineryFailure(f"no verdict for record {k}")
        if v["fail"]:
            chk.violation({"clauses": ",".join(sorted(v["fail"]))},
                          f"options {cli_args(t['opts'])} program {recs[k]['prog']}: routes disagree / defaults wrong: {v['fail']}; effective per FJCli {v['eff']}; "
                          f"one={recs[k]['one']} two={recs[k]['two']} api={api[k]}",
                          {"opts": t["opts"], "prog": recs[k]["prog"], "one": recs[k]["one"], "two": recs[k]["two"], "api": api[k], "verdict": v})
