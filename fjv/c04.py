"""
C04 - hex library macros compute their documented function for every operand.

StlSem.tla holds one semantic action per documented hex macro (transcribed from the documentation line above its
`def`), on unbounded integers, with the frame condition (only the low n digits of the documented destinations change)
and the carry flags.  The arena (fjv/arena.py) assembles one program with a block per macro instance; behaviours
(sequences of macro applications on shared variables, operands overwritten by the environment before each step) are
executed at native speed; TLC (Trace_Stl) computes the prescribed state after every step and the harness compares
every variable, the branch taken, the carries and the library's hidden cells (which must be back at rest).
"""
from __future__ import annotations

import random
from typing import List

from fjv import engines
from fjv.arena import Arena, Block
from fjv.core import Check, MachineryFailure
from fjv.stl_common import assemble_blaming, compare, oracle, run_behaviours

VARS = ["x", "y", "z", "t", "u"]
ND = 18


def hex_blocks(rng: random.Random, sizes: List[int], w: int, big_divs=((10, 2),)) -> List[Block]:
    B: List[Block] = []

    def add(key, fj, nv, n=0, m=0, sh=0, c=0, branches=(), name=None):
        vs = rng.sample(VARS, nv)
        B.append(Block(key, fj, vs, n, m, sh, c, branches, name or fj.split(" ")[0]))

    for n in sizes:
        top = 16 ** n
        add("zero", "hex.zero {n}, {v0}", 1, n)
        add("mov", "hex.mov {n}, {v0}, {v1}", 2, n)
        add("xor_by", "hex.xor_by {n}, {v0}, {c}", 1, n, c=rng.randrange(top))
        add("set", "hex.set {n}, {v0}, {c}", 1, n, c=rng.randrange(top))
        add("swap", "hex.swap {n}, {v0}, {v1}", 2, n)
        add("xor", "hex.xor {n}, {v0}, {v1}", 2, n)
        add("xor_zero", "hex.xor_zero {n}, {v0}, {v1}", 2, n)
        add("not", "hex.not {n}, {v0}", 1, n)
        add("or", "hex.or {n}, {v0}, {v1}", 2, n)
        add("and", "hex.and {n}, {v0}, {v1}", 2, n)
        add("inc", "hex.inc {n}, {v0}", 1, n)
        add("dec", "hex.dec {n}, {v0}", 1, n)
        add("neg", "hex.neg {n}, {v0}", 1, n)
        add("abs", "hex.abs {n}, {v0}", 1, n)
        add("add", "hex.add {n}, {v0}, {v1}", 2, n)
        add("sub", "hex.sub {n}, {v0}, {v1}", 2, n)
        add("add_constant", "hex.add_constant {n}, {v0}, {c}", 1, n, c=rng.choice([0, 1, 15, 16, 0x100, rng.randrange(top)]) % top)
        add("sub_constant", "hex.sub_constant {n}, {v0}, {c}", 1, n, c=rng.choice([0, 1, 15, 16, 0x100, rng.randrange(1, top)]) % top)
        add("shl_bit", "hex.shl_bit {n}, {v0}", 1, n)
        add("shr_bit", "hex.shr_bit {n}, {v0}", 1, n)
        add("shl", "hex.shl_hex {n}, {v0}", 1, n, sh=1, name="hex.shl_hex(2)")
        add("shr", "hex.shr_hex {n}, {v0}", 1, n, sh=1, name="hex.shr_hex(2)")
        t = rng.randrange(0, n + 1)
        add("shl", "hex.shl_hex {n}, {sh}, {v0}", 1, n, sh=t, name="hex.shl_hex(3)")
        add("shr", "hex.shr_hex {n}, {sh}, {v0}", 1, n, sh=rng.randrange(0, n + 1), name="hex.shr_hex(3)")
        add("if", "hex.if {n}, {v0}, {l0}, {l1}", 1, n, branches=("l0", "l1"))
        add("if0", "hex.if0 {n}, {v0}, {l0}", 1, n, branches=("l0",))
        add("if1", "hex.if1 {n}, {v0}, {l1}", 1, n, branches=("l1",))
        add("sign", "hex.sign {n}, {v0}, {neg}, {zpos}", 1, n, branches=("neg", "zpos"))
        add("cmp", "hex.cmp {n}, {v0}, {v1}, {lt}, {eq}, {gt}", 2, n, branches=("lt", "eq", "gt"))
        add("scmp", "hex.scmp {n}, {v0}, {v1}, {lt}, {eq}, {gt}", 2, n, branches=("lt", "eq", "gt"))
        add("min", "hex.min {n}, {v0}, {v1}, {v2}", 3, n)
        add("max", "hex.max {n}, {v0}, {v1}, {v2}", 3, n)
        add("mul10", "hex.mul10 {n}, {v0}", 1, n)
        add("add_mul", "hex.add_mul {n}, {v0}, {v1}, {v2}", 3, n)
        add("count_bits", "hex.count_bits {n}, {v0}, {v1}", 2, n, m=((4 * n).bit_length() + 3) // 4)
        if n <= 8:
            add("mul", "hex.mul {n}, {v0}, {v1}, {v2}", 3, n)
            # in place (x *= y): the result variable is also the first factor; the documentation sets no restriction on it
            va, vb = rng.sample(VARS, 2)
            B.append(Block("mul", "hex.mul {n}, {v0}, {v1}, {v2}", [va, va, vb], n, name="hex.mul[res=a]"))
        if n >= 2:
            sn = rng.randrange(1, n)
            add("sign_extend", "hex.sign_extend {n}, {m}, {v0}", 1, n, m=sn)
            shf = rng.randrange(0, n - sn + 1)
            add("add_shifted", "hex.add_shifted {n}, {m}, {v0}, {v1}, {sh}", 2, n, m=sn, sh=shf)
            add("sub_shifted", "hex.sub_shifted {n}, {m}, {v0}, {v1}, {sh}", 2, n, m=sn, sh=rng.randrange(0, n - sn + 1))
            # the shifted source may reach beyond the destination (src_n + hex_shift > dst_n): the result is taken mod 16^dst_n
            add("add_shifted", "hex.add_shifted {n}, {m}, {v0}, {v1}, {sh}", 2, n, m=rng.randrange(1, n + 1), sh=rng.randrange(1, n + 1))
            add("sub_shifted", "hex.sub_shifted {n}, {m}, {v0}, {v1}, {sh}", 2, n, m=rng.randrange(1, n + 1), sh=rng.randrange(1, n + 1))
        if n <= 4:
            nb = rng.randrange(1, n + 1)
            add("div", "hex.div {n}, {m}, {v0}, {v1}, {v2}, {v3}, {div0}", 4, n, m=nb, branches=("div0",))
    for (dn, dnb, ro) in ((2, 2, 0), (2, 1, 1), (3, 2, 2), (2, 2, 2), (1, 1, 0), (4, 2, 1)):
        if dn in sizes or dn <= max(sizes):
            add("idiv", "hex.idiv {n}, {m}, {v0}, {v1}, {v2}, {v3}, {div0}, {sh}", 4, dn, m=dnb, sh=ro, branches=("div0",), name=f"hex.idiv[rem_opt={ro}]")
    # a division with a long dividend (its loop counter needs more than one hex)
    for (dn, dnb) in big_divs:
        add("div", "hex.div {n}, {m}, {v0}, {v1}, {v2}, {v3}, {div0}", 4, dn, m=dnb, branches=("div0",), name=f"hex.div[n={dn}]")
    # single-hex macros (the carry is part of their documented behaviour)
    add("add1", "hex.add {v0}, {v1}", 2, 1, name="hex.add(2)")
    add("sub1", "hex.sub {v0}, {v1}", 2, 1, name="hex.sub(2)")
    add("zero", "hex.zero {v0}", 1, 1, name="hex.zero(1)")
    add("mov", "hex.mov {v0}, {v1}", 2, 1, name="hex.mov(2)")
    add("xor", "hex.xor {v0}, {v1}", 2, 1, name="hex.xor(2)")
    add("or", "hex.or {v0}, {v1}", 2, 1, name="hex.or(2)")
    add("and", "hex.and {v0}, {v1}", 2, 1, name="hex.and(2)")
    add("not", "hex.not {v0}", 1, 1, name="hex.not(1)")
    add("swap", "hex.swap {v0}, {v1}", 2, 1, name="hex.swap(2)")
    add("cmp", "hex.cmp {v0}, {v1}, {lt}, {eq}, {gt}", 2, 1, branches=("lt", "eq", "gt"), name="hex.cmp(5)")
    add("if", "hex.if {v0}, {l0}, {l1}", 1, 1, branches=("l0", "l1"), name="hex.if(3)")
    add("if_flags", "hex.if_flags {v0}, {c}, {l0}, {l1}", 1, 1, c=rng.randrange(1 << 16), branches=("l0", "l1"))
    add("inc1h", "hex.inc1 {v0}, {c0}, {c1}", 1, 1, branches=("c0", "c1"))
    add("dec1h", "hex.dec1 {v0}, {c0}, {c1}", 1, 1, branches=("c0", "c1"))
    add("double_xor", "hex.double_xor {v0}, {v1}, {v2}", 3, 1)
    for n in sizes[:3]:
        add("add_count_bits", "hex.add_count_bits {n}, {v0}, {v1}", 2, n)
    # the carry flags themselves (c: 0 = the add carry, 1 = the sub borrow; m: clear / clear with branch / not / set)
    for c, ns in ((0, "add"), (1, "sub")):
        B.append(Block("carry_op", f"hex.{ns}.clear_carry", [], 1, 0, 0, c, (), f"hex.{ns}.clear_carry(0)"))
        B.append(Block("carry_op", f"hex.{ns}.clear_carry {{c0}}, {{c1}}", [], 1, 1, 0, c, ("c0", "c1"), f"hex.{ns}.clear_carry(2)"))
        B.append(Block("carry_op", f"hex.{ns}.not_carry", [], 1, 2, 0, c, (), f"hex.{ns}.not_carry"))
        B.append(Block("carry_op", f"hex.{ns}.set_carry", [], 1, 3, 0, c, (), f"hex.{ns}.set_carry"))
    return B


def gen_value(rng: random.Random, n: int) -> int:
    """an ND-digit value whose low n digits are interesting"""
    top = 16 ** max(n, 1)
    low = rng.choice([0, 1, top - 1, top // 2, top // 2 - 1, top // 16, rng.randrange(top), rng.randrange(top), 10, 9, 0xA, rng.randrange(min(top, 256))]) % top
    high = rng.randrange(16 ** (ND - n)) if rng.random() < 0.8 else 0
    return high * top + low


def all_pairs(rng: random.Random, blocks: List[Block], limit: int) -> List[List[dict]]:
    """every ordered pair of macro instances (stale state of the first must not leak into the second); the second
    step's operands are overwritten, so its result only depends on hidden state the first one left behind"""
    idx = [(a, b) for a in range(len(blocks)) for b in range(len(blocks))]
    if len(idx) > limit:
        idx = rng.sample(idx, limit)
    out = []
    for a, b in idx:
        s0 = {"block": a, "set": {v: gen_value(rng, blocks[a].n) for v in VARS}}
        s1 = {"block": b, "set": {v: gen_value(rng, blocks[b].n) for v in blocks[b].v}}
        out.append([s0, s1])
    return out


def gen_behaviours(rng: random.Random, blocks: List[Block], count: int, maxlen: int) -> List[List[dict]]:
    out = []
    for i in range(count):
        beh = []
        ln = rng.choice([1, 2, 2, 3, maxlen]) if maxlen > 3 else rng.randint(1, maxlen)
        for k in range(ln):
            bi = (i + k * 7) % len(blocks) if k == 0 else rng.randrange(len(blocks))
            blk = blocks[bi]
            st = {"block": bi, "set": {}}
            # the environment overwrites the operands of the macro (all variables on the first step)
            for v in (VARS if k == 0 else [x for x in blk.v if rng.random() < 0.6]):
                st["set"][v] = gen_value(rng, blk.n)
            beh.append(st)
        out.append(beh)
    return out


def run_width(chk: Check, fjm_run, w: int, sizes: List[int], nbeh: int, maxlen: int, rng: random.Random, engine: str = "native-flat", npairs: int = 0):
    blocks = hex_blocks(rng, sizes, w)
    arena, blocks = assemble_blaming(chk, lambda bl: Arena(fjm_run, w, "hex", VARS, ND, bl, engine=engine), blocks, f"hex w={w}")
    try:
        behs = gen_behaviours(rng, blocks, nbeh, maxlen) + all_pairs(rng, blocks, npairs)
        expected = oracle(chk, 16, VARS, blocks, behs, f"StlSem[hex w={w}]")
        results, broken = run_behaviours(arena, behs)
        n = compare(chk, arena, behs, results, broken, expected, blocks, f"hex w={w} {engine}")
        chk.traces += len(behs)
        chk.extra.setdefault("steps_compared", 0)
        chk.extra["steps_compared"] += n
        chk.extra.setdefault("arenas", []).append({"w": w, "engine": engine, "blocks": len(blocks), "assemble_s": round(arena.asm_seconds, 1),
                                                   "macros": sorted({b.name for b in blocks}), "behaviours": len(behs)})
        if behs:
            chk.sample({"kind": "behaviour", "w": w, "steps": [{"macro": blocks[s["block"]].fj, "n": blocks[s["block"]].n, "set": {k: hex(v) for k, v in s["set"].items()}} for s in behs[0]]})
    finally:
        arena.close()


def run(chk: Check, replay=None):
    quick = chk.tier == "quick"
    rng = random.Random(chk.seed + 4)
    so = str(engines.build_native())
    fjm_run = engines.setup(so_path=so)
    chk.assumptions += [
        "StlSem.tla is a transcription of the documentation lines of the hex macros; operands of one call are distinct variables, except in the blocks named with [..] (hex.mul[res=a]: in-place call, KF-10)",
        "behaviours start from the library's rest state (the hidden cells snapshotted right after the init macros)",
    ]
    if quick:
        run_width(chk, fjm_run, 64, [1, 2, 4], 500, 4, rng, npairs=9000)
        run_width(chk, fjm_run, 32, [1, 3], 300, 4, rng, npairs=1500)
    else:
        run_width(chk, fjm_run, 64, [1, 2, 3, 4, 8, 16, 17], 6000, 12, rng, npairs=60000)
        run_width(chk, fjm_run, 32, [1, 2, 4, 7, 16], 4000, 12, rng, npairs=30000)
        run_width(chk, fjm_run, 64, [1, 2, 5], 1500, 6, rng, engine="fast")
        run_width(chk, fjm_run, 32, [1, 2], 300, 4, rng, engine="featured")
