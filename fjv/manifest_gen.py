"""writes /verif/MANIFEST.json from the table below (run: python -m fjv.manifest_gen)."""
import json
from pathlib import Path

VERIF = Path(__file__).resolve().parent.parent

CLAIMED = {
    "C01": dict(
        text="TLC explores FJMachine.tla exhaustively at w=8 (every image over boundary-carrying word alphabets x inputs, "
             "six sub-steps per op, all invariants/action properties) and every terminal state is replayed into all engine "
             "configurations for equality; generated w=8/16/32/64 images are run on all engines and every observation is "
             "judged by TLC against the same specification (Trace_FJMachine), incl. directed layouts (top of the address space, "
             "self-referential ops that jump to themselves and flip a bit of / next to themselves at every alignment) and the profile "
             "counters (flips, jumps) of the featured loop.",
        note="Trusted: FJMachine.tla as transcription of the machine definition; TLC; the harness device/recorder. "
             "Bounded: exhaustive part is w=8 with <=6 data words; other widths by seeded generation. Non-halting runs are cut.",
        ref="DESIGN.md section 2 (C01)",
        technique="TLA+ spec + TLC exhaustive model checking; two-way conformance (spec->code replay, code->spec trace validation by TLC)"),
}

CLAIMED["C07"] = dict(
    text="FJCoreMem.tla (the native storage layer: flat window, sentinels, pages with one fast valid range, API routing) is "
         "model-checked exhaustively at page size 4 to REFINE the abstract FlipJump memory for every geometry x window x sentinel "
         "mode x access pair; TLC-simulated scenarios of the same model are scaled to the real constants (2^14-word pages, far pages at "
         "2^40..2^57 words, magic fill value) and run on every engine / window / forced-paged / ring-length / measurement configuration; "
         "every observation incl. last-ops list and final memory is judged by TLC against FJMachine, which has no notion of layout. "
         "Files the Reader loads but no Writer produces (one table entry of a legal file patched to an odd start / odd length, ops entered on the "
         "last words of that segment, flips into pages sharing a cache slot) are run on every configuration and judged on the patched geometry.",
    note="Trusted: FJCoreMem.tla as a transcription of the C routing; the scaling map; TLC. Bounded: model page size 4, <=3 segments; "
         "real runs are the scaled scenarios and seeded generated images, not all images. FX-9 (paged loop used another page's valid range) was found and repaired here.",
    ref="DESIGN.md section 2 (C07)",
    technique="TLA+ refinement check with TLC (FJCoreMem => abstract memory) + scaled replay of TLC-generated scenarios judged by TLC trace validation against FJMachine")

CLAIMED["C17"] = dict(
    text="FJDevices.tla models FixedIO/StandardIO (byte buffers) and KeyboardIO (polling protocol, stable tic order) with "
         "implementation-shaped state; TLC checks exhaustively, over all call sequences of bounded length x input strings x event "
         "scripts, that collected output is the LSB-first packing of the written bits with incompleteness reported, reads are the "
         "input's bits with EOF exactly after the last, and the keyboard stream is the protocol's; every maximal behaviour is replayed "
         "call by call into the real FixedIO, StandardIO (verbose/quiet) and KeyboardIO (list and from_text) objects and every result compared.",
    note="Trusted: FJDevices.tla's declarative definitions (Pack, BitsOfBytes, KbdStream); TLC. Bounded: call sequences <= 12-16 writes, "
         "<= 28 reads, <= 100 keyboard reads, 6 event scripts, 5 input strings. StandardIO is driven through a latin-1 text wrapper.",
    ref="DESIGN.md section 2 (C17)",
    technique="TLA+ spec + TLC exhaustive model checking of all bounded call sequences; spec->code replay with per-call result equality")

CLAIMED["C18"] = dict(
    text="FJMachineFaults.tla adds a device that raises at its k-th call (library IO error, end-of-input exception raised from a write, "
         "foreign exception, KeyboardInterrupt) to the six-sub-step machine and prescribes the caller-visible outcome and the state at the "
         "stop; TLC checks StopIsConsistent exhaustively at w=8 over every image x input x k x kind and every stop is replayed on every engine "
         "configuration (outcome class, exception identity/cause, device-side call record, output, op count, last-ops list, post-stop memory); "
         "generated IO-heavy images at all widths are judged record by record by TLC (Trace_FJFaults). Real interrupts: a signal raising "
         "KeyboardInterrupt is delivered at seeded times into non-terminating programs whose state recurs, on every engine configuration; TLC "
         "(Trace_FJPeriodic) steps the machine through prefix and period, reduces the reported op count K into that window (any K is accepted) and "
         "classifies the observation: the state after K ops / cut inside op K+1 (every component is that of some sub-step) / neither.",
    note="Trusted: FJMachineFaults.tla; the harness's faulty device; SIGALRM standing in for SIGINT. When an exception propagates, op count and "
         "last-ops list are not observable. Interrupts that arrive outside the run loop (file loading, teardown) are not judged. Known findings: "
         "KF-2 (native: empty last-ops list on interrupt), KF-6 (Python loops can be cut inside an op by a real signal; racy).",
    ref="DESIGN.md section 2 (C18)",
    technique="TLA+ spec with fault-injection actions + TLC exhaustive model checking; spec->code replay and TLC trace validation of recorded fault runs")

CLAIMED["C19"] = dict(
    text="FJMachineDev.tla adds device word / packed-byte reads and writes (program words inside segments, a device-private shadow outside) "
         "to the machine's IO sub-steps; scripted devices are run on every engine and storage mode and TLC judges the value of every device "
         "read, the outcome and the final memory (Trace_FJMachineDev). FJScreen.tla models the screen's command decoder one byte per action; "
         "TLC explores all sequences of <=3 commands over an alphabet of valid and malformed commands (every prefix = truncation) and the real "
         "InMemoryScreen is compared with the specification's state after every byte at w=16/32/64, attached and unattached; streams also change "
         "the program memory BETWEEN commands that read the same place (the device must read memory when the command arrives). End to end: programs "
         "whose ops hold the packed bytes and whose code prints a command stream run with the real screen as IO device on 8 engine configurations; "
         "the screen must equal FJScreen's state for that stream and the run itself is judged by Trace_FJMachine.",
    note="Trusted: FJMachineDev.tla / FJScreen.tla as transcriptions of the documented layouts; TLC; the harness devices. Bounded: device "
         "scripts of <=6 callbacks x <=3 accesses on seeded images; screen streams of <=3 commands; device addresses inside the width's address space.",
    ref="DESIGN.md section 2 (C19)",
    technique="TLA+ specs + TLC: exhaustive exploration of screen command streams with per-byte spec->code comparison; TLC trace validation of recorded device-memory runs on all engines")

CLAIMED["C15"] = dict(
    text="FJDebug.tla puts FJMachine under the debugger (pauses only in front of an op; step, skip N, continue, continue-all, quit, reads of "
         "words / flip / jump words / bit, hex and byte vectors, no-op commands). For fixed seeded images TLC explores EVERY breakpoint subset x "
         "EVERY command script of bounded length and checks non-interference as an invariant (the debugged machine equals the undebugged machine "
         "after the same number of ops at every op boundary), pauses exactly when asked and never missed, reads change nothing; every terminal "
         "behaviour is replayed into fjm_run.run(breakpoint_handler=...) with the script on stdin and the parsed transcript, outcome, op count, "
         "fault address and device output are compared for equality.",
    note="Trusted: FJDebug.tla; the transcript parser (box titles, 'Address 0x..', 'N ops executed', 'memory[..] = v'). Bounded: 4-10 images of <=14 ops "
         "at w=8/16, <=2 breakpoints, scripts of <=2 (quick) / <=3 (thorough) commands over a 9-14 command alphabet. Label/substring breakpoint resolution is C16's.",
    ref="DESIGN.md section 2 (C15)",
    technique="TLA+ spec + TLC exhaustive model checking (non-interference invariant over all scripts and breakpoint sets) + spec->code replay of every behaviour")

CLAIMED["C06"] = dict(
    text="FJMFormat.tla defines the writer's acceptance rule (what the format can represent), the exact file bytes of versions 0-2 "
         "(version 3: an opaque injective codec) and the reader's decoding incl. relative-jump re-basing on limb numbers; TLC checks RoundTrip "
         "(Decode(FileBytes(calls)) = ExpectedImage(calls)) and the torn-prefix property exhaustively over bounded writer call sequences at "
         "w=8/16 x versions 0-2; every emitted sequence is performed on the real Writer (per-call accept/refuse, byte-exact file, version 3 "
         "alongside 2) and read back; generated sequences at all widths are judged record by record by TLC (Trace_FJMFormat): acceptance, bytes, "
         "loaded segments, every loaded word, zero tails, invalidity outside segments. Round trips of 1.35M-word segments (beyond the 8 MiB LZMA "
         "dictionary) at several presets are judged through digests (Trace_FJMScale).",
    note="Trusted: FJMFormat.tla; TLC; LZMA treated as opaque. Bounded: exhaustive part <=3 segments, <=6 data words at w=8/16; other widths, "
         "high addresses, zero tails and out-of-range arguments by seeded generation.",
    ref="DESIGN.md section 2 (C06/C10)",
    technique="TLA+ spec of writer/file/reader + TLC exhaustive model checking (round trip as invariant) + spec->code replay and TLC trace validation of recorded writer sequences")
CLAIMED["C10"] = dict(
    text="Same FJMFormat.tla. (A) every writer sequence TLC emits is written by the real Writer and cut at EVERY byte offset: each strict prefix "
         "must raise the read error or load exactly the same image, and for versions 0-2 only the prefixes TLC lists as decodable may be accepted "
         "(TornPrefixRejectedOrSame is an invariant of the spec). (B) single-field corruptions of every header/table field at every width/version, "
         "payload damage, appended/removed bytes and random strings are opened with the real Reader; TLC judges each outcome against Decode "
         "(the WellFormed obligations); any other exception, a hang (20 s) or an allocation out of proportion to the file size is a violation.",
    note="Trusted: FJMFormat!Decode as the definition of a consistent file; the version-3 payload is decompressed by the harness as an oracle about "
         "the input. 'For all byte strings' is sampled: structured corruptions are enumerated, the unstructured rest is seeded random.",
    ref="DESIGN.md section 2 (C06/C10)",
    technique="TLA+ spec + TLC (torn-prefix invariant over all cut points) + exhaustive cut replay and TLC-judged reader outcomes on corrupted/random byte strings")

CLAIMED["C11"] = dict(
    text="Limited level, stated plainly: TLC cannot observe an out-of-bounds access in C. (1) FJCoreMem.tla carries the raw array indices of the "
         "native fast path as a ghost variable and AllIndicesInBounds is model-checked exhaustively with the refinement invariants (transcribed guard logic). "
         "(2) the scenarios TLC generates from that model (scaled to real constants), seeded images with ops on window/page/segment edges and the top of the "
         "address space, and adversarial Memory-API scripts (overflowing, huge, thousands of segments; set_words beyond the span; any 64-bit address; re-init; "
         "run without segments) are executed in child processes against an ASan+UBSan build of the CURRENT _fjcore.c: a sanitizer report, signal or dead "
         "child is the rejected trace, and every image observation is additionally judged by TLC against FJMachine (wrong values without a report are caught).",
    note="NOT a proof of memory safety of the C source. Trusted: clang's sanitizers as the observation hook; the transcription in FJCoreMem.tla. "
         "Ownership of Python objects (reference counts) is only exercised, not checked, apart from crashes.",
    ref="DESIGN.md section 2 (C11) and section 3",
    technique="TLC model checking of transcribed index guards + sanitizer-observed replay of TLC-generated scenarios, values judged by TLC trace validation")

CLAIMED["C12"] = dict(
    text="FJInt.tla defines unbounded integers on byte limbs (floor division/modulo, arithmetic shifts, bitwise operators on infinite two's "
         "complement, power, bit length); FJExpr.tla defines Eval, the assembler's three evaluation stages (constants at parse, parameters at "
         "expansion, labels at the end; every all-literal node folded) and Render = fewest parentheses the precedence/associativity table allows. "
         "TLC enumerates every tree of nine shapes (each operator, ALL ordered operator pairs in both nestings, unary mixes, ternaries) over operand "
         "values incl. negatives and >64-bit numbers, checks Staged = Eval as an invariant, and emits tokens, identifier tagging (literal/constant/"
         "parameter/label) and value; the harness renders sources (decimal/hex/binary/char notations rotate; plus character escapes, \\xHH and "
         "little-endian strings), assembles them with the real assembler and reads the values back through probe statements; error trees must raise.",
    note="Trusted: FJInt/FJExpr as the definition of unbounded-integer arithmetic and of the precedence table (taken from the grammar; no separate "
         "documentation exists); the probe slicing (>>, &, ==, #) is itself part of what is pinned. Bounded: trees with <=2 binary operators, 6-8 operand values, "
         "shift counts <=300, exponents <=6, results below 2^304.",
    ref="DESIGN.md section 2 (C12)",
    technique="TLA+ arithmetic/evaluation spec + TLC exhaustive enumeration of expression trees (stage-independence invariant) + spec->code replay through the real assembler")

CLAIMED["C02"] = dict(
    text="FJAsm.tla defines pass 1 of the primitive language (addresses of statements and labels, $, pad alignment, reserve pieces, segments, "
         "Possible) on unbounded integers and states pass 2 as CONSTRAINTS on the image - Denotes (every op holds its operand values), WFlipWalk "
         "(walking a wflip statement from its own address flips exactly the set bits of v in word a, each once, in max(1,popcount) ops and arrives "
         "at r), AuxClear (auxiliary ops never overlap user statements or reserved space), ReservedZero, LabelsExact - without fixing a placement "
         "policy. Seeded programs at w=8/16/32/64 x fjm versions 0-3 (labels, $, wflips with shared returns, pads, reserves, far segments, "
         "deliberately impossible layouts) are assembled by the real assembler and TLC judges the loaded image, the label table and accept/reject "
         "(Trace_FJAsm).",
    note="Trusted: FJAsm.tla. Operand expressions are number / label+offset / $+offset (general expressions are C12's). Generated programs leave room "
         "for the wflip areas. MC_FJAsm enumerates EVERY program of <=3 statements over a 14-statement alphabet at w=8 (thorough: also w=16 and <=4 "
         "statements over 9): TLC checks on the model that the constraints are satisfiable (reference image accepted) and not vacuous (mutant rejected), "
         "and every enumerated program is assembled and judged; beyond that scope programs are seeded samples. Every assembly is bounded (60 s).",
    ref="DESIGN.md section 2 (C02)",
    technique="TLA+ spec of layout + image constraints; TLC trace validation (code->spec) of assembled images and label tables")

CLAIMED["C03"] = dict(
    text="FJMacro.tla defines Inline: calls replaced by the callee's body with closed arguments substituted in ONE pass (environments hold only "
         "closed expressions, so names cannot capture), every expansion's local labels renamed apart by expansion path, rep(n,i) unrolled for "
         "i=0..n-1, namespace resolution (plain / leading dots / dotted), arity overloading. Seeded macro programs whose identifier pools make caller "
         "labels collide with callee parameters, locals and rep iterators at several depths are inlined BY TLC (LocalNamesUnique checked); the real "
         "assembler assembles the original, TLC's inlined macro-free program and the original split over two files at top-level boundaries - the images "
         "and segments must be equal. Two thirds of the definitions declare the global labels they use (<) and the extern labels they define (>); "
         "an extern label of a macro expanded twice is a duplicate global label and must be refused.",
    note="Trusted: FJMacro!Inline as the meaning of 'textual inlining'. Programs are seeded samples (no recursion, warnings not errors, `$` never "
         "passed as an argument, a body never spells a global like one of its own binders); small-scope exhaustive enumeration is planned.",
    ref="DESIGN.md section 2 (C03)",
    technique="TLA+ reference semantics (Inline) evaluated by TLC per program + differential assembly of original vs TLC-inlined vs file-split sources")
CLAIMED["C16"] = dict(
    text="(a) FJAsm!LabelsExact judged by TLC on assembled primitive programs (every source label at the address of the statement it precedes); "
         "(b) on macro programs inlined by TLC (FJMacro), every local label of every expansion has its own table entry ending in ---<label> at the "
         "address the inlined program gives it, global labels keep name and address; (c) FJLabels.tla: names are unique keys, the saved table survives "
         "save/load, and breakpoints by address / exact label / substring resolve to exactly the addresses of the matching labels - TLC computes "
         "Resolve on real tables (several labels on one address) and judges what get_breakpoint_handler returned; substrings are literal text "
         "(pieces from anywhere in real names incl. their punctuation . ( ) : -, whole names, the punctuation itself).",
    note="The exact spelling of expansion-path components (<file>:l<line>:<macro>) is not judged here; stale components across assemblies in one process are C13's (file bytes).",
    ref="DESIGN.md section 2 (C02/C03/C16)",
    technique="TLC trace validation of label tables (addresses, per-expansion names) and of breakpoint resolution against a TLA+ definition")

CLAIMED["C13"] = dict(
    text="FJAsmProc.tla models what outlives an assemble() call in one process (stl-prefix parse cache keyed by files/width/warning mode, the "
         "interpreter's recursion limit) with the design properties KeyDeterminesSnapshot, CacheEntriesImmutable, ResultIsPure checked by TLC, which "
         "also enumerates EVERY history of bounded length over 20 call kinds (programs incl. failing ones x width x warning mode x recursion depth x "
         "stl / explicit stl paths / no stl). Each history runs in one fresh interpreter (directory changing between calls) logging after every call "
         "the digest of the .fjm+.fjd bytes or the failure class, every cache key with a deep structural digest of what a cache hit restores, and the "
         "recursion limit; Pure is measured in fresh processes (other directory, PYTHONHASHSEED 0/1/random). TLC judges every log (Trace_FJAsmProc).",
    note="Trusted: the digest function; the call alphabet. Bounded: all pairs + sampled triples (quick), all triples (thorough) over 20 call kinds.",
    ref="DESIGN.md section 2 (C13)",
    technique="TLA+ process-state model + TLC enumeration of all bounded call histories + TLC trace validation of recorded histories against fresh-process results")

CLAIMED["C14"] = dict(
    text="FJAsmDiag.tla enumerates the fault matrix (30 fault kinds x the evaluation stage at which the faulty value becomes known - literal folding, "
         "constant definition, constant, macro parameter, rep count, labels, pad operand - x width x fjm version) and defines the judgement: a faulty source "
         "fails with one of the library's specific exceptions (never the generic funnel, never raw), the message names the construct, within 20 s, leaving no "
         "loadable output file; the fault-free skeleton succeeds. TLC emits every case; sources are rendered from templates and assembled in child "
         "processes (hangs are killed); TLC judges every recorded outcome (Trace_FJAsmDiag). Seeded token/byte mutations of repository programs are judged "
         "the same way.",
    note="'For all source texts' is sampled: the matrix is exhaustive over its own dimensions, the rest is seeded mutation. 'Names the construct' = the message "
         "contains a token of the construct or a line reference.",
    ref="DESIGN.md section 2 (C14)",
    technique="TLA+ definition of the failure judgement + TLC enumeration of the fault matrix + TLC validation of recorded assembly outcomes")

CLAIMED["C20"] = dict(
    text="FJCli.tla defines Effective(options) - the documented defaults (width 64, format version 3 with an output file, standard library unless "
         "disabled, lzma preset 6) - and the agreement of the three routes. TLC enumerates EVERY combination of -w/-v/--no_stl/-d/--werror/--lzma_preset/-s "
         "(with -o); for the selected combinations and programs the harness runs `fj ... -o`, `fj --asm -o` + `fj --run` (subprocesses) and "
         "flipjump.assemble/run (one long-lived interpreter), records width/version header fields and digest of each .fjm, program output and "
         "termination, and TLC judges every record (Trace_FJCli): header = Effective, byte-identical files across routes, equal runs; the one-call "
         "convenience route flipjump.assemble_and_run must behave like assemble + run. Programs include a two-file program whose file order is not alphabetical.",
    note="The default version WITHOUT -o (documented: 1) is not observable from outside the command and is not judged. Quick runs a seeded subset "
         "of the 720 combinations (all -v rows always); thorough runs more.",
    ref="DESIGN.md section 2 (C20)",
    technique="TLA+ definition of effective options + TLC enumeration of the option space + TLC validation of recorded three-route outcomes")

CLAIMED["C04"] = dict(
    text="StlSem.tla holds one semantic action per documented hex macro (memory, logic, inc/dec/neg/abs/sign_extend/count_bits, add/sub with their "
         "shifted and constant forms and the single-hex carry forms, shifts, if/cmp/scmp/sign/min/max/if_flags, mul/mul10/add_mul, div/idiv), transcribed "
         "from the documentation line above each def, on unbounded integers with the frame condition and the carries. The arena assembles ONE program "
         "with a block per macro instance (sizes 1..17) whose dispatch jump the harness device patches; behaviours - ALL ordered pairs of macro "
         "instances plus seeded longer sequences on shared variables, operands overwritten by the environment - run at native speed; TLC (Trace_Stl) "
         "computes the prescribed state after every step and the harness compares every variable (all 18 digits: frame condition), the branch taken, "
         "the carries, the library's hidden cells (back at rest) and that variable ops are left clean.",
    note="Trusted: StlSem.tla as transcription of the documentation. Operand values are seeded samples with boundary bias (not all 16^n values); "
         "operands of one call are distinct variables; w=32/64 on the native engine (thorough adds the fast and featured engines).",
    ref="DESIGN.md section 2 (C04-C09) and 1.5 (arena)",
    technique="TLA+ per-macro semantics evaluated by TLC as oracle for arena behaviours (device-driven replay of macro sequences in the real assembled library)")

CLAIMED["C05"] = dict(
    text="Same machinery as C04 on the bit namespace: StlSem.tla actions for bit.zero/one/mov/swap, xor/xor_zero/or/and/not, if/if0/if1/cmp, "
         "shr/shl/shra/ror/rol, inc/dec/neg/add/sub, inc1/add1 (carry in/out), mul/mul_loop/mul10, div/div_loop/idiv/idiv_loop/div10; arenas at "
         "w=64/32/16 (w=16 holds a reduced block set: 2048 ops of address space); ALL ordered pairs of macro instances plus seeded longer sequences; "
         "TLC (Trace_Stl) prescribes the state after every step; all 70 bits of every variable, branch, hidden cells and op cleanliness compared.",
    note="Trusted: StlSem.tla as transcription of the documentation (bit.neg is taken as negation: its doc line repeats dec's; inc1/add1 follow the "
         "'carry is both input and output' header). Operand values are seeded samples with boundary bias.",
    ref="DESIGN.md section 2 (C04-C09)",
    technique="TLA+ per-macro semantics evaluated by TLC as oracle for arena behaviours")

CLAIMED["C08"] = dict(
    text="The pointer part of StlSem.tla models a pointer as the signed index of the cell it points to, a buffer as one byte per op, the stack as such a "
         "buffer with sp a pointer into it, and gives one action per documented macro: hex.ptr_inc/dec/add/sub/index, read_hex/byte (single, and_inc, n, nth), "
         "write_hex/byte (single, and_inc, n, nth), xor_hex/byte_to_ptr (single, and_inc, n), xor_hex/byte_from_ptr, zero_ptr, ptr_flip, ptr_flip_dbit, ptr_wflip, "
         "ptr_wflip_2nd_word, ptr_jump, push_hex/byte, pop_hex/byte, push n, pop n, sp_inc/dec/add/sub, stl.get_sp, the bit-namespace ptr_inc/dec/jump/flip/"
         "flip_dbit/wflip/wflip_2nd_word/xor_to_ptr/xor_from_ptr (w = 16, 32, 64), and call trees of stl.call/return, call with parameters, fcall/fret, "
         "balanced push/pop around calls and run-time recursion, and the byte-buffer helpers of hex/strings.fj (input_ptr_line, print_ptr_text, "
         "print_ptr_line, fill_bytes, copy_bytes) with scripted input and captured output. The arena device translates index <-> address, points the pointers at every cell of the "
         "buffers, runs sequences of macro applications without resetting the library's shared to_flip/to_jump ops, and TLC (Trace_Stl) prescribes after "
         "every step every variable, every cell of every buffer (data byte and flip-word view: the 'nowhere else' clause), the branch taken, sp and the output.",
    note="Trusted: StlSem.tla (pointer part) as transcription of the documentation. Pointed cells lie inside the observed buffers (12 cells, first 40 stack cells); "
         "preconditions are evaluated on TLC's states and a behaviour is judged up to the first step that leaves them. Memory outside the observed variables, "
         "buffers and library labels is not compared. Values and sequences are seeded samples; the block set of an arena is bounded by assembly time.",
    ref="DESIGN.md section 2 (C04-C09)",
    technique="TLA+ pointer/stack/call semantics evaluated by TLC as oracle for arena behaviours over an index<->address abstraction")

CLAIMED["C09"] = dict(
    text="The IO part of StlSem.tla gives the state an input and an output bit stream and one action per documented macro: hex.input_hex/input/"
         "input_as_hex/input_dec_uint(_until)/input_dec_int(_until), hex.output/print/print_as_digit/print_uint/print_int/print_dec_uint/print_dec_int, "
         "bit.input_bit/input, bit.output/print/print_as_digit/print_hex_uint/print_hex_int/print_dec_uint/print_dec_int/print_str, stl.bit2hex/hex2bit, "
         "the ASCII casts bit.bin2ascii/dec2ascii/hex2ascii/ascii2bin/ascii2dec/ascii2hex. The arena "
         "device serves each step's input bits and collects the bits the macro under test writes (marker bits are told apart by a flag cell); TLC "
         "(Trace_Stl) prescribes per step the variables, the branch (error branches included), the exact output bits and the number of input bits "
         "consumed. Inputs: numerals at every boundary (0, powers of ten, 16^n +-1, most negative), an invalid byte at every position, empty input, missing "
         "terminators, leading zeros and signs.",
    note="Trusted: StlSem.tla (IO part) as transcription of the documentation. After a step's input the device serves zero bits (a real end of input ends the "
         "whole run). The byte-buffer helpers of hex/strings.fj (input_ptr_line, print_ptr_text, print_ptr_line, fill_bytes, copy_bytes) run on the pointer arena of C08 "
         "(pointer = cell index, buffer = bytes) inside this check too. Values and inputs are seeded samples with boundary bias.",
    ref="DESIGN.md section 2 (C04-C09)",
    technique="TLA+ per-macro IO semantics evaluated by TLC as oracle for arena behaviours with scripted input and captured output")

NOT_YET = {}


def main():
    props = [json.loads(l) for l in (VERIF / "properties.jsonl").read_text().splitlines() if l.strip()]
    checks = []
    na = []
    for p in props:
        pid = p["id"]
        if pid in CLAIMED:
            c = CLAIMED[pid]
            checks.append({
                "property_id": pid,
                "quick_cmd": f"./check {pid} --tier quick",
                "thorough_cmd": f"./check {pid} --tier thorough",
                "evidence_file": f"/verif/evidence/{pid}.json",
                "replay_cmd_template": f"./check {pid} --replay {{path}}",
                "engine": "tlc+fjv",
                "level_claimed": {"category": "model_checking", "text": c["text"], "design_ref": c["ref"]},
                "level_note": c["note"],
                "technique": c["technique"],
            })
        else:
            na.append({"property_id": pid, "reason": NOT_YET.get(pid, "check not built yet in this round (planned: see DESIGN.md section 2); no claim is made")})
    man = {
        "version": 1,
        "setup_cmd": "./setup.sh",
        "hooks": {
            "guard": "FLIPJUMP_VERIF",
            "enable": "no source hooks are needed: all observation goes through public APIs (IODevice.attach_memory, last-ops list, TerminationStatistics); the native engine is rebuilt from /repo's _fjcore.c by each check",
            "baseline_off_cmd": "cd /repo && /venv/bin/python -m pytest -ra -q -p no:cacheprovider --timeout=900 --continue-on-collection-errors",
            "source_commits": [],
            "add_only": True,
        },
        "engines": [{"name": "tlc+fjv", "path": "/verif/check", "serves_properties": sorted(CLAIMED),
                     "kind_free_text": "TLA+ specifications in /verif/specs checked with TLC; Python harness fjv/ replays TLC behaviours into /repo and hands recorded observations to TLC"}],
        "checks": checks,
        "notes": "Model-based verification with explicit TLA+ specifications; see DESIGN.md. known_findings.jsonl lists genuine defects that are reported as KNOWN-FINDING.",
        "not_applicable": na,
    }
    (VERIF / "MANIFEST.json").write_text(json.dumps(man, indent=1) + "\n")


if __name__ == "__main__":
    main()
