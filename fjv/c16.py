"""
C16 - the debug label table is exact.

(a) addresses: FJAsm!LabelsExact on the primitive programs of C02 (every source label at the address of the statement
    that follows it) - judged by TLC (Trace_FJAsm).
(b) names: on the macro programs of C03, every local label of every expansion (as inlined by TLC's FJMacro!Inline) has
    its own table entry ending in ---<label> at the address the inlined program gives it; global labels keep their names.
(c) FJLabels.tla: the table saved at assembly and loaded back is the same set of (name, address) pairs with unique
    names, and breakpoints given by address / exact label / substring resolve to exactly the addresses of the matching
    labels: TLC computes Resolve for seeded queries on real tables (several labels on one address, names that are
    substrings of each other) and judges what get_breakpoint_handler returned.
"""
from __future__ import annotations

import json
import random
import shutil
import tempfile
from pathlib import Path
from typing import List

from fjv import c01, c02, c03, engines, par, tlc
from fjv.c02 import jint
from fjv.core import Check, MachineryFailure


def codes(s: str) -> List[int]:
    return [ord(c) for c in s]


def _bp_case(args):
    idx, w, ast, seed = args
    par.fjm_run()
    from flipjump.interpreter.debugging.breakpoints import get_breakpoint_handler
    from flipjump.utils.functions import load_debugging_labels, save_debugging_labels
    import contextlib
    import io

    rng = random.Random(seed)
    d = Path(tempfile.mkdtemp(prefix="fjv_c16_"))
    try:
        items = ["start0:"] + c03.render_items(ast)          # a source label at address 0 (in front of the first statement)
        res = c03.assemble_files(["\n".join(items) + "\n"], w, d, "p")
        if not res["ok"]:
            return {"skipped": res["err"][:100]}
        table = res["table"]                       # what assemble saved, loaded back
        # a second save/load round trip
        p2 = d / "again.fjd"
        save_debugging_labels(p2, table)
        reloaded = load_debugging_labels(p2)
        names = list(table)
        queries = []
        at_zero = [n_ for n_, a_ in table.items() if a_ == 0]
        for qi in range(6):
            exact = rng.sample(names, min(len(names), rng.randint(0, 2))) + (["no.such.label"] if rng.random() < 0.3 else [])
            if qi == 0:
                exact += at_zero[:2]                           # address 0 is an address like any other
            cands = ["---", ":start:", "code", "halt", "d", "t", "i", "y", "x", "wflip", "rep", "zzz"]
            cands += [rng.choice(names)[rng.randrange(3):][:rng.randint(1, 6)] for _ in range(3)]
            # substrings are literal text: pieces of real names from anywhere in the name (label names contain . ( ) : -),
            # whole names, and the punctuation itself
            special = [n_ for n_ in names if any(ch in n_ for ch in ".()[]*+?|^$\\")] or names
            for _ in range(4):
                n_ = rng.choice(special)
                i_ = rng.randrange(len(n_))
                cands.append(n_[i_:i_ + rng.randint(1, 12)])
            cands += [rng.choice(names), ".", "(", ")", "(1)", "(2)", "a.", ".b", "|", "x|y"]
            contains = [c for c in rng.sample(cands, rng.randint(0, 3)) if c]
            addrs = rng.sample(sorted(set(table.values())), min(2, rng.randint(0, 2))) + ([12345 * w] if rng.random() < 0.3 else [])
            try:
                with contextlib.redirect_stdout(io.StringIO()):
                    h = get_breakpoint_handler(d / "p.fjd", set(addrs) or None, set(exact) or None, set(contains) or None)
                got = [jint(a) for a in sorted(h.breakpoints)]
            except Exception:  # noqa: BLE001  (resolution must not fail: reported as an impossible address)
                got = [jint(-1)]
            queries.append({"addrs": [jint(a) for a in addrs], "exact": [codes(e) for e in exact], "contains": [codes(c) for c in contains],
                            "got": got})
        return {"rec": {"table": [[codes(n), jint(a)] for n, a in table.items()],
                        "reloaded": [[codes(n), jint(a)] for n, a in reloaded.items()], "queries": queries},
                "source": "\n".join(items)}
    finally:
        shutil.rmtree(d, ignore_errors=True)


CFG = "SPECIFICATION Spec\nCONSTRAINT Verdict\nCHECK_DEADLOCK FALSE\n"


def run(chk: Check, replay=None):
    quick = chk.tier == "quick"
    rng = random.Random(chk.seed + 16)
    # (a) + (b): reuse the C02 / C03 pipelines, keeping only the label clauses
    sub = Check("C16", chk.tier, chk.seed)
    c02.run(sub, only_labels=True)
    c03.run(sub, only_c16=True)
    chk.states += sub.states
    chk.transitions += sub.transitions
    chk.traces += sub.traces
    chk.configs += sub.configs
    chk.samples += sub.samples[:2]
    chk.assumptions += sub.assumptions
    chk.violations += sub.violations
    chk.extra.update({f"ab_{k}": v for k, v in sub.extra.items()})
    # (c)
    so = str(engines.build_native())
    n = 150 if quick else 2500
    work = [(i, [16, 32, 64][i % 3], c03.gen_ast(rng, [16, 32, 64][i % 3]), chk.seed * 7919 + i) for i in range(n)]
    outs = par.pmap(_bp_case, work, so_path=so, procs=16, chunksize=4)
    recs = [o for o in outs if "rec" in o]
    chk.extra["c_tables"] = len(recs)
    scratch = Path(tempfile.mkdtemp(prefix="fjv_c16t_"))
    verdicts = {}
    try:
        jobs, offs = [], []
        for b0 in range(0, len(recs), 25):
            f = scratch / f"b{b0}.json"
            f.write_text(json.dumps([r["rec"] for r in recs[b0:b0 + 25]]))
            jobs.append(dict(module="FJLabels", cfg_text=CFG, workers=1, env={"TRACE_FILE": str(f)}, timeout=3000))
            offs.append(b0)
        for b0, res in zip(offs, tlc.run_many(jobs, parallel=16)):
            chk.add_tlc(res, f"FJLabels@{b0}", records=min(25, len(recs) - b0))
            for v in res.emitted.get("V", []):
                verdicts[b0 + v["tid"] - 1] = v
    finally:
        shutil.rmtree(scratch, ignore_errors=True)
    chk.configs[:] = c01._squash(chk.configs, "FJLabels")
    chk.traces += len(recs)
    for i, r in enumerate(recs):
        v = verdicts.get(i)
        if v is None:
            raise MachineryFailure(f"no verdict for table {i}")
        if v["fail"]:
            bq = v["spec"]["badqueries"]
            q = r["rec"]["queries"][bq[0] - 1] if bq else None
            chk.violation({"clauses": ",".join(sorted(v["fail"]))},
                          f"label table / breakpoint resolution rejected by FJLabels: {v['fail']}" +
                          (f"; query exact={[''.join(map(chr, e)) for e in q['exact']]} contains={[''.join(map(chr, e)) for e in q['contains']]}" if q else ""),
                          {"source": r["source"], "verdict": v, "query": q})
