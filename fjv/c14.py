"""
C14 - every assembly failure is a specific library diagnostic.

FJAsmDiag.tla enumerates the fault matrix (fault kind x the evaluation stage at which the faulty value becomes known x
width x fjm version) and defines the judgement of an outcome: a faulty source fails with one of the library's specific
exceptions (never the generic 'please report this bug' funnel, never a raw Python exception), the message names the
construct, within the time budget, leaving no loadable output file; the fault-free skeleton succeeds.  TLC emits every
case; the harness renders the source from templates, assembles it in a child process (so a hang can be killed) and
records exception class, cause chain, message, elapsed time and the state of the output path; TLC judges every record
(Trace_FJAsmDiag).  Seeded token / byte mutations of the repository's programs are judged the same way.
"""
from __future__ import annotations

import json
import os
import random
import shutil
import subprocess
import sys
import tempfile
from concurrent.futures import ThreadPoolExecutor
from pathlib import Path
from typing import Dict, List, Tuple

from fjv import c01, engines, tlc
from fjv.core import Check, MachineryFailure

CHILD = r'''
import sys, json, time, io, contextlib, signal
sys.path.insert(0, sys.argv[1])
CPU_BUDGET = 60          # seconds of this process's own CPU time per assembly (a loaded machine must not look like a hang)
class _Hang(BaseException):
    pass
def _on_prof(signum, frame):
    raise _Hang()
signal.signal(signal.SIGPROF, _on_prof)
import flipjump
from pathlib import Path
from flipjump.fjm.fjm_consts import FJMVersion
from flipjump.fjm.fjm_reader import Reader
from flipjump.utils.exceptions import FlipJumpException
spec = json.load(open(sys.argv[2]))
res = []
for c in spec:
    out = Path(c["out"])
    if out.exists():
        out.unlink()
    t0 = time.process_time()
    o = {"outcome": "ok", "class": "", "generic": False, "msg": "", "cause": ""}
    try:
        signal.setitimer(signal.ITIMER_PROF, CPU_BUDGET)
        try:
            with contextlib.redirect_stdout(io.StringIO()):
                flipjump.assemble([Path(c["src"])], out, memory_width=c["w"], fjm_version=FJMVersion(c["version"]), use_stl=c.get("stl", False),
                                  print_time=False, warning_as_errors=False,
                                  debugging_file_path=(Path(str(out) + ".fjd") if c.get("dbg") else None))
        finally:
            signal.setitimer(signal.ITIMER_PROF, 0)
    except _Hang:
        o["outcome"] = "hang"
    except BaseException as e:
        o["outcome"] = "exception"
        o["class"] = type(e).__name__
        o["msg"] = str(e)[:1500]
        o["generic"] = "please report this bug" in str(e)
        o["cause"] = type(e.__cause__).__name__ if e.__cause__ is not None else ""
        o["raw"] = not isinstance(e, FlipJumpException)
    o["secs"] = 999 if o["outcome"] == "hang" else time.process_time() - t0          # CPU seconds
    loadable = False
    if out.exists():
        try:
            Reader(out)
            loadable = o["outcome"] == "exception"
        except Exception:
            loadable = False
    o["loadable"] = loadable
    o["id"] = c["id"]
    res.append(o)
    json.dump(res, open(sys.argv[3], "w"))
'''


def bad_expr(kind: str, z: str) -> str:
    return {"div0": f"1/({z})", "mod0": f"7%({z})", "negshift": f"1<<({z})", "negexp": f"2**({z})",
            "hugeshift": f"1<<({z})", "hugeexp": f"3**({z})"}[kind]


def zval(kind: str) -> str:
    return {"div0": "0", "mod0": "0", "negshift": "0-1", "negexp": "0-2", "hugeshift": "1<<40", "hugeexp": "1<<40"}[kind]


def zlabel(kind: str) -> str:
    # the same value through labels (code < data): data-data = 0, code-data < 0, data<<32 huge
    return {"div0": "data-data", "mod0": "data-data", "negshift": "code-data", "negexp": "code-data",
            "hugeshift": "data<<32", "hugeexp": "data<<32"}[kind]


def render_case(kind: str, site: str, w: int) -> Tuple[str, List[str]]:
    """(source text, tokens one of which the message should mention)"""
    head = [";code", "code:"]
    tail = ["halt:", "  ;halt", "data:", "  ;0"]
    pre: List[str] = []
    body: List[str] = []
    tokens: List[str] = []
    if kind == "none":
        body = ["  ;halt"]
    elif kind in ("div0", "mod0", "negshift", "negexp", "hugeshift", "hugeexp"):
        tokens = [{"div0": "/", "mod0": "%", "negshift": "<<", "negexp": "**", "hugeshift": "<<", "hugeexp": "**"}[kind], "math", "shift", "exponent", "zero"]
        if site == "lit":
            body = [f"  ;{bad_expr(kind, zval(kind))}"]
        elif site == "constdef":
            pre = [f"X = {bad_expr(kind, zval(kind))}"]
            body = ["  ;X"]
        elif site == "const":
            pre = [f"Z = {zval(kind)}"]
            body = [f"  ;{bad_expr(kind, 'Z')}"]
        elif site == "param":
            pre = ["def m z {", f"  ;{bad_expr(kind, 'z')}", "}"]
            body = [f"  m {zval(kind)}"]
        elif site == "rep":
            pre = ["def e {", "  ;", "}"]
            body = [f"  rep({bad_expr(kind, zval(kind))}, i) e"]
        elif site == "label":
            body = [f"  ;{bad_expr(kind, zlabel(kind))}"]
        elif site == "operand":
            body = [f"  pad {bad_expr(kind, zval(kind))}"]
    else:
        t = {
            "lex": (["  ;halt `"], ["`", "Lexing"]),
            "syntax": (["  ;;;"], [";", "Syntax"]),
            "unbalanced": (["def m {", "  ;"], ["Syntax", "EOF", "end"]),
            "unknownmacro": (["  nosuch 1"], ["nosuch"]),
            "arity": (["def m a {", "  ;a", "}", "  m 1, 2"], ["m"]),
            "dupmacro": (["def m {", "  ;", "}", "def m {", "  ;", "}"], ["m"]),
            "duplabel": (["code:"], ["code"]),
            "nolabel": (["  ;nolabel"], ["nolabel"]),
            "recursion": (["def r {", "  r", "}", "  r"], ["recursi", "r"]),
            "reprecursion": (["def again {", "  rep(1, i) again", "}", "  again"], ["recursi", "again"]),
            "labelconst": (["X = 5", "X:"], ["X"]),
            "segoverlap": (["segment 0", "  ;halt"], ["segment", "verlap"]),
            "segrange": ([f"segment 1<<{w}", "  ;halt"], ["segment", "space", "width", hex(1 << w)]),
            "segunaligned": (["segment 5"], ["segment", "5"]),
            "reserveunaligned": (["reserve 3"], ["reserve", "3"]),
            "padzero": (["pad 0"], ["pad"]),
            "padunaligned": ([f"reserve {w}", "pad 2"], ["pad"]),
            "repneg": (["def e {", "  ;", "}", "  rep(0-1, i) e"], ["rep"]),
            "wflipbig": ([f"  wflip data, 1<<{w}"], ["space", "width", "wflip", "Flip Word", str(1 << w)]),
            "flipbig": ([f"  1<<{w};"], [str(1 << w), "fit", "space"]),
            "flipneg": (["  0-1;"], ["-1", "fit", "space"]),
            "jumpbig": ([f"  ;1<<{w}"], [str(1 << w), "fit", "space"]),
        }
        if kind == "nofirstop":
            return "segment 1024\n  ;1024\n", ["first op", "address 0"]
        body, tokens = t[kind]
    lines = pre + head + body + tail
    # the fault's line number (1-based) for 'names the construct'
    fault_line = len(pre) + len(head) + 1
    tokens = tokens + [f"line {fault_line}", f"l{fault_line}", f"line {max(1, len(pre))}", "line "]
    return "\n".join(lines) + "\n", tokens


def run_children(cases: List[dict], scratch: Path, nproc: int = 16, budget: int = 25) -> Dict[int, dict]:
    """assemble every case in child processes (a hang is killed and recorded)"""
    child = scratch / "child.py"
    child.write_text(CHILD)
    results: Dict[int, dict] = {}
    # cases that may not terminate run alone, each under its own time budget
    risky = [c for c in cases if c.get("risky")]
    cases = [c for c in cases if not c.get("risky")]

    def alone(c):
        wp, op = scratch / f"rw{c['id']}.json", scratch / f"ro{c['id']}.json"
        wp.write_text(json.dumps([c]))
        try:
            # risky cases (huge shifts / exponents) spend their time inside one C-level big-number operation that no signal
            # interrupts: they are killed from outside after a wall-clock budget
            subprocess.run([sys.executable, str(child), str(engines.REPO), str(wp), str(op)], timeout=budget, capture_output=True,
                           env=dict(os.environ, PYTHONHASHSEED="0"))
        except subprocess.TimeoutExpired:
            pass
        done = json.load(open(op)) if op.exists() else []
        if done:
            results[c["id"]] = done[0]
        else:
            results[c["id"]] = {"id": c["id"], "outcome": "hang", "class": "", "generic": False, "msg": "", "cause": "", "secs": 999, "loadable": False}

    with ThreadPoolExecutor(max_workers=nproc) as ex:
        list(ex.map(alone, risky))

    def shard(k: int):
        mine = cases[k::nproc]
        pending = list(mine)
        while pending:
            wp, op = scratch / f"w{k}.json", scratch / f"o{k}.json"
            wp.write_text(json.dumps(pending))
            if op.exists():
                op.unlink()
            try:
                subprocess.run([sys.executable, str(child), str(engines.REPO), str(wp), str(op)], timeout=120 + 90 * len(pending), capture_output=True,
                               env=dict(os.environ, PYTHONHASHSEED="0"))
                hung = False
            except subprocess.TimeoutExpired:
                hung = True
            done = json.load(open(op)) if op.exists() else []
            for o in done:
                results[o["id"]] = o
            rest = [c for c in pending if c["id"] not in {o["id"] for o in done}]
            if rest and (hung or len(rest) == len(pending)):
                bad = rest[0]
                results[bad["id"]] = {"id": bad["id"], "outcome": "hang" if hung else "crash", "class": "", "generic": False, "msg": "", "cause": "",
                                      "secs": 999, "loadable": False}
                rest = rest[1:]
            pending = rest

    with ThreadPoolExecutor(max_workers=nproc) as ex:
        list(ex.map(shard, range(nproc)))
    return results


def mutate(text: str, rng: random.Random) -> str:
    toks = text.split(" ")
    r = rng.random()
    if r < 0.3 and len(toks) > 2:
        i = rng.randrange(len(toks))
        toks[i] = rng.choice(["{", "}", ";", ",", "0-1", "1<<70", "def", "rep(", ")", "::", "$", "'", "\"", "segment", "1/0", "%", "**", "x" * 3])
        return " ".join(toks)
    if r < 0.5 and len(toks) > 2:
        i = rng.randrange(len(toks))
        del toks[i]
        return " ".join(toks)
    b = bytearray(text.encode())
    for _ in range(rng.randint(1, 3)):
        i = rng.randrange(len(b))
        op = rng.random()
        if op < 0.4:
            b[i] = rng.choice(b"{};:,()<>$'\"\\#%*/-+ \n0129azAZ")
        elif op < 0.7:
            del b[i]
        else:
            b.insert(i, rng.choice(b"{};:,()<>$'\"\\#%*/-+ \n0"))
    return b.decode("utf-8", "replace")


def run(chk: Check, replay=None):
    quick = chk.tier == "quick"
    rng = random.Random(chk.seed + 14)
    chk.assumptions += [
        "'names the offending construct' is judged as: the message contains a token of the construct (operator, identifier, value) or a line reference",
        "time budget: 20 s of the assembling process's own CPU time (so machine load does not count; a hang is cut at 60 CPU-seconds; the huge-number cases are killed after 25 s of wall time); 'loadable' = the real Reader accepts what is left at the output path",
    ]
    cfg = """SPECIFICATION Spec
CONSTANTS
  Widths = {%s}
  Versions = {%s}
  EmitOn = TRUE
CONSTRAINT Emit
CHECK_DEADLOCK FALSE
""" % (("16, 64" if quick else "16, 32, 64"), ("1, 3" if quick else "0, 1, 2, 3"))      # (the skeletons do not fit the 256 bits of w=8)
    res = tlc.run_tlc("FJAsmDiag", cfg, workers=1, timeout=600)
    chk.add_tlc(res, "FJAsmDiag (fault matrix)", exhaustive=True)
    matrix = res.emitted.get("C", [])
    if not matrix:
        raise MachineryFailure("no cases emitted")
    base = Path(tempfile.mkdtemp(prefix="fjv_c14_"))
    try:
        cases = []
        meta = {}
        for i, m in enumerate(matrix):
            src, tokens = render_case(m["kind"], m["site"], m["w"])
            d = base / f"c{i}"
            d.mkdir()
            (d / "p.fj").write_text(src)
            cases.append({"id": i, "src": str(d / "p.fj"), "out": str(d / "p.fjm"), "w": m["w"], "version": m["version"],
                          "risky": m["kind"] in ("hugeexp", "hugeshift")})
            meta[i] = (m, src, tokens)
        # mutations of repository programs (no-stl ones assemble fast; a few stl ones)
        progs = sorted((engines.REPO / "programs").rglob("*.fj"))
        nostl = [p for p in progs if "no-stl" in p.name or "no_stl" in p.name or p.parent.name == "sanity_checks"][:12]
        nm = 150 if quick else 3000
        for k in range(nm):
            p = rng.choice(nostl)
            text = mutate(p.read_text(), rng)
            i = len(cases)
            d = base / f"m{k}"
            d.mkdir()
            (d / "p.fj").write_text(text)
            use_stl = "no-stl" not in p.name and "no_stl" not in p.name
            cases.append({"id": i, "src": str(d / "p.fj"), "out": str(d / "p.fjm"), "w": 64, "version": 3, "stl": use_stl})
            meta[i] = ({"kind": "mutated", "site": "text", "w": 64, "version": 3}, text, [])
        # sources that END too early (a file that stops inside its first / any statement), and sources that are not text
        hello = (engines.REPO / "programs/print_tests/hello_no-stl.fj").read_bytes()
        tiny = [b"def", b";(", b"ns", b"rep(", b"def m", b"def m {", b"def m x @ l <", b"ns a {", b"rep(3, i)", b"wflip", b"wflip 0,", b"pad", b"segment",
                b"reserve", b"x =", b"x = (", b";", b"a:", b"\"", b"'", b"(", b")", b"{", b"}", b",", b"$", b"0;", b";0", b"-", b"1 ? 2 :", b"#", b"", b"\n", b"//"]
        step = 7 if quick else 1
        cuts = [hello[:k] for k in range(0, len(hello), step)]
        notext = []
        for _ in range(12 if quick else 200):
            b = bytearray(hello)
            pos = rng.randrange(len(b) + 1)
            b[pos:pos] = rng.choice([b"\xff", b"\xfe\xff", b"\xc3\x28", b"\xe2\x82", b"\x80", b"\xf0\x28\x8c\x28", b"\x00"])
            notext.append(bytes(b))
        for k, raw in enumerate(tiny + cuts + notext):
            i = len(cases)
            d = base / f"t{k}"
            d.mkdir()
            (d / "p.fj").write_bytes(raw)
            cases.append({"id": i, "src": str(d / "p.fj"), "out": str(d / "p.fjm"), "w": 64, "version": 3, "stl": False})
            meta[i] = ({"kind": "mutated", "site": "text", "w": 64, "version": 3}, raw.decode("latin-1"), [])
        # valid but astronomically large programs: the padding / the repetitions are produced one by one
        for site, raw in (("hugepad", b";code\ncode:\n;code\npad 1<<40\n;code\n"), ("hugerep", b"def m {\n;\n}\n;code\ncode:\nrep(1<<40, i) m\n;code\n")):
            i = len(cases)
            d = base / f"h{site}"
            d.mkdir()
            (d / "p.fj").write_bytes(raw)
            cases.append({"id": i, "src": str(d / "p.fj"), "out": str(d / "p.fjm"), "w": 64, "version": 3, "stl": False, "risky": True})
            meta[i] = ({"kind": "mutated", "site": site, "w": 64, "version": 3}, raw.decode("latin-1"), [])
        # long but ordinary programs: an expression of 600 terms, numbers beyond 4300 decimal digits (a literal, a constant shift,
        # a far label written to the debugging file)
        sized = (("longexpr", ";" + "+".join(["a"] * 600) + "\na:\n", False), ("bigdecimal", ";" + "1" * 4301 + "\n", False),
                 ("bigconst", ";1<<20000\n", False), ("farlabel", "loop: ;loop\nsegment (1<<14400)*64\nfar:\n", True),
                 ("farlabel-nodebug", "loop: ;loop\nsegment (1<<14400)*64\nfar:\n", False))
        for site, text, dbg in sized:
            i = len(cases)
            d = base / f"z{site}"
            d.mkdir()
            (d / "p.fj").write_text(text)
            cases.append({"id": i, "src": str(d / "p.fj"), "out": str(d / "p.fjm"), "w": 64, "version": 3, "stl": False, "dbg": dbg})
            meta[i] = ({"kind": "mutated", "site": site, "w": 64, "version": 3}, text[:300], [])
        results = run_children(cases, base)
    finally:
        shutil.rmtree(base, ignore_errors=True)
    recs = []
    for c in cases:
        o = results.get(c["id"])
        if o is None:
            raise MachineryFailure(f"no result for case {c['id']}")
        m, src, tokens = meta[c["id"]]
        names = any(t and t in o["msg"] for t in tokens)
        outcome = o["outcome"] if o["outcome"] in ("ok", "exception") else "exception"
        cls = o["class"] if o["outcome"] in ("ok", "exception") else o["outcome"]
        recs.append({"kind": m["kind"], "obs": {"outcome": outcome, "class": cls, "generic": bool(o["generic"]), "names": bool(names),
                                                  "secs": int(min(o["secs"], 999)), "loadable": bool(o["loadable"])},
                     "meta": m, "src": src, "raw": o})
    scratch = Path(tempfile.mkdtemp(prefix="fjv_c14t_"))
    try:
        tf = scratch / "t.json"
        tf.write_text(json.dumps([{"kind": r["kind"], "obs": r["obs"]} for r in recs]))
        vres = tlc.run_tlc("Trace_FJAsmDiag", "SPECIFICATION Spec\nCONSTRAINT Verdict\nCHECK_DEADLOCK FALSE\n", workers=1,
                           env={"TRACE_FILE": str(tf)}, timeout=1800)
    finally:
        shutil.rmtree(scratch, ignore_errors=True)
    chk.add_tlc(vres, "Trace_FJAsmDiag", records=len(recs))
    verdicts = {v["tid"] - 1: v for v in vres.emitted.get("V", [])}
    chk.traces += len(recs)
    chk.extra["matrix_cases"] = len(matrix)
    chk.extra["mutations"] = nm
    chk.extra["outcome_classes"] = {k: sum(1 for r in recs if (r["obs"]["class"] or "ok") == k) for k in sorted({r["obs"]["class"] or "ok" for r in recs})}
    chk.sample({"kind": "fault case", "case": recs[1]["meta"], "source": recs[1]["src"], "outcome": recs[1]["raw"]})
    for i, r in enumerate(recs):
        v = verdicts.get(i)
        if v is None:
            raise MachineryFailure(f"no verdict for record {i}")
        if v["fail"]:
            m = r["meta"]
            chk.violation({"kind": m["kind"], "site": m["site"], "clauses": ",".join(sorted(v["fail"]))},
                          f"fault {m['kind']} at stage {m['site']} (w={m['w']}, v{m['version']}): {v['fail']}; got {r['raw']['outcome']} {r['raw']['class']} "
                          f"cause={r['raw'].get('cause')} generic={r['raw']['generic']} msg={r['raw']['msg'][:160]!r}",
                          {"case": m, "source": r["src"], "outcome": r["raw"]})
