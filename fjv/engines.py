"""
Running the real flip-jump engines from /repo and recording what they did.

* the native engine is rebuilt from /repo/flipjump/interpreter/_fjcore.c into a temp dir by every
  process that uses it and injected as sys.modules['flipjump.interpreter._fjcore'] BEFORE fjm_run is
  imported, so the prebuilt .so lying in /repo is never what is tested.
* engines are selected through the public knobs only.
* every run carries a budget: an interval timer whose handler raises KeyboardInterrupt (which the
  engines already turn into a termination cause), because a FlipJump program only halts on a self-loop.
"""
from __future__ import annotations

import atexit
import contextlib
import importlib.machinery
import importlib.util
import io
import os
import shutil
import signal
import subprocess
import sys
import sysconfig
import tempfile
from pathlib import Path
from typing import Dict, List, Optional, Sequence, Tuple

REPO = Path(os.environ.get("FJV_REPO", "/repo"))

_native_dir: Optional[Path] = None


def build_native(sanitize: bool = False) -> Path:
    """compile the current _fjcore.c; returns the path of the shared object."""
    d = Path(tempfile.mkdtemp(prefix="fjv_native_"))
    atexit.register(shutil.rmtree, d, True)
    src = REPO / "flipjump" / "interpreter" / "_fjcore.c"
    so = d / "_fjcore.abi3.so"
    inc = sysconfig.get_paths()["include"]
    if sanitize:
        cmd = ["clang", "-O1", "-g", "-fno-omit-frame-pointer", "-fsanitize=address,undefined",
               "-fno-sanitize-recover=undefined", "-shared", "-fPIC", f"-I{inc}", str(src), "-o", str(so)]
    else:
        cmd = ["cc", "-O2", "-shared", "-fPIC", f"-I{inc}", str(src), "-o", str(so)]
    p = subprocess.run(cmd, capture_output=True, text=True)
    if p.returncode != 0:
        raise RuntimeError("native build failed:\n" + p.stderr[-3000:])
    return so


def setup(native: bool = True, sanitize: bool = False, so_path: Optional[Path] = None):
    """must be called before anything imports flipjump.  returns the fjm_run module."""
    assert "flipjump" not in sys.modules or "flipjump.interpreter._fjcore" in sys.modules or not native, \
        "flipjump was imported before fjv.engines.setup()"
    if str(REPO) not in sys.path:
        sys.path.insert(0, str(REPO))
    name = "flipjump.interpreter._fjcore"
    if native:
        so = so_path or build_native(sanitize)
        loader = importlib.machinery.ExtensionFileLoader(name, str(so))
        spec = importlib.util.spec_from_file_location(name, str(so), loader=loader)
        mod = importlib.util.module_from_spec(spec)
        # the parent package must not be imported yet (its __init__ imports fjm_run): register the
        # extension first, then import the package.
        sys.modules[name] = mod
        loader.exec_module(mod)
    else:
        os.environ["FLIPJUMP_NO_NATIVE"] = "1"
    import flipjump.interpreter.fjm_run as fjm_run

    if native:
        assert fjm_run._fjcore is sys.modules[name], "the rebuilt native engine was not picked up"
        import flipjump.interpreter as pkg
        pkg._fjcore = sys.modules[name]
    return fjm_run


# ------------------------------------------------------------------------------------------------
# numbers <-> little-endian byte lists (the JSON form shared with the TLA+ specs)

def nb(n: int, nbytes: int) -> List[int]:
    return list(int(n).to_bytes(nbytes, "little"))


def bn(b: Sequence[int]) -> int:
    return int.from_bytes(bytes(b), "little")


AW = 9  # bytes in an address number (FJMachine!AW)


# ------------------------------------------------------------------------------------------------
class BudgetExceeded(Exception):
    pass


class _Alarm:
    """interval-timer budget: raises KeyboardInterrupt inside the run after `seconds`."""

    def __init__(self, seconds: float):
        self.seconds = seconds
        self.fired = False

    def _handler(self, signum, frame):  # noqa: ARG002
        self.fired = True
        raise KeyboardInterrupt()

    def __enter__(self):
        self.old = signal.signal(signal.SIGALRM, self._handler)
        signal.setitimer(signal.ITIMER_REAL, self.seconds)
        return self

    def __exit__(self, *a):
        signal.setitimer(signal.ITIMER_REAL, 0)
        signal.signal(signal.SIGALRM, self.old)
        return False


ENGINES: Dict[str, dict] = {
    # name -> knobs
    "featured":          dict(profile=True, ring=True),
    "featured-noring":   dict(profile=True, ring=False),
    "fast":              dict(env={"FLIPJUMP_NO_NATIVE": "1"}, ring=True),
    "fast-noring":       dict(env={"FLIPJUMP_NO_NATIVE": "1"}, ring=False),
    "native-flat":       dict(ring=False),
    "native-flat-ring":  dict(ring=True),
    "native-paged":      dict(env={"FLIPJUMP_NO_FLAT": "1"}, ring=False),
    "native-paged-ring": dict(env={"FLIPJUMP_NO_FLAT": "1"}, ring=True),
    "native-measured":   dict(env={"FLIPJUMP_MEASURE_SPECULATION": "1"}, ring=False),
    "native-measured-paged": dict(env={"FLIPJUMP_MEASURE_SPECULATION": "1", "FLIPJUMP_NO_FLAT": "1"}, ring=False),
}
# hybrid variants are made on the fly: name "native-hybrid:<flat_max_words>[:ring]"

ALL_BASE_ENGINES = ["featured", "fast", "native-flat", "native-flat-ring", "native-paged", "native-paged-ring",
                    "native-measured"]


def engine_knobs(name: str) -> dict:
    if name.startswith("native-hybrid:"):
        parts = name.split(":")
        return dict(flat_max_words=int(parts[1]), ring=(len(parts) > 2 and parts[2] == "ring"))
    return ENGINES[name]


class RecDevice:
    """the harness IO device: feeds input bits, records output bits, keeps the memory hook."""

    def __init__(self, base_cls, in_bits: Sequence[int]):
        self._in = list(in_bits)
        self.inpos = 0
        self.out: List[int] = []
        self.mem = None
        self.calls: List[Tuple[str, int]] = []

    def attach_memory(self, device_memory):
        self.mem = device_memory

    def read_bit(self):
        from flipjump.utils.exceptions import IOReadOnEOF
        if self.inpos >= len(self._in):
            self.calls.append(("eof", 0))
            raise IOReadOnEOF("harness input exhausted")
        b = self._in[self.inpos]
        self.inpos += 1
        self.calls.append(("r", b))
        return bool(b)

    def write_bit(self, bit):
        self.out.append(1 if bit else 0)
        self.calls.append(("w", 1 if bit else 0))

    def get_output(self, *, allow_incomplete_output: bool = False):  # noqa: ARG002
        return b""


def make_device(in_bits: Sequence[int]):
    from flipjump.interpreter.io_devices.IODevice import IODevice

    cls = type("HarnessDevice", (RecDevice, IODevice), {})
    return cls(IODevice, in_bits)


CAUSE_NAMES = {0: "looping", 1: "eof", 2: "nullip", 5: "memerr", 6: "kbdint"}


@contextlib.contextmanager
def _env(extra: Optional[Dict[str, str]]):
    keys = ["FLIPJUMP_NO_NATIVE", "FLIPJUMP_NO_FLAT", "FLIPJUMP_MEASURE_SPECULATION", "FLIPJUMP_FLAT_MAX_WORDS"]
    saved = {k: os.environ.get(k) for k in keys}
    for k in keys:
        os.environ.pop(k, None)
    os.environ.update(extra or {})
    try:
        yield
    finally:
        for k in keys:
            os.environ.pop(k, None)
            if saved[k] is not None:
                os.environ[k] = saved[k]


def run_engine(fjm_run, path: Path, engine: str, in_bits: Sequence[int], *, w: int,
               mem_addrs: Sequence[int] = (), budget_s: float = 2.0, ring_len: int = 100000,
               device=None) -> dict:
    """run one image on one engine; returns the observation (JSON-ready, numbers as byte lists)."""
    knobs = engine_knobs(engine)
    dev = device if device is not None else make_device(in_bits)
    kwargs = {}
    if knobs.get("profile"):
        kwargs["profile"] = True
    if knobs.get("ring"):
        kwargs["last_ops_debugging_list_length"] = ring_len
    if knobs.get("flat_max_words"):
        kwargs["flat_max_words"] = knobs["flat_max_words"]
    obs: dict = {"engine": engine}
    exc = None
    stats = None
    with _env(knobs.get("env")), _Alarm(budget_s) as alarm:
        try:
            with contextlib.redirect_stdout(io.StringIO()):
                stats = fjm_run.run(path, io_device=dev, **kwargs)
        except KeyboardInterrupt:
            exc = "KeyboardInterrupt-escaped"
        except BaseException as e:  # noqa: BLE001
            exc = f"{type(e).__module__}.{type(e).__name__}: {e}"
            cause = e.__cause__
            if cause is not None:
                exc += f" <- {type(cause).__name__}: {cause}"
    obs["exc"] = exc
    obs["budget_fired"] = alarm.fired
    if stats is not None:
        obs["cause"] = CAUSE_NAMES.get(int(stats.termination_cause), str(stats.termination_cause))
        obs["ops"] = int(stats.op_counter)
        fa = stats.memory_error_address
        obs["fault"] = [] if fa is None else nb(fa, AW)
        lo = stats.last_ops_addresses
        obs["hist"] = None if lo is None else [nb(a, AW) for a in lo]
        obs["storage"] = stats.storage_mode
        obs["flips"] = int(stats.flip_counter) if stats.detailed_statistics else None
        obs["jumps"] = int(stats.jump_counter) if stats.detailed_statistics else None
    else:
        obs["cause"] = "exception"
        obs["ops"] = -1
        obs["fault"] = []
        obs["hist"] = None
    obs["out"] = list(dev.out)
    obs["inused"] = dev.inpos
    mem = []
    if dev.mem is not None:
        for a in mem_addrs:
            try:
                v = dev.mem.read_word(a)
            except Exception as e:  # noqa: BLE001
                v = None
                obs.setdefault("memread_exc", f"{type(e).__name__}: {e}")
                break
            mem.append([nb(a, AW), nb(v, w // 8)])
    obs["mem"] = mem
    return obs


def write_image(path: Path, w: int, version: int, segments: Sequence[Tuple[int, int, Sequence[int]]]) -> None:
    """write an image with the real Writer. segments: (start_word, length_words, data_words)"""
    from flipjump.fjm.fjm_writer import Writer
    from flipjump.fjm.fjm_consts import FJMVersion

    wr = Writer(path, w, FJMVersion(version))
    for start, length, data in segments:
        ds = wr.add_data(list(data))
        wr.add_segment(start, length, ds, len(data))
    wr.write_to_file()
