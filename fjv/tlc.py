"""
Running TLC and reading what it says.

One runner for the three modes used by the suite:
  E  exhaustive model checking of an MC_* module with a .cfg
  S  simulation (-simulate)
  T  trace / observation validation (a batch of recorded observations in TRACE_FILE)

Behaviours leave TLC as lines  "@@X<json>"  printed by PrintT("@@X" \\o ToJson(v)); the runner
collects them by their one-letter tag.  All numbers that may exceed 2^31 are little-endian byte
lists on both sides (FJNum.tla).
"""
from __future__ import annotations

import json
import os
import re
import shutil
import subprocess
import tempfile
import time
from dataclasses import dataclass, field
from pathlib import Path
from typing import Dict, List, Optional, Sequence

VERIF = Path(__file__).resolve().parent.parent
SPECS = VERIF / "specs"
JAR = "/opt/veriftools/tla/tla2tools.jar:/opt/veriftools/tla/CommunityModules-deps.jar"


class TLCMachineryError(Exception):
    """TLC could not be run / crashed / timed out: a machinery failure (exit 2), never a verdict."""


@dataclass
class TLCResult:
    ok: bool                      # no invariant / property violation, no evaluation error
    generated: int = 0
    distinct: int = 0
    depth: int = 0
    emitted: Dict[str, List] = field(default_factory=dict)   # tag -> list of decoded JSON values
    violation: Optional[str] = None     # text of the first violation block
    raw_tail: str = ""
    wall_s: float = 0.0
    cmd: str = ""
    coverage_zero: List[str] = field(default_factory=list)   # actions never taken (with -coverage)


_STATS = re.compile(r"^(\d+) states generated, (\d+) distinct states found")
_DEPTH = re.compile(r"depth of the complete state graph search is (\d+)")
_SIMGEN = re.compile(r"^The number of states generated: (\d+)")


def _decode_emit(line: str):
    # the line is a TLA+ string literal "....": quotes and backslashes are escaped like JSON
    s = json.loads(line)
    return s[2], json.loads(s[3:])


def run_tlc(
    module: str,
    cfg_text: str,
    *,
    workers: int = 1,
    simulate: Optional[str] = None,      # e.g. "num=1000" -> -simulate num=1000
    depth: Optional[int] = None,
    seed: Optional[int] = None,
    env: Optional[Dict[str, str]] = None,
    timeout: int = 3600,
    heap: str = "3g",
    coverage: bool = False,
    extra_modules: Optional[Dict[str, str]] = None,   # generated .tla files: name -> text
    keep_output: Optional[Path] = None,
) -> TLCResult:
    """run TLC on specs/<module>.tla with the given cfg text in a private scratch dir."""
    scratch = Path(tempfile.mkdtemp(prefix="fjv_tlc_"))
    try:
        for f in SPECS.glob("*.tla"):
            shutil.copy(f, scratch / f.name)
        for name, text in (extra_modules or {}).items():
            (scratch / f"{name}.tla").write_text(text)
        cfg = scratch / f"{module}.cfg"
        cfg.write_text(cfg_text)
        gc = "-XX:+UseSerialGC" if workers == 1 else "-XX:+UseParallelGC"
        # (java.io.tmpdir: TLC leaves an empty tlc-<n> directory per run in the temp dir - keep it inside the scratch dir)
        cmd = ["java", "-Xss512m", gc, f"-Xmx{heap}", f"-Djava.io.tmpdir={scratch}", "-cp", JAR, "tlc2.TLC",
               "-workers", str(workers), "-metadir", str(scratch / "meta"), "-noGenerateSpecTE",
               "-config", str(cfg)]
        if simulate is not None:
            cmd += ["-simulate", simulate]
        if depth is not None:
            cmd += ["-depth", str(depth)]
        if seed is not None:
            cmd += ["-seed", str(seed)]
        if not coverage and os.environ.get("FJV_COVERAGE") == "1" and simulate is None and not module.startswith("Trace_"):
            coverage = True          # thorough tier: per-action coverage of every model-checking run (vacuity report)
        if coverage:
            cmd += ["-coverage", "1"]
        cmd.append(module)
        e = dict(os.environ)
        e.update(env or {})
        t0 = time.time()
        out_path = scratch / "tlc.out"
        with open(out_path, "wb") as out:
            try:
                p = subprocess.run(cmd, cwd=scratch, env=e, stdout=out, stderr=subprocess.STDOUT, timeout=timeout)
            except subprocess.TimeoutExpired:
                raise TLCMachineryError(f"TLC timed out after {timeout}s: {' '.join(cmd)}")
        wall = time.time() - t0
        res = TLCResult(ok=True, wall_s=wall, cmd=" ".join(cmd[:12]) + " ... " + module)
        tail: List[str] = []
        viol: List[str] = []
        in_viol = False
        with open(out_path, "r", errors="replace") as f:
            for line in f:
                line = line.rstrip("\n")
                if line.startswith('"@@'):
                    try:
                        tag, val = _decode_emit(line)
                    except Exception as ex:  # noqa: BLE001
                        raise TLCMachineryError(f"cannot decode emitted line: {line[:200]}") from ex
                    res.emitted.setdefault(tag, []).append(val)
                    continue
                if line.startswith(("Semantic processing", "Parsing file", "Linting of module")):
                    continue
                tail.append(line)
                if len(tail) > 400:
                    del tail[:100]
                m = _STATS.match(line)
                if m:
                    res.generated, res.distinct = int(m.group(1)), int(m.group(2))
                m = _SIMGEN.match(line)
                if m:
                    res.generated = res.distinct = int(m.group(1))
                m = _DEPTH.search(line)
                if m:
                    res.depth = int(m.group(1))
                if line.startswith("Error:") or "is violated" in line:
                    in_viol = True
                if in_viol and len(viol) < 60:
                    viol.append(line)
        res.raw_tail = "\n".join(tail[-80:])
        if keep_output is not None:
            shutil.copy(out_path, keep_output)
        if viol:
            res.ok = False
            res.violation = "\n".join(viol)
        if p.returncode != 0 and res.ok:
            # TLC exit codes: 0 ok, 10-13 violations, others = errors
            res.ok = False
            res.violation = f"TLC exit code {p.returncode}\n" + res.raw_tail[-2000:]
        if "Parsing or semantic analysis failed" in res.raw_tail or "ConfigFileException" in res.raw_tail:
            raise TLCMachineryError("TLC could not load the spec:\n" + res.raw_tail[-3000:])
        if coverage:
            res.coverage_zero = _zero_coverage(out_path)
        return res
    finally:
        shutil.rmtree(scratch, ignore_errors=True)


_COV_ACTION = re.compile(r"^<(\w+) line \d+, col \d+ to line \d+, col \d+ of module (\w+)>: (\d+):(\d+)")


def _zero_coverage(out_path: Path) -> List[str]:
    zero = []
    with open(out_path, "r", errors="replace") as f:
        for line in f:
            m = _COV_ACTION.match(line.strip())
            if m and int(m.group(4)) == 0 and m.group(1) != "Init":
                zero.append(f"{m.group(2)}!{m.group(1)}")
    return sorted(set(zero))


def run_many(jobs: Sequence[dict], parallel: int = 16) -> List[TLCResult]:
    """run several independent TLC jobs (kwargs dicts for run_tlc) side by side."""
    from concurrent.futures import ThreadPoolExecutor

    with ThreadPoolExecutor(max_workers=parallel) as ex:
        futs = [ex.submit(run_tlc, **j) for j in jobs]
        return [f.result() for f in futs]
