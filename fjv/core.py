"""
Check plumbing: evidence files, VIOLATION / KNOWN-FINDING lines, known-findings matching, exit codes.

exit 0  property held on everything explored (known findings are printed, not alarms)
exit 1  at least one violation that known_findings.jsonl does not list
exit 2  machinery failure (TLC / compiler / harness) - never a verdict
"""
from __future__ import annotations

import json
import os
import sys
import time
import traceback
from pathlib import Path
from typing import Any, Dict, List, Optional

VERIF = Path(__file__).resolve().parent.parent
EVIDENCE = VERIF / "evidence"
REPLAYS = VERIF / "replays"
KNOWN = VERIF / "known_findings.jsonl"


def load_known() -> List[dict]:
    out = []
    if KNOWN.exists():
        for line in KNOWN.read_text().splitlines():
            line = line.strip()
            if line and not line.startswith("#"):
                out.append(json.loads(line))
    return out


class MachineryFailure(Exception):
    pass


class Check:
    def __init__(self, pid: str, tier: str, seed: int):
        self.pid, self.tier, self.seed = pid, tier, seed
        self.t0 = time.time()
        self.states = 0
        self.transitions = 0
        self.traces = 0
        self.samples: List[Any] = []
        self.violations: List[dict] = []
        self.known_hits: Dict[str, int] = {}
        self.configs: List[dict] = []
        self.assumptions: List[str] = []
        self.extra: Dict[str, Any] = {}
        self.exhaustive: Optional[bool] = None
        self._known = [k for k in load_known() if k.get("property") == pid and not k.get("fixed")]
        self._nreplay = 0

    # ---- accounting -------------------------------------------------------------------------
    def add_tlc(self, res, name: str, **info: Any) -> None:
        self.states += res.distinct
        self.transitions += res.generated
        d = {"name": name, "distinct": res.distinct, "generated": res.generated, "depth": res.depth,
             "wall_s": round(res.wall_s, 1)}
        d.update(info)
        if getattr(res, "coverage_zero", None):
            d["actions_never_taken"] = res.coverage_zero      # vacuity report (thorough tier runs TLC with -coverage 1)
        self.configs.append(d)
        if not res.ok:
            raise MachineryFailure(f"TLC run '{name}' reported an error in the specification itself:\n{res.violation}")

    def sample(self, s: Any, limit: int = 6) -> None:
        if len(self.samples) < limit:
            self.samples.append(s)

    # ---- verdicts ---------------------------------------------------------------------------
    def violation(self, key: Dict[str, Any], what: str, replay: Any) -> None:
        """record a rejected record. key: classification used for known-findings matching."""
        for k in self._known:
            if all(key.get(a) == b for a, b in k["key"].items()):
                ident = k["id"]
                self.known_hits[ident] = self.known_hits.get(ident, 0) + 1
                return
        self._nreplay += 1
        path = None
        if self._nreplay <= 20:
            REPLAYS.mkdir(exist_ok=True)
            path = REPLAYS / f"{self.pid}_{self.tier}_{self._nreplay}.json"
            path.write_text(json.dumps({"property": self.pid, "key": key, "what": what, "replay": replay}, indent=1, default=str))
        self.violations.append({"key": key, "what": what, "replay": str(path) if path else None})

    # ---- finish -----------------------------------------------------------------------------
    def finish(self) -> int:
        wall = time.time() - self.t0
        for k in self._known:
            n = self.known_hits.get(k["id"], 0)
            if n:
                print(f"KNOWN-FINDING: property={self.pid} {k['id']}: {k['what']} ({n} occurrence(s) in this run)")
        if self.violations:
            agg: Dict[str, int] = {}
            for v in self.violations:
                k = json.dumps(v["key"], sort_keys=True)
                agg[k] = agg.get(k, 0) + 1
            for k, n in sorted(agg.items(), key=lambda x: -x[1])[:15]:
                print(f"  violation class x{n}: {k}")
        if self.violations:
            REPLAYS.mkdir(exist_ok=True)
            (REPLAYS / f"{self.pid}_{self.tier}_all.txt").write_text("\n".join(json.dumps(v["key"], sort_keys=True) + " :: " + v["what"] for v in self.violations) + "\n")
        for v in self.violations[:20]:
            print(f"VIOLATION property={self.pid} replay={v['replay']}")
            print(f"  what: {v['what']}")
        cov: Dict[str, Any] = {
            "states": max(self.states, 0),
            "transitions": max(self.transitions, 0),
            "traces_validated_against_impl": self.traces,
            "samples": self.samples or ["(no sample recorded)"],
            "tlc_runs": self.configs,
            "known_findings_hit": self.known_hits,
        }
        if self.exhaustive is not None:
            cov["exhaustive"] = self.exhaustive
        cov.update(self.extra)
        ev = {
            "property_id": self.pid, "tier": self.tier, "seed": self.seed, "level": "model_checking",
            "coverage": cov, "assumptions": self.assumptions, "wall_s": round(wall, 2),
            "violations": len(self.violations),
        }
        EVIDENCE.mkdir(exist_ok=True)
        (EVIDENCE / f"{self.pid}.json").write_text(json.dumps(ev, indent=1, default=str))
        print(f"{self.pid} {self.tier}: states={self.states} transitions={self.transitions} "
              f"traces={self.traces} violations={len(self.violations)} known={sum(self.known_hits.values())} "
              f"wall={wall:.1f}s")
        return 1 if self.violations else 0


def main_wrapper(pid: str, fn) -> int:
    """run fn(check) with the standard CLI/env contract."""
    import argparse

    ap = argparse.ArgumentParser()
    ap.add_argument("--tier", default=os.environ.get("VERIF_TIER", "quick"), choices=["quick", "thorough"])
    ap.add_argument("--replay", default=None)
    args, _ = ap.parse_known_args(sys.argv[2:])
    seed = int(os.environ.get("VERIF_SEED", "0") or 0)
    chk = Check(pid, args.tier, seed)
    # per-action coverage (TLC -coverage 1) is opt-in (FJV_COVERAGE=1): with the recursive operators of these specs it made a
    # 7-second model-checking run exhaust a 4 GB heap, so no tier turns it on by itself
    try:
        fn(chk, replay=args.replay)
        return chk.finish()
    except Exception:  # noqa: BLE001  machinery failure
        traceback.print_exc()
        print(f"MACHINERY-FAILURE property={pid}")
        return 2
