"""process-pool helper: every worker imports flipjump from /repo with the freshly built native engine."""
from __future__ import annotations

import multiprocessing as mp
import os
from typing import Callable, Iterable, List, Optional

_state = {}


def _init(so_path: Optional[str], native: bool):
    from fjv import engines

    _state["fjm_run"] = engines.setup(native=native, so_path=so_path)


def fjm_run():
    return _state["fjm_run"]


def pmap(fn: Callable, items: Iterable, *, so_path: Optional[str], native: bool = True, procs: int = 16,
         chunksize: int = 8) -> List:
    items = list(items)
    if not items:
        return []
    procs = max(1, min(procs, len(items)))
    ctx = mp.get_context("fork")
    with ctx.Pool(procs, initializer=_init, initargs=(so_path, native)) as pool:
        return pool.map(fn, items, chunksize=chunksize)
