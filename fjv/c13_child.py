"""
child of the C13 check: executes one history of assemble() calls in ONE interpreter and logs, after every call,
the digest of the produced files (or the failure class), the stl parse-cache keys with a deep structural digest
of every snapshot, and the interpreter's recursion limit.
argv: <history.json> <out.json>
"""
import hashlib
import io
import json
import os
import sys
import contextlib
from pathlib import Path


def deep_digest(obj, h, depth=0, seen=None):
    if seen is None:
        seen = set()
    if depth > 60:
        h.update(b"<deep>")
        return
    if isinstance(obj, (int, str, bool, float, type(None), bytes)):
        h.update(repr(obj).encode())
        return
    if isinstance(obj, (list, tuple)):
        h.update(b"[" if isinstance(obj, list) else b"(")
        for x in obj:
            deep_digest(x, h, depth + 1, seen)
        h.update(b"]")
        return
    if isinstance(obj, dict):
        h.update(b"{")
        for k in sorted(obj, key=repr):
            h.update(repr(k).encode())
            deep_digest(obj[k], h, depth + 1, seen)
        h.update(b"}")
        return
    if isinstance(obj, (set, frozenset)):
        for x in sorted(obj, key=repr):
            deep_digest(x, h, depth + 1, seen)
        return
    h.update(type(obj).__name__.encode())
    if id(obj) in seen:
        h.update(b"<cycle>")
        return
    seen.add(id(obj))
    d = getattr(obj, "__dict__", None)
    if d is not None:
        deep_digest(d, h, depth + 1, seen)
    else:
        slots = getattr(type(obj), "__slots__", ())
        for s in slots:
            deep_digest(getattr(obj, s, None), h, depth + 1, seen)
    seen.discard(id(obj))


def _norm_key(x):
    """a cache key without its time stamps / sizes, whatever its shape: strings, booleans and small integers (widths) are kept"""
    if isinstance(x, (tuple, list)):
        return tuple(_norm_key(y) for y in x)
    if isinstance(x, (str, bool)):
        return x
    if isinstance(x, int):
        return x if abs(x) < 4096 else "#"
    return "#"


def main():
    hist_path, out_path = sys.argv[1:3]
    spec = json.load(open(hist_path))
    sys.path.insert(0, os.environ.get("FJV_REPO", "/repo"))
    import flipjump
    from flipjump.assembler import fj_parser
    from flipjump.fjm.fjm_consts import FJMVersion
    from flipjump.utils.exceptions import FlipJumpException
    from flipjump.utils.functions import get_stl_paths

    steps = []
    for n, c in enumerate(spec["calls"]):
        work = Path(spec["workdirs"][n % len(spec["workdirs"])])
        os.chdir(work)
        out = work / f"out_{n}.fjm"
        dbg = work / f"out_{n}.fjd"
        for f in (out, dbg):
            if f.exists():
                f.unlink()
        prog = Path(spec["progdir"]) / c["prog"]
        files = [prog]
        use_stl = True
        if c["mode"] == "nostl":
            use_stl = False
        elif c["mode"] == "explicit":
            files = list(get_stl_paths()) + [prog]
            use_stl = False
        elif c["mode"] == "partial":
            # ONE library file in front of the program, without runlib.fj: it parses with warnings (labels it expects from
            # the rest of the library), so the two warning modes have different outcomes for the same files and width
            files = [x for x in get_stl_paths() if str(x).replace("\\", "/").endswith("bit/memory.fj")] + [prog]
            use_stl = False
        digest = None
        try:
            with contextlib.redirect_stdout(io.StringIO()):
                flipjump.assemble(files, out, memory_width=c["w"], use_stl=use_stl, fjm_version=FJMVersion(c.get("version", 3)),
                                  warning_as_errors=c["werror"], debugging_file_path=dbg, print_time=False,
                                  max_recursion_depth=c["depth"])
            hh = hashlib.sha256()
            hh.update(out.read_bytes())
            hh.update(b"|")
            hh.update(dbg.read_bytes())
            digest = "ok:" + hh.hexdigest()[:24]
        except FlipJumpException as e:
            generic = "Unknown exception" in str(e)
            digest = "fail:" + type(e).__name__ + (":generic" if generic else "") + (":file-left" if out.exists() else "")
        except BaseException as e:  # noqa: BLE001
            digest = "raw:" + type(e).__name__
        keys, snaps = [], []
        for k, v in fj_parser._stl_prefix_cache.items():
            # the key without the time stamps: every string component (short names, paths) of every file entry
            kh = hashlib.sha256(repr(_norm_key(k)).encode()).hexdigest()[:16]
            h = hashlib.sha256()
            # digest exactly what a cache hit restores: the consts, every macro but the main one, the main macro's
            # header and the separately saved list of its top-level ops (the cached main Macro object's own ops list
            # is live and never read back - it is not part of the snapshot)
            consts, macros, main_ops = v
            main = [m for name, m in macros.items() if str(name) == ""]
            rest = {name: m for name, m in macros.items() if str(name) != ""}
            main_meta = [(m.params, m.local_params, m.namespace, m.code_position) for m in main]
            deep_digest((consts, rest, main_meta, main_ops), h)
            keys.append(kh)
            snaps.append(h.hexdigest()[:24])
        steps.append({"c": c["id"], "digest": digest, "keys": keys, "snaps": snaps, "reclimit": sys.getrecursionlimit(),
                      "ns": list(getattr(fj_parser, "curr_namespace", []) or [])})
    json.dump(steps, open(out_path, "w"))


if __name__ == "__main__":
    main()
