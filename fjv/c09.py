"""
C09 - library input / print / cast macros are exact inverses of the byte encoding.

Same machinery as C04/C05 with the IO part of StlSem.tla: the state has an input bit stream and an output bit
stream; the arena's device serves each step's input bits (zeros after the end) and collects the bits the macro under
test writes (marker bits are told apart by a flag cell).  Macros: hex.input_hex / input / input_as_hex /
input_dec_uint(_until) / input_dec_int(_until), hex.output / print / print_as_digit / print_uint / print_int /
print_dec_uint / print_dec_int, bit.input_bit / input, bit.output / print / print_as_digit / print_hex_uint /
print_hex_int / print_dec_uint / print_dec_int, stl.bit2hex / hex2bit.  TLC prescribes, per step, the variables, the
branch (error branches included), the exact output bits and the number of input bits consumed.
"""
from __future__ import annotations

import random
from typing import List

from fjv import engines
from fjv.arena import Arena, Block
from fjv.core import Check
from fjv.stl_common import assemble_blaming, compare, oracle, run_behaviours

HEXV = ["x", "y", "z"]
BITV = ["p", "q"]
ERRV = ["r"]          # a one-bit error flag
NDH, NDB = 18, 70


def io_blocks(rng: random.Random, sizes: List[int]) -> List[Block]:
    B: List[Block] = []

    def addh(key, fj, nv, n=0, m=0, c=0, branches=(), name=None, sh=0):
        B.append(Block(key, fj, rng.sample(HEXV, nv), n, m, sh, c, branches, name or fj.split(" ")[0], B=16))

    def addb(key, fj, nv, n=0, m=0, c=0, branches=(), name=None):
        B.append(Block(key, fj, rng.sample(BITV, nv), n, m, 0, c, branches, name or fj.split(" ")[0], B=2))

    addh("in_hex", "hex.input_hex {v0}", 1, 1)
    addh("in_bytes", "hex.input {v0}", 1, 1, name="hex.input(1)")
    addh("out_hex", "hex.output {v0}", 1, 1)
    addh("out_bytes", "hex.print {v0}", 1, 1, name="hex.print(1)")
    addh("in_as_hex", "hex.input_as_hex {v0}, {error}", 1, 1, branches=("error",), name="hex.input_as_hex(2)")
    for up in (0, 1):
        addh("print_digits", "hex.print_as_digit {v0}, {c}", 1, 1, c=up, name="hex.print_as_digit(2)")
    addb("in_bit", "bit.input_bit {v0}", 1, 1)
    addb("in_bytes", "bit.input {v0}", 1, 1, name="bit.input(1)")
    addb("out_bit", "bit.output {v0}", 1, 1)
    addb("out_bytes", "bit.print {v0}", 1, 1, name="bit.print(1)")
    addb("print_bits", "bit.print_as_digit {v0}", 1, 1, name="bit.print_as_digit(1)")
    for n in sizes:
        addh("in_bytes", "hex.input {n}, {v0}", 1, n, name="hex.input(2)")
        addh("out_bytes", "hex.print {n}, {v0}", 1, n, name="hex.print(2)")
        addh("in_as_hex", "hex.input_as_hex {n}, {v0}, {error}", 1, n, branches=("error",), name="hex.input_as_hex(3)")
        addh("print_digits", "hex.print_as_digit {n}, {v0}, {c}", 1, n, c=rng.randrange(2), name="hex.print_as_digit(3)")
        addh("print_uint", "hex.print_uint {n}, {v0}, {m}, {c}", 1, n, m=rng.randrange(2), c=rng.randrange(2))
        addh("print_int", "hex.print_int {n}, {v0}, {m}, {c}", 1, n, m=rng.randrange(2), c=rng.randrange(2))
        addh("print_dec_uint", "hex.print_dec_uint {n}, {v0}", 1, n)
        addh("print_dec_int", "hex.print_dec_int {n}, {v0}", 1, n)
        addh("in_dec_until", "hex.input_dec_uint_until {n}, {v0}, {v1}", 2, n)
        addh("in_idec_until", "hex.input_dec_int_until {n}, {v0}, {v1}", 2, n)
        addh("in_dec", "hex.input_dec_uint {n}, {v0}, {error}", 1, n, branches=("error",))
        addh("in_idec", "hex.input_dec_int {n}, {v0}, {error}", 1, n, branches=("error",))
        addb("in_bytes", "bit.input {n}, {v0}", 1, n, name="bit.input(2)")
        addb("out_bytes", "bit.print {n}, {v0}", 1, n, name="bit.print(2)")
        nb = 4 * n
        addb("print_bits", "bit.print_as_digit {n}, {v0}", 1, nb if nb <= 16 else 8, name="bit.print_as_digit(2)")
        B[-1].fj = "bit.print_as_digit {n}, {v0}"
        addb("print_uint", "bit.print_hex_uint {n}, {v0}, {m}", 1, nb, m=rng.randrange(2))
        addb("print_int", "bit.print_hex_int {n}, {v0}, {m}", 1, nb, m=rng.randrange(2))
        addb("print_dec_uint", "bit.print_dec_uint {n}, {v0}", 1, nb)
        addb("print_dec_int", "bit.print_dec_int {n}, {v0}", 1, nb)
        # casts between the namespaces: v0 is the destination
        for nbits in (nb, nb - 1, nb - 3, max(1, nb - 2)):
            B.append(Block("bit2hex", "stl.bit2hex {n}, {v0}, {v1}", [rng.choice(HEXV), rng.choice(BITV)], nbits, name="stl.bit2hex(3)", B=16))
        B.append(Block("hex2bit", "stl.hex2bit {n}, {v0}, {v1}", [rng.choice(BITV), rng.choice(HEXV)], n, name="stl.hex2bit(3)", B=16))
    # casts between values and ASCII (v0 = the destination / the error flag); print_str
    p_, q_ = BITV
    for a_, b_ in ((p_, q_), (q_, p_)):
        B.append(Block("bin2ascii", "bit.bin2ascii {v0}, {v1}", [a_, b_], 1, B=2))
        B.append(Block("dec2ascii", "bit.dec2ascii {v0}, {v1}", [a_, b_], 4, B=2))
        B.append(Block("hex2ascii", "bit.hex2ascii {v0}, {v1}", [a_, b_], 4, B=2))
    for key, nm in (("ascii2bin", "bit.ascii2bin"), ("ascii2dec", "bit.ascii2dec"), ("ascii2hex", "bit.ascii2hex")):
        B.append(Block(key, nm + " {v0}, {v1}, {v2}", ["r", p_, q_], 8, B=2))
        B.append(Block(key, nm + " {v0}, {v1}, {v2}", ["r", q_, p_], 8, B=2))
    for n in sizes[:3]:
        B.append(Block("print_str", "bit.print_str {n}, {v0}", [rng.choice(BITV)], n, B=2))
    B.append(Block("bit2hex", "stl.bit2hex {v0}, {v1}", [rng.choice(HEXV), rng.choice(BITV)], 1, name="stl.bit2hex(2)", B=16))
    B.append(Block("hex2bit", "stl.hex2bit {v0}, {v1}", [rng.choice(BITV), rng.choice(HEXV)], 1, name="stl.hex2bit(2)", B=16))
    return B


def bits_of(data: bytes) -> List[int]:
    return [(b >> i) & 1 for b in data for i in range(8)]


def gen_input(rng: random.Random, key: str, n: int) -> List[int]:
    """input bytes for an input macro: valid numerals at every boundary, invalid bytes at every position, missing terminators"""
    if key in ("in_dec", "in_idec", "in_dec_until", "in_idec_until"):
        top = 16 ** n
        v = rng.choice([0, 1, 9, 10, 99, 100, top - 1, top, top + 1, top // 2, top // 2 - 1, top // 2 + 1, 10 ** len(str(top)) - 1, rng.randrange(top), rng.randrange(10 * top)])
        s = str(v)
        if key.startswith("in_idec") and rng.random() < 0.5:
            s = "-" + s
        r = rng.random()
        if r < 0.12:
            s = s[: rng.randrange(len(s) + 1)] + rng.choice(":/ax-+ \x00\xff;9") + s[rng.randrange(len(s) + 1):]
        elif r < 0.18:
            s = ""
        elif r < 0.24:
            s = "0" * rng.randrange(1, 4) + s
        term = rng.choice(["\n", "\n", "\x00", "", ":", " ", "\r\n", "a"])
        return bits_of((s + term).encode("latin-1") + bytes(rng.randrange(256) for _ in range(2)))
    if key == "in_as_hex":
        chars = "0123456789abcdefABCDEF"
        s = "".join(rng.choice(chars) for _ in range(n))
        if rng.random() < 0.3:
            k = rng.randrange(n)
            s = s[:k] + rng.choice("gG/:@`{ \x00\xff") + s[k + 1:]
        return bits_of(s.encode("latin-1"))
    nb = rng.choice([0, 1, 3, 8 * n, 8 * n + 5])
    return [rng.randrange(2) for _ in range(nb)]


def gen_val(rng: random.Random, nd: int, base_bits: int, n: int) -> int:
    top = 1 << (base_bits * max(n, 1))
    low = rng.choice([0, 1, 9, 10, 15, 16, 99, 100, 255, top - 1, top // 2, top // 2 - 1, top // 2 + 1, rng.randrange(top), rng.randrange(top)]) % top
    return (rng.randrange(1 << (base_bits * (nd - n))) if rng.random() < 0.7 else 0) * top + low


def run_width(chk: Check, fjm_run, w: int, sizes: List[int], count: int, rng: random.Random):
    blocks = io_blocks(rng, sizes)
    def make(bl):
        a = Arena(fjm_run, w, "hex", HEXV + BITV + ERRV, NDH, bl)
        for v in BITV:
            a.var_kind[v] = "bit"
            a.var_nd[v] = NDB
        a.var_kind["r"] = "bit"
        a.var_nd["r"] = 3
        return a
    arena, blocks = assemble_blaming(chk, make, blocks, f"io w={w}")
    try:
        behs = []
        for i in range(count):
            beh = []
            for k in range(rng.choice([1, 1, 2, 3])):
                bi = i % len(blocks) if k == 0 else rng.randrange(len(blocks))
                blk = blocks[bi]
                nn = blk.n if blk.B == 16 or blk.key in ("print_bits",) else max(1, blk.n)
                st = {"block": bi, "set": {}, "inp": gen_input(rng, blk.key, blk.n)}
                for v in (HEXV + BITV + ERRV if k == 0 else blk.v):
                    if v == "r":
                        st["set"][v] = rng.randrange(8)
                    elif blk.key.startswith("ascii2") and v == blk.v[2]:
                        ch = rng.choice([rng.choice(b"0123456789abcdefABCDEF"), rng.choice(b"/:@G`g"), rng.randrange(256)])
                        st["set"][v] = (rng.randrange(1 << (NDB - 8)) << 8) | ch
                    elif v in HEXV:
                        st["set"][v] = gen_val(rng, NDH, 4, min(blk.n if blk.B == 16 else (blk.n + 3) // 4, NDH))
                    else:
                        st["set"][v] = gen_val(rng, NDB, 1, min(blk.n if blk.B == 2 else 4 * blk.n, NDB))
                beh.append(st)
            behs.append(beh)
        expected = oracle(chk, 16, HEXV + BITV + ERRV, blocks, behs, f"StlSem[io w={w}]")
        results, broken = run_behaviours(arena, behs)
        n = compare(chk, arena, behs, results, broken, expected, blocks, f"io w={w}")
        chk.traces += len(behs)
        chk.extra["steps_compared"] = chk.extra.get("steps_compared", 0) + n
        chk.extra.setdefault("arenas", []).append({"w": w, "blocks": len(blocks), "assemble_s": round(arena.asm_seconds, 1),
                                                   "macros": sorted({b.name for b in blocks}), "behaviours": len(behs)})
        chk.sample({"kind": "io behaviour", "w": w, "steps": [{"macro": blocks[s["block"]].fj, "n": blocks[s["block"]].n, "input_bits": len(s["inp"])} for s in behs[0]]})
    finally:
        arena.close()


def run(chk: Check, replay=None):
    quick = chk.tier == "quick"
    rng = random.Random(chk.seed + 9)
    so = str(engines.build_native())
    fjm_run = engines.setup(so_path=so)
    chk.assumptions += ["StlSem.tla (IO part) transcribes the documentation of the input / print / cast macros; after the step's input the device serves zero bits "
                        "(a real end of input would end the whole run); on a documented error branch the destination is unspecified",
                        "the pointer-based buffer helpers of hex/strings.fj are covered with the pointer macros (C08)"]
    from fjv import c08
    if quick:
        run_width(chk, fjm_run, 64, [1, 2, 4], 2500, rng)
        run_width(chk, fjm_run, 32, [3], 600, rng)
        # the byte-buffer helpers (line input, text / line print, fill, copy) on the pointer arena of C08
        c08.run_arena(chk, fjm_run, 64, c08.buffer_blocks(rng, 64), True, 300, 3, rng, "buffers")
        c08.run_arena(chk, fjm_run, 32, c08.buffer_blocks(rng, 32), True, 150, 3, rng, "buffers")
    else:
        run_width(chk, fjm_run, 64, [1, 2, 3, 4, 6, 8], 40000, rng)       # sizes in bytes: 2n hex digits / 8n bits must fit the variables
        run_width(chk, fjm_run, 32, [1, 2, 5, 8], 20000, rng)
        c08.run_arena(chk, fjm_run, 64, c08.buffer_blocks(rng, 64), True, 6000, 5, rng, "buffers")
        c08.run_arena(chk, fjm_run, 32, c08.buffer_blocks(rng, 32), True, 3000, 5, rng, "buffers")
