"""
C19 - devices see the same program memory under every engine; the screen decodes its command stream.

(a) FJMachineDev.tla = FJMachine + a device that reads / writes words and packed bytes of the program memory
    inside its IO callbacks (in-segment: the program's word; elsewhere: a device-private shadow, 0 until
    written).  Scripted devices are run on every engine and storage mode; the values every access returned,
    the run's outcome and the final memory are judged by TLC (Trace_FJMachineDev).
(b) FJScreen.tla models the screen's command decoder, one action per byte.  TLC explores all sequences of
    <= 3 commands over a command alphabet with valid and malformed parameters (plus truncations) and emits the
    device state after EVERY byte; the real InMemoryScreen is fed the same bytes (as bits) over a
    dictionary-backed DeviceMemory at w = 16/32/64 and compared after every byte.
(c) end-to-end: images that draw from program memory are run on every engine with InMemoryScreen; the frames
    (pixels, palette) must equal what FJScreen prescribes for the bytes FJMachine says the program outputs.
"""
from __future__ import annotations

import itertools
import json
import random
import shutil
import tempfile
from pathlib import Path
from typing import Dict, List, Tuple

from fjv import c01, engines, par, tlc
from fjv.core import Check, MachineryFailure
from fjv.engines import AW, bn, nb

MEMBYTES = [0x11, 0xF2, 0x03, 0xA4, 0x5F, 0x06, 0xE7, 0x18, 0x29, 0xCA, 0x0B, 0x3C, 0xFD, 0x4E, 0x9F, 0x10, 0x81, 0x72]


def u16(v):
    return [v & 255, v >> 8]


def command_alphabet(ab: int) -> List[List[int]]:
    dw = 16 * ab
    addr = lambda k: list((k * dw).to_bytes(ab, "little"))  # noqa: E731
    cmds = [
        [1] + u16(2) + u16(2) + [8] + u16(2),          # init 2x2 bpp8 pal 2
        [1] + u16(3) + u16(1) + [4] + u16(1),          # init 3x1 bpp4 pal 1
        [1] + u16(2) + u16(1) + [3] + u16(1),          # bad bpp
        [1] + u16(0) + u16(2) + [8] + u16(0),          # zero width
        [1] + u16(1) + u16(0) + [4] + u16(0),          # zero height
        [2] + addr(0),                                 # set palette at op 0
        [2] + addr(5),
        [3] + addr(1),                                 # update screen
        [3] + addr(12),
        [4] + u16(0) + u16(0) + u16(1) + u16(1) + addr(2),     # rect inside
        [4] + u16(1) + u16(0) + u16(1) + u16(1) + addr(0),     # rect at the right edge
        [4] + u16(1) + u16(1) + u16(2) + u16(1) + addr(0),     # rect sticking out (x)
        [4] + u16(0) + u16(1) + u16(1) + u16(2) + addr(0),     # rect sticking out (y)
        [4] + u16(0) + u16(0) + u16(0) + u16(0) + addr(3),     # empty rect
        [5, 0x0F, 0xF3, 0x80, 0x07],                   # raw frame for a 2x2 screen (or 3x1 + next command byte)
        [5, 0x1E, 0x2D, 0x3C],                         # raw for 3x1
        [9],                                           # unknown command
        [0],                                           # unknown command 0
    ]
    return cmds


def streams(ab: int, maxcmds: int, rng: random.Random, cap: int) -> List[List[int]]:
    cmds = command_alphabet(ab)
    out = []
    for n in range(1, maxcmds + 1):
        for combo in itertools.product(range(len(cmds)), repeat=n):
            s = []
            for c in combo:
                s += cmds[c]
            out.append(s)
    if len(out) > cap:
        keep = out[: len(cmds) + len(cmds) ** 2]          # all singles and pairs
        rest = out[len(keep):]
        keep += rng.sample(rest, cap - len(keep))
        out = keep
    # rectangle geometry sweep: every x, y in 0..2 and rw, rh in 0..3 on a 2x2 and a 3x2 screen
    dw = 16 * ab
    for (sw, sh) in ((2, 2), (3, 2)):
        init = [1] + u16(sw) + u16(sh) + [8] + u16(1)
        for x in range(3):
            for y in range(3):
                for rw in range(4):
                    for rh in range(4):
                        out.append(init + [4] + u16(x) + u16(y) + u16(rw) + u16(rh) + list((dw * ((x + y) % 3)).to_bytes(ab, "little")))
    # the program changes its memory between two commands that read the same place (item 1000 + 256*k + v: the packed byte
    # of op k becomes v): the device must read memory when the command arrives, not remember what it read before
    poke = lambda k, v: 1000 + 256 * k + v  # noqa: E731
    init22 = [1] + u16(2) + u16(2) + [8] + u16(2)
    addr_ = lambda k: list((k * dw).to_bytes(ab, "little"))  # noqa: E731
    for a_ in (0, 5, 12):
        for k_ in (a_, a_ + 1, a_ + 5):
            out.append(init22 + [2] + addr_(a_) + [poke(k_, 0x77)] + [2] + addr_(a_))                      # palette twice
            out.append(init22 + [3] + addr_(a_) + [poke(k_, 0x3C)] + [3] + addr_(a_))                      # full update twice
            out.append(init22 + [2] + addr_(a_) + [3] + addr_(1) + [poke(k_, 0x99)] + [2] + addr_(a_) + [3] + addr_(1))
        out.append(init22 + [4] + u16(0) + u16(0) + u16(2) + u16(1) + addr_(a_) + [poke(a_ + 1, 0xEE)] + [4] + u16(0) + u16(0) + u16(2) + u16(1) + addr_(a_))
    uniq = sorted({tuple(s) for s in out})
    return [list(s) for s in uniq]


def screen_cfg(ab: int, attached: bool, strs: List[List[int]]) -> Tuple[str, Dict[str, str]]:
    tl = lambda xs: "<<" + ", ".join(map(str, xs)) + ">>"  # noqa: E731
    root = f"""---- MODULE MCscr ----
EXTENDS FJScreen
Mem_def == {tl(MEMBYTES)}
Str_def == {{{", ".join(tl(s) for s in strs)}}}
====
"""
    cfg = f"""SPECIFICATION Spec
CONSTANTS
  AB = {ab}
  MemBytes <- Mem_def
  Attached = {"TRUE" if attached else "FALSE"}
  Streams <- Str_def
  EmitOn = TRUE
INVARIANT PixelsWellFormed
INVARIANT PaletteWellFormed
PROPERTY FrameOnlyOnUpdate
PROPERTY ErrorIsFinal
CONSTRAINT Emit
CHECK_DEADLOCK FALSE
"""
    return cfg, {"MCscr": root}


def _screen_replay(args):
    ab, attached, stream, states = args
    par.fjm_run()
    from flipjump.interpreter.io_devices.ScreenIO import InMemoryScreen
    from flipjump.interpreter.io_devices.device_memory import DeviceMemory
    from flipjump.utils.exceptions import IODeviceException

    w = 8 * ab

    class DictMem(DeviceMemory):
        def __init__(self):
            self.memory_width = w
            self.d = {}

        def read_word(self, a):
            return self.d.get(a, 0)

        def write_word(self, a, v):
            self.d[a] = v & ((1 << w) - 1)

    mem = DictMem()
    for k, b in enumerate(MEMBYTES):
        mem.d[2 * k + 1] = (b << w.bit_length()) | (k & 1)      # packed byte in bits #w..#w+7, noise below
    scr = InMemoryScreen()
    if attached:
        scr.attach_memory(mem)
    bad = []
    errored = False
    by_fed = {st["fed"]: st for st in states}
    for i, byte in enumerate(stream):
        if errored:
            break
        exc = None
        try:
            if byte >= 1000:            # not a byte for the device: the program memory changes
                k_, v_ = (byte - 1000) // 256, (byte - 1000) % 256
                mem.d[2 * k_ + 1] = (v_ << w.bit_length()) | (k_ & 1)
            else:
                for bit in range(8):
                    scr.write_bit(bool((byte >> bit) & 1))
        except IODeviceException:
            errored = True
        except Exception as e:  # noqa: BLE001
            exc = f"{type(e).__name__}: {e}"
            errored = True
        st = by_fed.get(i + 1)
        if st is None:
            bad.append({"stream": stream, "fed": i + 1, "what": "specification has no state for this prefix (it stopped earlier)"})
            break
        got = {"err": errored, "width": scr.width, "height": scr.height, "bpp": scr.bpp,
               "palette": [list(c) for c in scr.palette], "pixels": list(scr.pixel_indices), "frames": scr.frame_count}
        exp = {k: st[k] for k in got}
        if exc:
            got["exception"] = exc
        if got != exp:
            bad.append({"stream": stream, "fed": i + 1, "ab": ab, "attached": attached, "got": got, "expected": exp})
            break
    return bad


def run_screen(chk: Check, quick: bool, rng: random.Random, so: str):
    jobs = []
    metas = []
    for ab, attached in [(2, True), (4, True), (8, True), (4, False)]:
        strs = streams(ab, 3, rng, 4000 if not quick else 1200)
        # truncations of every stream are covered: the spec emits every prefix state
        cfg, extra = screen_cfg(ab, attached, strs)
        jobs.append(dict(module="MCscr", cfg_text=cfg, extra_modules=extra, workers=2, heap="4g", timeout=3000))
        metas.append((ab, attached, strs))
    results = tlc.run_many(jobs, parallel=4)
    work = []
    for (ab, attached, strs), res in zip(metas, results):
        chk.add_tlc(res, f"FJScreen[w={8 * ab},attached={attached}]", streams=len(strs), exhaustive=True)
        by_stream: Dict[tuple, list] = {}
        for st in res.emitted.get("R", []):
            by_stream.setdefault(tuple(st["stream"]), []).append(st)
        for s in strs:
            work.append((ab, attached, s, by_stream.get(tuple(s), [])))
    e2e_pool = [(ab, s_, sts) for ab, attached, s_, sts in work if attached and sts]
    bad_lists = par.pmap(_screen_replay, work, so_path=so, procs=16, chunksize=32)
    chk.traces += len(work)
    chk.extra["screen_streams_replayed"] = len(work)
    chk.sample({"kind": "screen stream", "stream": work[0][2], "states": work[0][3][:3]})
    for bl in bad_lists:
        for b in bl:
            chk.violation({"part": "screen", "w": 8 * b.get("ab", 0)},
                          f"InMemoryScreen differs from FJScreen after byte {b['fed']} of stream {b['stream']}: got {b.get('got')} expected {b.get('expected')}", b)
    return e2e_pool


# ---------------------------------------------------------------------------------------------
# (c) end to end: a program whose ops hold MemBytes and whose code prints a command stream, with the real screen
#     as its IO device, on every engine

E2E_ENGINES = ["featured", "fast", "native-flat", "native-flat-ring", "native-paged", "native-paged-ring", "native-measured", "native-hybrid:3"]
CODE_OP = 0x72        # MemBytes[17] = 0x72: op 17's jump word, read as an address, is op 0x72


def e2e_image(w: int, stream: List[int]) -> List[int]:
    """words of the program: op k (k < 18) carries the packed byte MEMBYTES[k] in its jump word; op 0 -> op 0x11 = 17 -> op 0x72,
    where one op per output bit prints the stream; the last op loops on itself (halts)."""
    sh = w.bit_length()
    dw = 2 * w
    nops = CODE_OP + 8 * len(stream) + 1
    words = [0] * (2 * nops + 2)
    scratch = (2 * nops) * w            # a word after the code: harmless flip target
    for k, b in enumerate(MEMBYTES):
        words[2 * k + 1] = b << sh
    assert MEMBYTES[0] == 0x11 and MEMBYTES[17] == CODE_OP
    words[0] = scratch
    words[2 * 17] = scratch + 1
    op = CODE_OP
    for byte in stream:
        for bit in range(8):
            words[2 * op] = dw + ((byte >> bit) & 1)
            words[2 * op + 1] = (op + 1) * dw
            op += 1
    words[2 * op] = scratch + 2
    words[2 * op + 1] = op * dw
    return words


def _e2e_run(args):
    idx, ab, stream, states = args
    fjm_run = par.fjm_run()
    from flipjump.interpreter.io_devices.ScreenIO import InMemoryScreen
    from flipjump.utils.exceptions import IODeviceException

    w = 8 * ab

    class RecScreen(InMemoryScreen):
        def __init__(self):
            super().__init__()
            self.out, self.inpos, self.mem = [], 0, None

        def attach_memory(self, dm):
            self.mem = dm
            return super().attach_memory(dm)

        def write_bit(self, bit):
            self.out.append(1 if bit else 0)
            return super().write_bit(bit)

    words = e2e_image(w, stream)
    final = max(states, key=lambda st: st["fed"])
    d = Path(tempfile.mkdtemp(prefix="fjv_c19e_"))
    bad, recs = [], []
    try:
        path = d / "p.fjm"
        engines.write_image(path, w, idx % 4, [(0, len(words), words)])
        addrs = [0, 1, 2, 3, 2 * 17, 2 * 17 + 1, len(words) - 2, len(words) - 1]
        base = {"w": w, "segs": [[nb(0, AW), nb(len(words), AW)]], "data": [[nb(i, AW), nb(v, w // 8)] for i, v in enumerate(words) if v], "inp": []}
        for en in E2E_ENGINES:
            scr = RecScreen()
            obs = engines.run_engine(fjm_run, path, en, [], w=w, mem_addrs=addrs, budget_s=20.0, ring_len=40, device=scr)
            got = {"err": bool(obs["exc"]), "width": scr.width, "height": scr.height, "bpp": scr.bpp,
                   "palette": [list(c) for c in scr.palette], "pixels": list(scr.pixel_indices), "frames": scr.frame_count}
            exp = {k: final[k] for k in got}
            if got != exp or (obs["exc"] and not obs["exc"].split(":")[0].endswith("IODeviceException") and "IODevice" not in obs["exc"]):
                bad.append({"engine": en, "w": w, "stream": stream, "got": got, "expected": exp, "exc": obs["exc"]})
            if not final["err"] and not obs["exc"]:
                # the machine half: the run itself (output bits, ops, cause, memory) is judged by TLC against FJMachine
                o = {"cause": obs["cause"], "ops": max(obs["ops"], 0), "fault": obs["fault"], "out": obs["out"], "inused": obs["inused"], "mem": obs["mem"],
                     "hashist": obs["hist"] is not None, "hist": obs["hist"] or [], "ringlen": 40}
                r = dict(base)
                r.update(obs=o, engine=en, stream=stream)
                recs.append(r)
    finally:
        shutil.rmtree(d, ignore_errors=True)
    return {"bad": bad, "recs": recs}


def run_e2e(chk: Check, quick: bool, rng: random.Random, so: str, pool):
    per_w = 10 if quick else 120
    jobs = []
    for ab in (2, 4, 8):
        cand = [(s_, sts) for a, s_, sts in pool if a == ab and len(s_) <= 40 and all(x < 256 for x in s_)]
        # prefer streams that present a frame from program memory; keep some that end in a device error
        good = [c for c in cand if max(c[1], key=lambda st: st["fed"])["frames"] > 0]
        errs = [c for c in cand if max(c[1], key=lambda st: st["fed"])["err"]]
        pick = rng.sample(good, min(len(good), per_w * 3 // 4)) + rng.sample(errs, min(len(errs), per_w // 4))
        for s_, sts in pick:
            jobs.append((len(jobs), ab, s_, sts))
    outs = par.pmap(_e2e_run, jobs, so_path=so, procs=16, chunksize=1)
    recs = []
    for o in outs:
        for b in o["bad"]:
            chk.violation({"part": "screen-e2e", "engine_family": "native" if b["engine"].startswith("native") else b["engine"], "w": b["w"]},
                          f"engine {b['engine']} (w={b['w']}): the screen after running a program that prints {b['stream']} differs from FJScreen: "
                          f"got {b['got']} expected {b['expected']} (exception: {b['exc']})", b)
        recs += o["recs"]
    verdicts = c01.validate_records(chk, recs, "Trace_FJMachine[screen e2e]", batch=8)
    for i, r in enumerate(recs):
        v = verdicts.get(i)
        if v is None:
            raise MachineryFailure(f"no verdict for e2e record {i}")
        if v["fail"]:
            chk.violation({"part": "screen-e2e-machine", "engine_family": "native" if r["engine"].startswith("native") else r["engine"], "w": r["w"]},
                          f"engine {r['engine']} (w={r['w']}) running the screen program for {r['stream']}: rejected by Trace_FJMachine, clauses {v['fail']}", {"record": r, "verdict": v})
    chk.traces += len(jobs) * len(E2E_ENGINES)
    chk.extra["e2e_programs"] = len(jobs)
    chk.extra["e2e_runs"] = len(jobs) * len(E2E_ENGINES)
    chk.extra["e2e_machine_records"] = len(recs)


# ---------------------------------------------------------------------------------------------
# (a) device memory accesses during a run

DEV_ENGINES = ["featured", "fast", "native-flat", "native-flat-ring", "native-paged", "native-paged-ring",
               "native-measured", "native-hybrid:3", "native-hybrid:6:ring", "native-hybrid:16385"]


def make_scripted(in_bits, script: List[List[dict]], w: int):
    from flipjump.interpreter.io_devices.IODevice import IODevice
    from flipjump.utils.exceptions import IOReadOnEOF

    class Scripted(IODevice):
        def __init__(self):
            self._in = list(in_bits)
            self.inpos = 0
            self.out = []
            self.ncalls = 0
            self.vals = []
            self.mem = None

        def attach_memory(self, dm):
            self.mem = dm

        def _accesses(self):
            k = self.ncalls
            self.ncalls += 1
            if k < len(script):
                for acc in script[k]:
                    a = bn(acc["a"])
                    if acc["op"] == "rw":
                        self.vals.append(nb(self.mem.read_word(a), w // 8))
                    elif acc["op"] == "ww":
                        self.mem.write_word(a, bn(acc["v"]))
                    elif acc["op"] == "rb":
                        self.vals.append(nb(self.mem.read_data_byte(a), w // 8))
                    elif acc["op"] == "wb":
                        self.mem.write_data_byte(a, bn(acc["v"]))

        def read_bit(self):
            self._accesses()
            if self.inpos >= len(self._in):
                raise IOReadOnEOF("harness input exhausted")
            b = self._in[self.inpos]
            self.inpos += 1
            return bool(b)

        def write_bit(self, bit):
            self._accesses()
            self.out.append(1 if bit else 0)

        def get_output(self, *, allow_incomplete_output=False):  # noqa: ARG002
            return b""

    return Scripted()


def gen_dev_case(rng: random.Random, w: int) -> dict:
    case = c01.gen_case(rng, w)
    dw = 2 * w
    mask = (1 << w) - 1
    for wa in list(case["data"]):
        if wa % 2 == 0 and wa < 16 and rng.random() < 0.6:
            case["data"][wa] = rng.choice([dw, dw + 1]) & mask
    case["inp"] = [rng.randrange(2) for _ in range(rng.choice([0, 2, 6]))]
    segs = case["segs"]
    lw = w.bit_length() - 1
    top_words = 1 << min(w - lw, 60)

    def addr(write=False):
        r = rng.random()
        s = rng.choice(segs)
        if write:
            # the property speaks of device writes INSIDE segments (what a write outside every segment does to the
            # program's view differs between the engines and is not specified): first / last / any in-segment word
            a_ = s[0] + rng.choice([0, s[1] - 1, max(0, s[1] - 2), rng.randrange(min(s[1], 24)), rng.randrange(s[1])])
            return a_ if a_ < top_words else s[0] + rng.randrange(min(s[1], 24))      # (inside the width's address space)
        if r < 0.55:
            return s[0] + rng.randrange(min(s[1], 24))
        if r < 0.7:
            return rng.choice([s[0] + s[1] - 1, s[0] + s[1], max(0, s[0] - 1), s[0]])
        if r < 0.85:
            return rng.choice([(1 << 14) - 1, 1 << 14, 3, 1 << 20]) % top_words
        return rng.randrange(top_words)

    script = []
    for _ in range(rng.randint(1, 6)):
        accs = []
        for _ in range(rng.randint(0, 3)):
            kind = rng.choice(["rw", "ww", "rw", "rb", "wb"] if w >= 16 else ["rw", "ww", "rw"])
            if kind in ("rb", "wb"):
                wa_ = addr(kind == "wb") & ~1
                if kind == "wb" and not any(s_[0] <= wa_ + 1 < s_[0] + s_[1] for s_ in segs):
                    wa_ = segs[0][0] & ~1                 # the op's jump word must lie inside a segment
                    if not any(s_[0] <= wa_ + 1 < s_[0] + s_[1] for s_ in segs):
                        kind = "rb"
                a = wa_ * w                    # op-aligned bit address
                if (a >> lw) + 1 >= top_words:
                    a = 0
            else:
                a = addr(kind == "ww")
            acc = {"op": kind, "a": nb(a, AW)}
            if kind == "ww":
                acc["v"] = nb(rng.choice([0, 1, mask, rng.randrange(1 << w), 0xBB67AE8584CAA73B & mask, (case['data'].get(1, 0))]), w // 8)
            if kind == "wb":
                acc["v"] = nb(rng.randrange(256), w // 8)
            accs.append(acc)
        script.append(accs)
    case["script"] = script
    return case


def _run_dev_case(args):
    import contextlib
    import io

    idx, case = args
    fjm_run = par.fjm_run()
    w = case["w"]
    d = Path(tempfile.mkdtemp(prefix="fjv_c19_"))
    recs = []
    try:
        path = d / "p.fjm"
        segs = c01.case_segments(case)
        try:
            engines.write_image(path, w, case["version"], segs)
        except Exception as e:  # noqa: BLE001
            return {"skipped": f"writer: {type(e).__name__}"}
        dev = make_scripted(case["inp"], case["script"], w)
        with contextlib.redirect_stdout(io.StringIO()):
            try:
                st = fjm_run.run(path, io_device=dev, breakpoint_handler=c01._Cut(60))
            except Exception as e:  # noqa: BLE001
                return {"skipped": f"prescreen: {type(e).__name__}"}
        if int(st.termination_cause) == 6:
            return {"skipped": "non-halting"}
        if dev.ncalls == 0:
            return {"skipped": "no-io"}
        addrs = sorted(set(c01.case_mem_addrs(case)) | {bn(a["a"]) for accs in case["script"] for a in accs if a["op"] in ("rw", "ww")})
        base = {"w": w, "segs": [[nb(s, AW), nb(l, AW)] for s, l, _ in segs],
                "data": [[nb(s + i, AW), nb(v, w // 8)] for s, _, dd in segs for i, v in enumerate(dd) if v],
                "inp": case["inp"], "script": case["script"], "bound": 62}
        for en in DEV_ENGINES:
            dev = make_scripted(case["inp"], case["script"], w)
            obs = engines.run_engine(fjm_run, path, en, case["inp"], w=w, mem_addrs=addrs, budget_s=5.0, ring_len=70, device=dev)
            o = {"cause": obs["cause"] if not obs["exc"] else "exception:" + obs["exc"], "ops": max(obs["ops"], 0),
                 "out": obs["out"], "vals": dev.vals, "mem": obs["mem"], "ncalls": dev.ncalls,
                 "hashist": obs["hist"] is not None, "hist": obs["hist"] or [], "ringlen": 70}
            r = dict(base)
            r.update(obs=o, engine=en, case=idx, storage=str(obs.get("storage")))
            recs.append(r)
    finally:
        shutil.rmtree(d, ignore_errors=True)
    return {"recs": recs}


TRACE_CFG = """SPECIFICATION Spec
CONSTRAINT Verdict
CHECK_DEADLOCK FALSE
"""


def validate(chk: Check, records, name, batch=250):
    scratch = Path(tempfile.mkdtemp(prefix="fjv_c19t_"))
    verdicts = {}
    try:
        jobs, offs = [], []
        for b0 in range(0, len(records), batch):
            part = [{k: r[k] for k in ("w", "segs", "data", "inp", "script", "bound", "obs")} for r in records[b0:b0 + batch]]
            f = scratch / f"b{b0}.json"
            f.write_text(json.dumps(part))
            jobs.append(dict(module="Trace_FJMachineDev", cfg_text=TRACE_CFG, workers=1, env={"TRACE_FILE": str(f)}, timeout=3000))
            offs.append(b0)
        for b0, res in zip(offs, tlc.run_many(jobs, parallel=16)):
            chk.add_tlc(res, f"{name}@{b0}", records=min(batch, len(records) - b0))
            for v in res.emitted.get("V", []):
                verdicts[b0 + v["tid"] - 1] = v
    finally:
        shutil.rmtree(scratch, ignore_errors=True)
    chk.configs[:] = c01._squash(chk.configs, name)
    return verdicts


def run_devmem(chk: Check, quick: bool, rng: random.Random, so: str):
    ncases = 480 if quick else 4000
    cases = [gen_dev_case(rng, [8, 16, 32, 64][i % 4]) for i in range(ncases)]
    outs = par.pmap(_run_dev_case, list(enumerate(cases)), so_path=so, procs=16, chunksize=2)
    records, skipped = [], {}
    for o in outs:
        if "skipped" in o:
            skipped[o["skipped"]] = skipped.get(o["skipped"], 0) + 1
        else:
            records += o["recs"]
    chk.extra["dev_cases"] = ncases
    chk.extra["dev_skipped"] = skipped
    chk.extra["dev_records"] = len(records)
    verdicts = validate(chk, records, "Trace_FJMachineDev")
    chk.traces += len(records)
    if records:
        chk.sample({"kind": "device-memory record", "script": records[0]["script"], "obs_vals": records[0]["obs"]["vals"], "engine": records[0]["engine"]})
    for i, rec in enumerate(records):
        v = verdicts.get(i)
        if v is None:
            raise MachineryFailure(f"no verdict for record {i}")
        if v["fail"]:
            key = {"part": "devmem", "engine_family": "native" if rec["engine"].startswith("native") else rec["engine"].split("-")[0],
                   "clauses": ",".join(sorted(v["fail"])), "w": rec["w"]}
            if rec["w"] == 64 and v["spec"].get("topop"):
                key = {"engine_family": key["engine_family"], "w": 64, "input_class": "w64-op-on-last-word-of-address-space"}
            chk.violation(key,
                          f"engine {rec['engine']} (w={rec['w']}, storage={rec['storage']}): device-memory observation rejected by Trace_FJMachineDev: {v['fail']}; spec says {v['spec']}",
                          {"record": rec, "verdict": v})
    good = [r for i, r in enumerate(records) if not verdicts[i]["fail"] and r["obs"]["vals"]][:10]
    mut = []
    for r in good:
        m = json.loads(json.dumps(r))
        m["obs"]["vals"][0][0] ^= 4
        mut.append(m)
    if mut:
        mv = validate(chk, mut, "Trace_FJMachineDev[self-test]")
        acc = [i for i in range(len(mut)) if not mv.get(i, {"fail": ["x"]})["fail"]]
        chk.extra["selftest_rejected"] = len(mut) - len(acc)
        if acc:
            raise MachineryFailure("binding self-test: corrupted device reads were accepted")


def run(chk: Check, replay=None):
    quick = chk.tier == "quick"
    rng = random.Random(chk.seed + 19)
    so = str(engines.build_native())
    chk.assumptions += [
        "device word addresses are kept below 2^(w-log2 w) words + segments (addresses beyond the width's address space are not judged)",
        "device WRITES go to in-segment words only (as in the property); device reads go anywhere (outside the segments they return 0)",
        "the screen's program memory is abstracted as one packed byte per op (MemBytes); addresses in commands are dw-aligned and below 2^16",
    ]
    pool = run_screen(chk, quick, rng, so)
    run_devmem(chk, quick, rng, so)
    run_e2e(chk, quick, rng, so, pool)
