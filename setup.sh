#!/bin/sh
# offline setup: nothing to build ahead of time - every check compiles the native engine from /repo itself.
set -e
cd "$(dirname "$0")"
mkdir -p evidence replays
java -version >/dev/null 2>&1
/venv/bin/python -c "import sys; sys.path.insert(0,'/repo'); import flipjump" 
test -f /opt/veriftools/tla/tla2tools.jar
echo setup ok
