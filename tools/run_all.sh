#!/bin/sh
# usage: tools/run_all.sh quick|thorough [Cxx ...]   - run the checks one after the other, print one line per check
tier=${1:-quick}; shift
ids=${*:-C01 C02 C03 C04 C05 C06 C07 C08 C09 C10 C11 C12 C13 C14 C15 C16 C17 C18 C19 C20}
cd "$(dirname "$0")/.."
mkdir -p replays
for c in $ids; do
  t0=$(date +%s)
  ./check "$c" --tier "$tier" > "replays/run_${c}_${tier}.log" 2>&1; rc=$?
  t1=$(date +%s)
  echo "$c $tier exit=$rc wall=$((t1 - t0))s viol=$(grep -c '^VIOLATION' replays/run_${c}_${tier}.log) known=$(grep -c '^KNOWN-FINDING' replays/run_${c}_${tier}.log) :: $(tail -1 replays/run_${c}_${tier}.log | cut -c1-160)"
done
