#!/bin/sh
# usage: tools/seed_matrix.sh [seed-dir-name ...]  - every seeded change against the check of its own property (quick tier)
# prints one line per seed; the result is what section 9 of DESIGN.md tabulates.  /repo must be clean; it is restored after each seed.
cd "$(dirname "$0")/.."
seeds=${*:-$(ls seeded)}
for s in $seeds; do
  pid=${s%%_*}
  [ -f "seeded/$s/patch.diff" ] || continue
  if ! git -C /repo apply --check "$(pwd)/seeded/$s/patch.diff" 2>/dev/null; then echo "$s $pid patch-does-not-apply"; continue; fi
  git -C /repo apply "$(pwd)/seeded/$s/patch.diff"
  ./check "$pid" --tier quick > "replays/seed_${s}.log" 2>&1; rc=$?
  git -C /repo checkout -- .
  git -C "$(pwd)" checkout -- evidence 2>/dev/null    # evidence committed must come from the unchanged tree
  echo "$s $pid exit=$rc viol=$(grep -c '^VIOLATION' replays/seed_${s}.log) :: $(grep -m1 'what:' replays/seed_${s}.log | cut -c1-200)"
done
