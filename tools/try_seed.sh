#!/bin/sh
# usage: tools/try_seed.sh <seed-name> <Cxx> [tier]   - apply a seeded change to /repo, run the check, undo it
set -u
seed=/verif/seeded/$1; pid=$2; tier=${3:-quick}
cd /repo && git apply "$seed/patch.diff" || { echo "patch failed"; exit 3; }
cd /verif && ./check "$pid" --tier "$tier" > /tmp/try_$1_$pid.log 2>&1; rc=$?
git -C /repo checkout -- .
git -C /verif checkout -- evidence 2>/dev/null
echo "seed=$1 check=$pid tier=$tier exit=$rc"; grep -c '^VIOLATION' /tmp/try_$1_$pid.log; grep -m3 'what:' /tmp/try_$1_$pid.log | cut -c1-300; tail -1 /tmp/try_$1_$pid.log
