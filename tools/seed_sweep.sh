#!/bin/sh
# usage: tools/seed_sweep.sh "<ids>" "<seeds>" [tier] - run checks under several seeds (false-alarm hunting)
ids=${1:-"C01 C07 C17 C18 C19 C15 C06 C10 C11"}; seeds=${2:-"1 2 3"}; tier=${3:-quick}
for s in $seeds; do for id in $ids; do
  VERIF_SEED=$s ./check $id --tier $tier > /tmp/sweep_${id}_$s.log 2>&1; rc=$?
  echo "seed=$s $id exit=$rc $(grep -c '^VIOLATION' /tmp/sweep_${id}_$s.log) violations; $(tail -1 /tmp/sweep_${id}_$s.log | cut -c1-160)"
  grep 'violation class' /tmp/sweep_${id}_$s.log | head -3
done; done
