----------------------------- MODULE MC_FJDebug -----------------------------
(* all breakpoint sets x all command scripts of bounded length on fixed images *)
EXTENDS FJDebug, Json, FiniteSets

CONSTANTS Images,      \* sequence of [w, segs, data, inp, ips] records (ips = op addresses of the undebugged run)
          Commands,    \* set of command records
          MaxScript, MaxBps, MaxOps, EmitOn

VARIABLES d, img, script0, bps0
vars == <<d, img, script0, bps0>>

SegsOf(r) == [k \in 1..Len(r.segs) |-> [s |-> A(r.segs[k][1]), e |-> A(r.segs[k][1] + r.segs[k][2])]]
DataMem(r) == LET D == {A(r.data[k][1]) : k \in 1..Len(r.data)}
              IN [a \in D |-> BV(r.data[CHOOSE k \in 1..Len(r.data) : A(r.data[k][1]) = a][2], r.w \div 8)]
Machine(r) == MkMachine(r.w, SegsOf(r), DataMem(r), r.inp)

ScriptsUpTo(n) == UNION {[1..k -> Commands] : k \in 0..n}

Init == /\ img \in 1..Len(Images)
        /\ bps0 \in {S \in SUBSET {Images[img].ips[k] : k \in 1..Len(Images[img].ips)} : Cardinality(S) <= MaxBps}
        /\ script0 \in ScriptsUpTo(MaxScript)
        /\ d = DInit(Machine(Images[img]), {A(x) : x \in bps0}, script0)

Next == /\ DRunning(d) /\ d.m.ops < MaxOps
        /\ d' = DStep(d)
        /\ UNCHANGED <<img, script0, bps0>>
Spec == Init /\ [][Next]_vars

----------------------------------------------------------------------------
RECURSIVE RunN(_, _)
RunN(m, n) == IF n = 0 \/ ~Running(m) THEN m ELSE RunN(RunOp(m), n - 1)

\* non-interference: at every op boundary the machine is exactly the undebugged machine after the same number of ops
NonInterference ==
    LET ref == RunN(Machine(Images[img]), IF Running(d.m) THEN d.m.ops ELSE MaxOps + 1)
    IN d.m = ref
\* a pause happens only when asked: at a breakpoint, or exactly at the requested op count
PausedOnlyWhenAsked ==
    [][ (d'.paused /\ ~d.paused) => (d.m.ip \in d.bps \/ d.m.ops = d.nextBreak) ]_vars
\* and never missed: an op in front of which a pause is due is not executed before pausing
NoMissedPause ==
    [][ d'.m # d.m => (d.resumed \/ ~ShouldBreak(d)) ]_vars
ReadsChangeNothing ==
    [][ (d.paused /\ d.script # <<>> /\ Head(d.script).c \in {"read", "noop"}) => d'.m = d.m /\ d'.nextBreak = d.nextBreak /\ d'.bps = d.bps ]_vars

Terminal == ~DRunning(d) \/ d.m.ops >= MaxOps
Emit == IF EmitOn /\ Terminal
        THEN PrintT("@@G" \o ToJson([img |-> img, bps |-> bps0, script |-> script0, events |-> d.events,
                                      status |-> IF d.quit THEN "kbdint" ELSE IF Running(d.m) THEN "cut" ELSE d.m.status,
                                      ops |-> d.m.ops, out |-> d.m.out, fault |-> d.m.fault, left |-> Len(d.script)]))
        ELSE TRUE
=============================================================================
