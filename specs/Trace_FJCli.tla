------------------------------ MODULE Trace_FJCli ------------------------------
EXTENDS Naturals, Sequences, FiniteSets, TLC, Json, IOUtils
C == INSTANCE FJCli WITH Ws <- {0}, Vs <- {9}, Presets <- {99}, EmitOn <- FALSE,
                         opts <- [w |-> 0, v |-> 9, o |-> TRUE, nostl |-> FALSE, d |-> FALSE, werror |-> FALSE, preset |-> 99, s |-> TRUE]
Tr == JsonDeserialize(IOEnv.TRACE_FILE)
VARIABLES tid
Init == tid \in 1..Len(Tr)
Next == FALSE /\ UNCHANGED tid
Spec == Init /\ [][Next]_tid
Verdict == LET c == C!Clauses(Tr[tid]) IN PrintT("@@V" \o ToJson([tid |-> tid, fail |-> {x \in DOMAIN c : ~c[x]}, eff |-> C!Effective(Tr[tid].opts)]))
=============================================================================
