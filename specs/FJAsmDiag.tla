------------------------------ MODULE FJAsmDiag ------------------------------
(***************************************************************************)
(* Failure behaviour of assembling.                                        *)
(*                                                                         *)
(* A case is (kind, site, w, version): a fault of the given kind injected  *)
(* at the given site into a valid skeleton ("none" = the skeleton itself). *)
(* Sites are the evaluation stages at which the faulty value becomes       *)
(* known: "lit" (all literals: folded while parsing), "constdef" (inside a *)
(* constant definition), "const" (through a defined constant), "param"     *)
(* (through a macro parameter), "rep" (in a rep count), "label" (through   *)
(* labels, at the end), "operand" (pad / segment / reserve operand),       *)
(* "text" (the construct itself is malformed).                             *)
(* The property: a faulty case fails with one of the library's SPECIFIC    *)
(* exceptions, whose message names the construct, within the time budget,  *)
(* and leaves no loadable output file; a fault-free case succeeds.         *)
(***************************************************************************)
EXTENDS Naturals, Sequences, FiniteSets, TLC, Json, IOUtils

Arith == {"div0", "mod0", "negshift", "negexp", "hugeshift", "hugeexp"}
Textual == {"lex", "syntax", "unbalanced", "unknownmacro", "arity", "dupmacro", "duplabel", "nolabel", "recursion", "reprecursion",
            "labelconst", "nofirstop", "segoverlap", "segrange", "segunaligned", "reserveunaligned", "padzero", "padunaligned",
            "wflipbig", "flipbig", "flipneg", "jumpbig"}
Kinds == {"none"} \cup Arith \cup Textual
ArithSites == {"lit", "constdef", "const", "param", "rep", "label", "operand"}
SitesOf(kind) == IF kind \in Arith THEN ArithSites ELSE {"text"}

SpecificClasses == {"FlipJumpParsingException", "FlipJumpPreprocessorException", "FlipJumpExprException",
                    "FlipJumpAssemblerException", "FlipJumpWriteFjmException"}

\* ---- enumeration of the matrix (exhaustive) ------------------------------------------------
CONSTANTS Widths, Versions, EmitOn
VARIABLES kind, site, w, ver
vars == <<kind, site, w, ver>>
Init == /\ kind \in Kinds /\ site \in SitesOf(kind) /\ w \in Widths /\ ver \in Versions
Next == FALSE /\ UNCHANGED vars
Spec == Init /\ [][Next]_vars
Emit == IF EmitOn THEN PrintT("@@C" \o ToJson([kind |-> kind, site |-> site, w |-> w, version |-> ver])) ELSE TRUE

\* ---- the judgement of one recorded outcome ---------------------------------------------------
\* obs = [outcome: "ok" | "exception", class, generic, names, secs, loadable]
Budget == 20
Clauses(k, obs) ==
    IF k = "none"
    THEN [ succeeds |-> obs.outcome = "ok" ]
    ELSE IF k = "mutated"     \* a random token / byte mutation of a valid program: it may still be valid
    THEN [ specific  |-> obs.outcome = "exception" => (obs.class \in SpecificClasses /\ ~obs.generic),
           terminates |-> obs.secs < Budget,
           nofile    |-> obs.outcome = "exception" => ~obs.loadable ]
    ELSE [ fails     |-> obs.outcome = "exception",
           specific  |-> obs.outcome = "exception" => (obs.class \in SpecificClasses /\ ~obs.generic),
           names     |-> (obs.outcome = "exception" /\ obs.class \in SpecificClasses /\ ~obs.generic) => obs.names,
           terminates |-> obs.secs < Budget,
           nofile    |-> ~obs.loadable ]
=============================================================================
