-------------------------- MODULE FJMachineFaults --------------------------
(***************************************************************************)
(* FJMachine + a failing IO device / an interrupt.                         *)
(*                                                                         *)
(* A fault state is  s = [m, calls, stop]:                                 *)
(*   m      the machine (FJMachine record, sub-step granularity)           *)
(*   calls  the device calls made so far, in order: <<"w", bit>> for a     *)
(*          write_bit that RETURNED, <<"r", bit>> for a read_bit that      *)
(*          returned, <<"x">> for the call that raised                     *)
(*   stop   "none" or the kind of failure that stopped the run             *)
(*                                                                         *)
(* The device raises at its k-th call (faultAt), whatever that call is.    *)
(* Kinds: "libio" (a library IO exception), "eofw" (the library's          *)
(* end-of-input exception raised from a WRITE call - still a library IO    *)
(* exception, it must propagate), "foreign" (any other exception) and      *)
(* "kbdint" (KeyboardInterrupt raised by the device).  "sigint" is an      *)
(* interrupt delivered between two ops (FStepInterrupt).                   *)
(*                                                                         *)
(* Outcome(kind) is what the caller of run() sees.  The state at the stop  *)
(* is the state BEFORE the failing call: nothing of the failing op has     *)
(* happened except that its address was recorded in the last-ops list.     *)
(***************************************************************************)
EXTENDS FJMachine

Outcome(kind) ==
    CASE kind \in {"libio", "eofw"} -> "propagates-unchanged"
      [] kind = "foreign"           -> "wrapped-runtime-error"
      [] kind \in {"kbdint", "sigint"} -> "kbdint-termination"

IsWriteCall(m) == m.phase = "out" /\ IsOutputFlip(m)
IsReadCall(m)  == m.phase = "in" /\ CoversInput(m)

\* one sub-step of the machine with the device failing at call number faultAt
FStep(s, faultAt, kind) ==
    LET m == s.m
        n == Len(s.calls) + 1
    IN IF IsWriteCall(m)
       THEN IF n = faultAt
            THEN [s EXCEPT !.calls = Append(@, <<"x">>), !.stop = kind]
            ELSE [s EXCEPT !.m = SubStep(m), !.calls = Append(@, <<"w", BVal(m.f) - 2 * m.w>>)]
       ELSE IF IsReadCall(m)
       THEN IF n = faultAt
            THEN IF kind = "eofw"   \* the end-of-input exception at a READ call is an ordinary end of input
                 THEN [s EXCEPT !.m.status = "eof", !.calls = Append(@, <<"x">>)]
                 ELSE [s EXCEPT !.calls = Append(@, <<"x">>), !.stop = kind]
            ELSE IF m.inp = <<>>
                 THEN [s EXCEPT !.m = SubStep(m), !.calls = Append(@, <<"eof">>)]
                 ELSE [s EXCEPT !.m = SubStep(m), !.calls = Append(@, <<"r", Head(m.inp)>>)]
       ELSE [s EXCEPT !.m = SubStep(m)]

FRunning(s) == s.stop = "none" /\ Running(s.m)

FInit(m) == [m |-> m, calls |-> <<>>, stop |-> "none"]

\* a stop is consistent: it happened at a device call, and the failing op changed nothing
\* (memory and output are those of the ops executed before; ops = retired ops; the op is in hist)
StopIsConsistent(s, memAtOpStart, outAtOpStart) ==
    s.stop # "none" =>
        /\ s.m.phase \in {"out", "in"}
        /\ s.m.mem = memAtOpStart
        /\ (s.m.phase = "out" => s.m.out = outAtOpStart)
        /\ Len(s.m.hist) = s.m.ops + 1
        /\ s.m.hist[Len(s.m.hist)] = s.m.ip
=============================================================================
