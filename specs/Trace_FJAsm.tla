----------------------------- MODULE Trace_FJAsm -----------------------------
(***************************************************************************)
(* Observation validation for FJAsm (batch mode).  A record:               *)
(*   w, prog (statements; integers as [neg, mag]),                         *)
(*   obs: outcome ("ok" | "error"), img (runs of words), table             *)
(***************************************************************************)
EXTENDS FJAsm, Json, IOUtils

Tr == JsonDeserialize(IOEnv.TRACE_FILE)
VARIABLES tid
Init == tid \in 1..Len(Tr)
Next == FALSE /\ UNCHANGED tid
Spec == Init /\ [][Next]_tid

\* everything is computed once per record inside one LET (TLC re-evaluates top-level definitions on every use)
Verdict ==
    LET R == Tr[tid]
        w == R.w
        prog == R.prog
        lay == Layout(prog, w)
        img == R.obs.img
        ops == {i \in 1..Len(prog) : prog[i].k = "op"}
        wfs == {i \in 1..Len(prog) : prog[i].k = "wflip"}
        pos == Possible(prog, w)
        good == pos /\ R.obs.outcome = "ok"
        walks == [i \in wfs |-> IF good THEN WFlipWalk(prog, lay, img, w, i) ELSE [ok |-> TRUE, visited |-> {}]]
        aux == UNION {walks[i].visited : i \in wfs}
        badops == IF good THEN {i \in ops : ~Denotes(prog, lay, img, w, i)} ELSE {}
        badwfs == {i \in wfs : ~walks[i].ok}
        clauses ==
            IF ~pos THEN [ rejected |-> R.obs.outcome = "error" ]
            ELSE IF R.obs.outcome # "ok" THEN [ accepted |-> R.obs.outcome = "error" /\ ~Roomy(prog, w) ]   \* only a tight layout may be refused
            ELSE [ accepted |-> TRUE,
                   denotes  |-> badops = {},
                   wflips   |-> badwfs = {},
                   auxclear |-> AuxClear(prog, lay, w, aux),
                   labels   |-> LabelsExact(lay, R.obs.table),
                   reserved |-> ReservedZero(lay, img, w) ]
    IN PrintT("@@V" \o ToJson([tid |-> tid, fail |-> {c \in DOMAIN clauses : ~clauses[c]},
                                spec |-> [possible |-> pos, err |-> lay.err, badwflips |-> badwfs, badops |-> badops]]))
=============================================================================
