------------------------------ MODULE MC_FJExpr ------------------------------
(* all expression trees of the given shapes over an operator set and operand values *)
EXTENDS FJExpr, Json, FiniteSets

CONSTANTS Ops2,       \* binary operators
          O1s,        \* the outer operators explored by this run (a subset of Ops2: runs are sharded by it)
          Ops1,       \* unary operators ("neg", "~", "#")
          Vals,       \* operand values (sequence of integers); index = which value
          SmallVals,  \* indices into Vals usable as shift count / exponent
          LabelAble,  \* indices into Vals that can be the address of a label
          Shapes,     \* subset of 1..9
          TagPatterns,\* set of <<tagA, tagB, tagC>> with tags "lit" | "const" | "param" | "label"
          MaxBytes,   \* only emit results below 256^MaxBytes
          EmitOn

VARIABLES shape, o1, o2, u, ia, ib, ic, tags
vars == <<shape, o1, o2, u, ia, ib, ic, tags>>

Leaf(name, idx, tag) == IF tag = "lit" THEN Lit(Vals[idx]) ELSE Id(name, tag)
LA == Leaf("a", ia, tags[1])
LB == Leaf("b", ib, tags[2])
LC == Leaf("c", ic, tags[3])
Env == [n \in {"a", "b", "c"} |-> IF n = "a" THEN Vals[ia] ELSE IF n = "b" THEN Vals[ib] ELSE Vals[ic]]

Tree ==
    CASE shape = 1 -> Op2(o1, LA, LB)
      [] shape = 2 -> Op2(o1, Op2(o2, LA, LB), LC)
      [] shape = 3 -> Op2(o1, LA, Op2(o2, LB, LC))
      [] shape = 4 -> Op1(u, Op2(o1, LA, LB))
      [] shape = 5 -> Op2(o1, Op1(u, LA), LB)
      [] shape = 6 -> Op2(o1, LA, Op1(u, LB))
      [] shape = 7 -> Op3(LA, LB, LC)
      [] shape = 8 -> Op2(o1, Op3(LA, LB, LC), LA)
      [] shape = 9 -> Op3(Op2(o1, LA, LB), LC, Op3(LB, LA, LC))

Uses == CASE shape \in {1, 4, 5, 6} -> {1, 2} [] OTHER -> {1, 2, 3}

Init ==
    /\ shape \in Shapes
    /\ o1 \in O1s
    /\ o2 \in (IF shape \in {2, 3} THEN Ops2 ELSE {"+"})
    /\ u \in (IF shape \in {4, 5, 6} THEN Ops1 ELSE {"neg"})
    /\ ia \in 1..Len(Vals) /\ ib \in 1..Len(Vals)
    /\ ic \in (IF 3 \in Uses THEN 1..Len(Vals) ELSE {1})
    /\ tags \in TagPatterns
    /\ (tags[1] = "label" => ia \in LabelAble) /\ (tags[2] = "label" => ib \in LabelAble)
    /\ (tags[3] = "label" => (ic \in LabelAble \/ 3 \notin Uses))
    /\ AllFeasible(Tree, Env)

Next == FALSE /\ UNCHANGED vars
Spec == Init /\ [][Next]_vars

Direct == Eval(Tree, Env)
\* the value does not depend on when sub-expressions get resolved
StagedEqualsDirect == Staged(Tree, Env) = Direct

IntJ(x) == [neg |-> x.neg, mag |-> x.mag]
Emit == IF EmitOn /\ (~Direct.ok \/ Len(Direct.v.mag) <= MaxBytes)
        THEN PrintT("@@E" \o ToJson([toks |-> Render(Tree), tags |-> tags, uses |-> Uses,
                                      vals |-> <<IntJ(Vals[ia]), IntJ(Vals[ib]), IntJ(Vals[ic])>>,
                                      ok |-> Direct.ok, v |-> IF Direct.ok THEN IntJ(Direct.v) ELSE IntJ(IZero)]))
        ELSE TRUE
=============================================================================
