----------------------------- MODULE FJCoreMem -----------------------------
(***************************************************************************)
(* The native engine's storage layer (flipjump/interpreter/_fjcore.c),     *)
(* transcribed at small constants, and its refinement of the abstract      *)
(* FlipJump memory ("a word is valid iff it lies in a segment; in-segment  *)
(* words read what was last written, 0 initially").                        *)
(*                                                                         *)
(* Structure follows the C code:                                           *)
(*   segs      segment list (add_segment)                                  *)
(*   pages     lazily allocated pages, each with ONE fast valid range      *)
(*             (page_compute_validity: the first segment intersection)     *)
(*   flat      the flat window built by mem_decide_storage (or absent)     *)
(*   decided   storage_decided                                             *)
(* and one action per entry point: AddSegment, Load (set_words before the  *)
(* run), Decide (mem_decide_storage with a window limit / forced paged /   *)
(* allocation failure), ProgRead (mem_read_word), ProgFlip (mem_flip_bit), *)
(* ApiGet / ApiSet (Memory.get_word / set_word, the device accessors).     *)
(*                                                                         *)
(* Model constants: page size 4 words, addresses 0..NADDR-1, word values   *)
(* 0..3 (two bits, so a flip can create the magic value), MAGIC = 3.       *)
(* mode "inband" = w<=32 (sentinel is not a word value), "magic" = w=64    *)
(* (gaps filled with MAGIC, disambiguated through the segment list).       *)
(*                                                                         *)
(* The abstract memory is  abs  (in-segment words)  and  dev  (the         *)
(* device-private shadow of out-of-segment words written through the API). *)
(***************************************************************************)
EXTENDS Naturals, Sequences, FiniteSets, TLC, Json

CONSTANTS NADDR,        \* number of word addresses in the model (multiple of PAGE)
          Geometries,   \* set of segment lists (sequences of <<s, e>>) to explore
          Limits,       \* set of window limits (1..NADDR) to explore
          Modes,        \* subset of {"inband", "magic"}
          MaxSteps,     \* bound on accesses after the storage decision
          ApiOn,        \* FALSE: no device API accesses (scenario generation for program-only replays)
          EmitOn

PAGE == 4
MAGIC == 3
GARB == 9               \* the in-band sentinel (not a word value)
FAULT == 99  OK == 98  NONE == 97   \* result codes (TLC cannot compare strings with integers)
Values == 0..3
Addr == 0..(NADDR - 1)
PageOf(a) == a \div PAGE
OffOf(a) == a % PAGE

VARIABLES segs, pages, flat, hasFlat, decided, mode, abs, dev, steps, h, lastRes, touched
vars == <<segs, pages, flat, hasFlat, decided, mode, abs, dev, steps, h, lastRes, touched>>
\* the history is only for emission; it is hidden from the fingerprint in exhaustive runs
ViewNoHist == <<segs, pages, flat, hasFlat, decided, mode, abs, dev, steps, lastRes, touched>>

InSeg(a) == \E i \in 1..Len(segs) : segs[i][1] <= a /\ a < segs[i][2]

\* page_compute_validity: first intersecting segment in start order
SortedIdx == LET RECURSIVE S(_, _) S(done, left) ==
                   IF left = {} THEN done
                   ELSE LET i == CHOOSE x \in left : \A y \in left : segs[x][1] <= segs[y][1]
                        IN S(Append(done, i), left \ {i})
             IN S(<<>>, 1..Len(segs))
Validity(p, ss) ==
    LET ps == p * PAGE  pe == ps + PAGE
        order == LET RECURSIVE S(_, _) S(done, left) ==
                       IF left = {} THEN done
                       ELSE LET i == CHOOSE x \in left : \A y \in left : ss[x][1] <= ss[y][1]
                            IN S(Append(done, i), left \ {i})
                 IN S(<<>>, 1..Len(ss))
        hits == {k \in 1..Len(order) : ~(ss[order[k]][2] <= ps \/ ss[order[k]][1] >= pe)}
    IN IF hits = {} THEN <<0, 0>>
       ELSE LET k == CHOOSE x \in hits : \A y \in hits : x <= y
                s == ss[order[k]][1]  e == ss[order[k]][2]
            IN << IF s > ps THEN s - ps ELSE 0, IF e < pe THEN e - ps ELSE PAGE >>

NewPage(p) == [words |-> [o \in 0..(PAGE - 1) |-> 0], v |-> Validity(p, segs)]
PagesWith(p) == IF p \in DOMAIN pages THEN pages ELSE (p :> NewPage(p)) @@ pages

\* access_check
AccessOK(pg, a) == (OffOf(a) >= pg.v[1] /\ OffOf(a) < pg.v[2]) \/ InSeg(a)

FlatIsGarbage(v) == IF mode = "inband" THEN v = GARB ELSE v = MAGIC
\* flat_garbage_check: TRUE = the sentinel is real garbage (fault)
FlatFaults(a, v) == FlatIsGarbage(v) /\ ~(mode = "magic" /\ InSeg(a))

FlipVal(v, b) == IF (v \div (IF b = 0 THEN 1 ELSE 2)) % 2 = 1 THEN v - (IF b = 0 THEN 1 ELSE 2) ELSE v + (IF b = 0 THEN 1 ELSE 2)

----------------------------------------------------------------------------
Init ==
    /\ segs = <<>> /\ pages = <<>> /\ flat = <<>> /\ hasFlat = FALSE /\ decided = FALSE
    /\ mode \in Modes
    /\ abs = <<>> /\ dev = <<>> /\ steps = 0 /\ h = <<>> /\ lastRes = NONE /\ touched = {}

\* the whole segment list of one geometry is added, in the given order, before anything else
AddSegments ==
    /\ segs = <<>> /\ ~decided
    /\ \E g \in Geometries :
         /\ segs' = g
         /\ abs' = [a \in {x \in Addr : \E i \in 1..Len(g) : g[i][1] <= x /\ x < g[i][2]} |-> 0]
         /\ h' = Append(h, [op |-> "segs", g |-> g])
    /\ UNCHANGED <<pages, flat, hasFlat, decided, mode, dev, steps, lastRes>>
    /\ touched' = {}

\* set_words before the run: fjm_run loads in-segment words only (page-backed)
Load(a, v) ==
    /\ segs # <<>> /\ ~decided /\ InSeg(a) /\ steps < 2
    /\ LET ps == PagesWith(PageOf(a))
       IN pages' = [ps EXCEPT ![PageOf(a)].words[OffOf(a)] = v]
    /\ abs' = [abs EXCEPT ![a] = v]
    /\ steps' = steps + 1
    /\ h' = Append(h, [op |-> "load", a |-> a, v |-> v])
    /\ UNCHANGED <<segs, flat, hasFlat, decided, mode, dev, lastRes>>
    /\ touched' = {}

\* mem_decide_storage
Decide(limit, noFlat) ==
    /\ segs # <<>> /\ ~decided
    /\ decided' = TRUE /\ steps' = 0
    /\ LET lows == {i \in 1..Len(segs) : segs[i][1] < limit}
           Clamp(i) == IF segs[i][2] < limit THEN segs[i][2] ELSE limit
           lowMaxEnd == IF lows = {} THEN 0
                        ELSE LET i == CHOOSE x \in lows : \A y \in lows : Clamp(x) >= Clamp(y) IN Clamp(i)
       IN IF noFlat \/ lowMaxEnd = 0
          THEN /\ hasFlat' = FALSE /\ flat' = <<>>
          ELSE /\ hasFlat' = TRUE
               /\ flat' = [a \in 0..(lowMaxEnd - 1) |->
                             IF ~InSeg(a) THEN (IF mode = "inband" THEN GARB ELSE MAGIC)
                             ELSE IF PageOf(a) \in DOMAIN pages THEN pages[PageOf(a)].words[OffOf(a)]
                             ELSE 0]
    /\ h' = Append(h, [op |-> "decide", limit |-> limit, noflat |-> noFlat])
    /\ UNCHANGED <<segs, pages, mode, abs, dev, lastRes>>
    /\ touched' = {}

InFlat(a) == hasFlat /\ a \in DOMAIN flat

\* mem_read_word
ProgRead(a) ==
    /\ decided /\ steps < MaxSteps
    /\ steps' = steps + 1
    /\ IF InFlat(a)
       THEN /\ lastRes' = IF FlatFaults(a, flat[a]) THEN FAULT ELSE flat[a]
            /\ UNCHANGED pages
       ELSE LET ps == PagesWith(PageOf(a))
            IN /\ pages' = ps
               /\ lastRes' = IF AccessOK(ps[PageOf(a)], a) THEN ps[PageOf(a)].words[OffOf(a)] ELSE FAULT
    /\ h' = Append(h, [op |-> "read", a |-> a])
    /\ UNCHANGED <<segs, flat, hasFlat, decided, mode, abs, dev>>
    /\ touched' = {}

\* mem_flip_bit
ProgFlip(a, b) ==
    /\ decided /\ steps < MaxSteps
    /\ steps' = steps + 1
    /\ IF InFlat(a)
       THEN IF FlatFaults(a, flat[a])
            THEN /\ lastRes' = FAULT /\ UNCHANGED <<flat, pages>>
            ELSE /\ lastRes' = OK /\ flat' = [flat EXCEPT ![a] = FlipVal(@, b)] /\ UNCHANGED pages
       ELSE LET ps == PagesWith(PageOf(a))
            IN IF AccessOK(ps[PageOf(a)], a)
               THEN /\ lastRes' = OK
                    /\ pages' = [ps EXCEPT ![PageOf(a)].words[OffOf(a)] = FlipVal(@, b)]
                    /\ UNCHANGED flat
               ELSE /\ lastRes' = FAULT /\ pages' = ps /\ UNCHANGED flat
    /\ abs' = IF InSeg(a) THEN [abs EXCEPT ![a] = FlipVal(@, b)] ELSE abs
    /\ h' = Append(h, [op |-> "flip", a |-> a, b |-> b])
    /\ UNCHANGED <<segs, hasFlat, decided, mode, dev>>
    /\ touched' = {}

\* Memory.get_word / set_word (the device accessors)
ApiRoutesFlat(a) == InFlat(a) /\ InSeg(a)
ApiView(a) == IF ApiRoutesFlat(a) THEN flat[a]
              ELSE IF PageOf(a) \in DOMAIN pages THEN pages[PageOf(a)].words[OffOf(a)] ELSE 0
ApiGet(a) ==
    /\ ApiOn /\ decided /\ steps < MaxSteps
    /\ steps' = steps + 1
    /\ lastRes' = ApiView(a)
    /\ pages' = IF ApiRoutesFlat(a) THEN pages ELSE PagesWith(PageOf(a))
    /\ h' = Append(h, [op |-> "get", a |-> a, res |-> ApiView(a)])
    /\ UNCHANGED <<segs, flat, hasFlat, decided, mode, abs, dev>>
    /\ touched' = {}
ApiSet(a, v) ==
    /\ ApiOn /\ decided /\ steps < MaxSteps
    /\ steps' = steps + 1
    /\ lastRes' = OK
    /\ IF ApiRoutesFlat(a)
       THEN /\ flat' = [flat EXCEPT ![a] = v] /\ UNCHANGED pages
       ELSE /\ pages' = [PagesWith(PageOf(a)) EXCEPT ![PageOf(a)].words[OffOf(a)] = v] /\ UNCHANGED flat
    /\ IF InSeg(a) THEN abs' = [abs EXCEPT ![a] = v] /\ UNCHANGED dev
                   ELSE dev' = (a :> v) @@ dev /\ UNCHANGED abs
    /\ h' = Append(h, [op |-> "set", a |-> a, v |-> v])
    /\ UNCHANGED <<segs, hasFlat, decided, mode>>
    /\ touched' = {}

\* the run loops' op fetch on the flat lane (run_flat_loop_impl / the flat lane of run_paged_loop_impl):
\* the two words of an aligned op are read straight from the array only if BOTH indices are inside it
\* (guard `word_address + 1 >= flat_count -> cold path`); the cold path goes through ProgRead's routing.
\* `touched` is the set of raw array indices the fast path dereferences - the memory-safety obligation.
FetchOpFlat(a) ==
    /\ decided /\ hasFlat /\ steps < MaxSteps
    /\ steps' = steps + 1
    /\ LET fast == ~(a + 1 >= Cardinality(DOMAIN flat))
       IN touched' = IF fast THEN {a, a + 1} ELSE {}
    /\ lastRes' = NONE
    /\ h' = Append(h, [op |-> "fetch", a |-> a])
    /\ UNCHANGED <<segs, pages, flat, hasFlat, decided, mode, abs, dev>>

Next ==
    \/ \E a \in Addr : FetchOpFlat(a)
    \/ AddSegments
    \/ \E a \in Addr, v \in Values : Load(a, v)
    \/ \E l \in Limits, nf \in BOOLEAN : Decide(l, nf)
    \/ \E a \in Addr : ProgRead(a) \/ ApiGet(a)
    \/ \E a \in Addr, b \in {0, 1} : ProgFlip(a, b)
    \/ \E a \in Addr, v \in Values : ApiSet(a, v)

Spec == Init /\ [][Next]_vars

----------------------------------------------------------------------------
\* Refinement of the abstract memory

\* what the program sees at address a through the storage layer (pure version of ProgRead)
ProgView(a) ==
    IF InFlat(a) THEN (IF FlatFaults(a, flat[a]) THEN FAULT ELSE flat[a])
    ELSE LET pg == IF PageOf(a) \in DOMAIN pages THEN pages[PageOf(a)] ELSE NewPage(PageOf(a))
         IN IF AccessOK(pg, a) THEN pg.words[OffOf(a)] ELSE FAULT

AbsView(a) == IF InSeg(a) THEN abs[a] ELSE FAULT
DevAbsView(a) == IF InSeg(a) THEN abs[a] ELSE IF a \in DOMAIN dev THEN dev[a] ELSE 0

\* the program sees exactly the abstract memory (faults iff outside every segment)
ProgramSeesAbstractMemory == decided => \A a \in Addr : ProgView(a) = AbsView(a)
\* in particular an in-segment MAGIC word is data, and a gap word always faults
MagicIsData == decided => \A a \in Addr : (InSeg(a) /\ abs[a] = MAGIC) => ProgView(a) = MAGIC
\* the device sees the program's words inside segments and its own shadow outside
DeviceSeesAbstractMemory == decided => \A a \in Addr : ApiView(a) = DevAbsView(a)
\* before the decision everything is page-backed and equals the abstract memory
LoadedEqualsAbstract == (~decided /\ segs # <<>>) =>
    \A a \in Addr : InSeg(a) =>
        (IF PageOf(a) \in DOMAIN pages THEN pages[PageOf(a)].words[OffOf(a)] ELSE 0) = abs[a]
\* the last result is what the abstract memory prescribes (checked on the step itself)
ResultMatches ==
    [][ (h' # h /\ Len(h') > 0) =>
          LET e == h'[Len(h')]
          IN CASE e.op = "read" -> lastRes' = (IF InSeg(e.a) THEN abs[e.a] ELSE FAULT)
               [] e.op = "flip" -> lastRes' = (IF InSeg(e.a) THEN OK ELSE FAULT)
               [] e.op = "get"  -> lastRes' = DevAbsView(e.a)
               [] OTHER -> TRUE ]_vars

\* memory safety of the fast path: every raw array index is inside the flat allocation
AllIndicesInBounds == \A i \in touched : hasFlat /\ i \in DOMAIN flat

\* emission of scenarios (for the scaled replay into the real engine)
Emit == IF EmitOn /\ decided /\ steps = MaxSteps
        THEN PrintT("@@S" \o ToJson([mode |-> mode, h |-> h]))
        ELSE TRUE
=============================================================================
