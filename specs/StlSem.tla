------------------------------- MODULE StlSem -------------------------------
(***************************************************************************)
(* Semantics of the standard library's data macros, one action per macro,  *)
(* transcribed from the documentation line above each `def`.               *)
(*                                                                         *)
(* The state a library user can name:                                      *)
(*   st.vals   variable name -> value (an integer, NMAX digits of base B:  *)
(*             B = 16 for hex.vec, 2 for bit.vec)                          *)
(*   st.addc, st.subc   the add carry / sub borrow of the hex namespace    *)
(*             (only the single-hex hex.add / hex.sub document using them) *)
(* A step is  [k |-> macro key, n, m, sh |-> small naturals, c |-> integer *)
(* constant, v |-> <<variable names bound to the macro's variable          *)
(* parameters, in order>>].  Apply(st, s, B) gives the state after the     *)
(* macro and the branch it takes ("ret" = falls through).                  *)
(* Frame condition: a macro with size n only touches the low n digits of   *)
(* its documented destinations; everything else keeps its value.           *)
(***************************************************************************)
EXTENDS FJInt, TLC

Pw(B, n) == IF B = 16 THEN IShl(IOne, 4 * n) ELSE IShl(IOne, n)       \* B^n
Low(B, x, n) == IMod(x, Pw(B, n))
Put(B, x, n, y) == IAdd(ISub(x, Low(B, x, n)), IMod(y, Pw(B, n)))     \* replace the low n digits of x by y mod B^n
Signed(B, x, n) == LET l == Low(B, x, n) IN IF ILe(IShr(Pw(B, n), 1), l) THEN ISub(l, Pw(B, n)) ELSE l
NatI(k) == IOfNat(k)
RECURSIVE PopMag(_, _)
PopMag(m, i) == IF i > Len(m) THEN 0 ELSE (LET RECURSIVE P(_) P(b) == IF b = 0 THEN 0 ELSE (b % 2) + P(b \div 2) IN P(m[i])) + PopMag(m, i + 1)
PopCnt(x) == PopMag(x.mag, 1)

Ret(st) == [st |-> st, br |-> "ret"]
Br(st, b) == [st |-> st, br |-> b]
Set1(st, x, val) == [st EXCEPT !.vals[x] = val]

Apply(st, s, B) ==
    LET V(i) == st.vals[s.v[i]]
        n == s.n
        L(i) == Low(B, V(i), n)
        P1(val) == Ret(Set1(st, s.v[1], Put(B, V(1), n, val)))          \* write the low n digits of the first variable
        ClrA(t) == [t EXCEPT !.addc = 0]        \* macros built on hex.add clear the add carry (before and after)
        ClrS(t) == [t EXCEPT !.subc = 0]        \* macros built on hex.sub clear the sub borrow
    IN CASE s.k = "zero"     -> P1(IZero)
         [] s.k = "one"      -> P1(ISub(Pw(B, n), IOne))                                  \* bit.one: all ones
         [] s.k = "mov"      -> P1(L(2))
         [] s.k = "xor_by"   -> P1(IBitwise("^", L(1), Low(B, s.c, n)))
         [] s.k = "set"      -> P1(s.c)
         [] s.k = "swap"     -> Ret([st EXCEPT !.vals[s.v[1]] = Put(B, V(1), n, L(2)), !.vals[s.v[2]] = Put(B, V(2), n, L(1))])
         [] s.k = "xor"      -> P1(IBitwise("^", L(1), L(2)))
         [] s.k = "xor_zero" -> Ret([st EXCEPT !.vals[s.v[1]] = Put(B, V(1), n, IBitwise("^", L(1), L(2))),
                                               !.vals[s.v[2]] = Put(B, V(2), n, IZero)])
         [] s.k = "not"      -> P1(ISub(ISub(Pw(B, n), IOne), L(1)))
         [] s.k = "or"       -> P1(IBitwise("|", L(1), L(2)))
         [] s.k = "and"      -> P1(IBitwise("&", L(1), L(2)))
         [] s.k = "inc"      -> P1(IAdd(L(1), IOne))
         [] s.k = "dec"      -> P1(ISub(L(1), IOne))
         [] s.k = "neg"      -> P1(INeg(L(1)))
         [] s.k = "abs"      -> P1(IF Signed(B, V(1), n).neg THEN INeg(L(1)) ELSE L(1))
         [] s.k = "sign_extend" ->      \* n = full size, m = signed size
                Ret(Set1(st, s.v[1], Put(B, V(1), n, Signed(B, V(1), s.m))))
         [] s.k = "count_bits" ->       \* dst[:small_n] = popcount(x[:n]),  small_n = ((#(4n))+3)/4  (hex)
                Ret(Set1(st, s.v[1], Put(B, V(1), s.m, NatI(PopCnt(Low(B, V(2), n))))))
         [] s.k = "add"      -> [st |-> ClrA(Set1(st, s.v[1], Put(B, V(1), n, IAdd(L(1), L(2))))), br |-> "ret"]
         [] s.k = "sub"      -> [st |-> ClrS(Set1(st, s.v[1], Put(B, V(1), n, ISub(L(1), L(2))))), br |-> "ret"]
         [] s.k = "add1"     ->         \* single hex: dst += src + carry; the carry is updated
                LET t == IAdd(IAdd(Low(B, V(1), 1), Low(B, V(2), 1)), NatI(st.addc))
                IN Ret([Set1(st, s.v[1], Put(B, V(1), 1, t)) EXCEPT !.addc = IF ILe(NatI(16), t) THEN 1 ELSE 0])
         [] s.k = "sub1"     ->
                LET t == ISub(ISub(Low(B, V(1), 1), Low(B, V(2), 1)), NatI(st.subc))
                IN Ret([Set1(st, s.v[1], Put(B, V(1), 1, t)) EXCEPT !.subc = IF t.neg THEN 1 ELSE 0])
         [] s.k = "add_shifted" ->      \* n = dst_n, m = src_n, sh = hex_shift
                [st |-> ClrA(Set1(st, s.v[1], Put(B, V(1), n, IAdd(L(1), IShl(Low(B, V(2), s.m), 4 * s.sh))))), br |-> "ret"]
         [] s.k = "sub_shifted" ->
                [st |-> ClrS(Set1(st, s.v[1], Put(B, V(1), n, ISub(L(1), IShl(Low(B, V(2), s.m), 4 * s.sh))))), br |-> "ret"]
         [] s.k = "add_constant" -> [st |-> ClrA(Set1(st, s.v[1], Put(B, V(1), n, IAdd(L(1), s.c)))), br |-> "ret"]
         [] s.k = "sub_constant" -> [st |-> ClrS(Set1(st, s.v[1], Put(B, V(1), n, ISub(L(1), s.c)))), br |-> "ret"]
         [] s.k = "shl_bit"  -> P1(IShl(L(1), 1))
         [] s.k = "shr_bit"  -> P1(IShr(L(1), 1))
         [] s.k = "shl"      -> P1(IShl(L(1), (IF B = 16 THEN 4 ELSE 1) * s.sh))          \* shl_hex n, times / bit.shl n, times
         [] s.k = "shr"      -> P1(IShr(L(1), (IF B = 16 THEN 4 ELSE 1) * s.sh))
         [] s.k = "rol"      -> P1(IAdd(IShl(L(1), s.sh), IShr(L(1), n - s.sh)))         \* rotate left by sh bits within n
         [] s.k = "ror"      -> P1(IAdd(IShr(L(1), s.sh), IShl(L(1), n - s.sh)))
         [] s.k = "if"       -> Br(st, IF IIsZero(L(1)) THEN "l0" ELSE "l1")
         [] s.k = "if0"      -> Br(st, IF IIsZero(L(1)) THEN "l0" ELSE "ret")
         [] s.k = "if1"      -> Br(st, IF IIsZero(L(1)) THEN "ret" ELSE "l1")
         [] s.k = "sign"     -> Br(st, IF Signed(B, V(1), n).neg THEN "neg" ELSE "zpos")
         [] s.k = "cmp"      -> Br(st, IF ILt(L(1), L(2)) THEN "lt" ELSE IF L(1) = L(2) THEN "eq" ELSE "gt")
         [] s.k = "scmp"     -> LET a == Signed(B, V(1), n)  b == Signed(B, V(2), n)
                                IN Br(st, IF ILt(a, b) THEN "lt" ELSE IF a = b THEN "eq" ELSE "gt")
         [] s.k = "min"      -> P1(IF ILe(L(2), L(3)) THEN L(2) ELSE L(3))
         [] s.k = "max"      -> P1(IF ILe(L(3), L(2)) THEN L(2) ELSE L(3))
         [] s.k = "if_flags" -> Br(st, IF MBit(s.c.mag, MToNat(Low(B, V(1), 1).mag)) = 1 THEN "l1" ELSE "l0")
         [] s.k = "mul"      -> [st |-> ClrA(Set1(st, s.v[1], Put(B, V(1), n, IMul(L(2), L(3))))), br |-> "ret"]
         [] s.k = "mul10"    -> [st |-> ClrA(Set1(st, s.v[1], Put(B, V(1), n, IMul(L(1), NatI(10))))), br |-> "ret"]
         [] s.k = "add_mul"  -> [st |-> ClrA(Set1(st, s.v[1], Put(B, V(1), n, IAdd(L(1), IMul(L(2), Low(B, V(3), 1)))))), br |-> "ret"]
         [] s.k = "div"      ->         \* q,a: n digits; r,b: m digits;  v = <<q, r, a, b>>
                LET a == Low(B, V(3), n)  b == Low(B, V(4), s.m)
                    new == [st EXCEPT !.vals[s.v[1]] = Put(B, V(1), n, IFloorDiv(a, b)), !.vals[s.v[2]] = Put(B, V(2), s.m, IMod(a, b))]
                IN IF IIsZero(b) THEN Br(st, "div0")
                   \* the sub borrow is cleared by the vectored subtractions - which only happen when the quotient is not 0
                   ELSE [st |-> IF ILt(a, b) THEN new ELSE ClrS(new), br |-> "ret"]
         [] s.k = "idiv"     ->         \* signed; sh = rem_opt: 0 sign(r)=sign(b) (floor), 1 sign(r)=sign(a) (truncate), 2 r >= 0;  a = q*b + r
                LET a == Signed(B, V(3), n)  b == Signed(B, V(4), s.m)
                    absb == IF b.neg THEN INeg(b) ELSE b
                    qf == IFloorDiv(a, b)  rf == IMod(a, b)
                    r2 == IMod(a, absb)    q2 == IFloorDiv(ISub(a, r2), b)
                    \* truncation: floor for equal signs or exact division, else floor + 1
                    qt == IF IIsZero(rf) \/ (a.neg = b.neg) THEN qf ELSE IAdd(qf, IOne)
                    rt == ISub(a, IMul(qt, b))
                    q == CASE s.sh = 0 -> qf [] s.sh = 1 -> qt [] s.sh = 2 -> q2
                    r == CASE s.sh = 0 -> rf [] s.sh = 1 -> rt [] s.sh = 2 -> r2
                    \* the remainder fix-up adds b back with hex.add (which clears the add carry) only on these paths;
                    \* elsewhere the add carry is not touched
                    usesAdd == ~IIsZero(rt) /\ ((s.sh = 0 /\ a.neg # b.neg) \/ (s.sh = 2 /\ a.neg /\ ~b.neg))
                    new == [st EXCEPT !.vals[s.v[1]] = Put(B, V(1), n, q), !.vals[s.v[2]] = Put(B, V(2), s.m, r)]
                    absa == IF a.neg THEN INeg(a) ELSE a
                    usesSub == ~ILt(absa, absb) \/ (~IIsZero(rt) /\ s.sh = 2 /\ a.neg /\ b.neg)
                    new1 == IF usesAdd THEN ClrA(new) ELSE new
                IN IF IIsZero(b) THEN Br(st, "div0")
                   ELSE [st |-> IF usesSub THEN ClrS(new1) ELSE new1, br |-> "ret"]
         [] s.k = "shra"     -> P1(IShr(Signed(B, V(1), n), s.sh))                        \* arithmetic shift right
         [] s.k = "mul2"     -> P1(IMul(L(1), L(2)))                                      \* bit.mul / mul_loop: dst[:n] *= src[:n]
         [] s.k = "inc1b"    ->         \* bit.inc1 dst, carry ("carry is both input and output"): dst += carry, carry = the carry out
                LET t == IAdd(Low(B, V(1), 1), Low(B, V(2), 1))
                IN Ret([st EXCEPT !.vals[s.v[1]] = Put(B, V(1), 1, t), !.vals[s.v[2]] = Put(B, V(2), 1, IShr(t, 1))])
         [] s.k = "add1b"    ->         \* bit.add1 dst, src, carry: dst += src + carry, carry = the carry out   (a full adder)
                LET t == IAdd(IAdd(Low(B, V(1), 1), Low(B, V(2), 1)), Low(B, V(3), 1))
                IN Ret([st EXCEPT !.vals[s.v[1]] = Put(B, V(1), 1, t), !.vals[s.v[3]] = Put(B, V(3), 1, IShr(t, 1))])
         [] s.k = "divb"     ->         \* bit.div n, a, b, q, r: if b==0 do nothing; q = a/b, r = a%b (unsigned)   v = <<a, b, q, r>>
                LET a == L(1)  b == L(2)
                IN IF IIsZero(b) THEN Ret(st)
                   ELSE Ret([st EXCEPT !.vals[s.v[3]] = Put(B, V(3), n, IFloorDiv(a, b)), !.vals[s.v[4]] = Put(B, V(4), n, IMod(a, b))])
         [] s.k = "idivb"    ->         \* bit.idiv: signed, sign(r) == sign(a) (truncation)
                LET a == Signed(B, V(1), n)  b == Signed(B, V(2), n)
                    qf == IFloorDiv(a, b)  rf == IMod(a, b)
                    qt == IF IIsZero(rf) \/ (a.neg = b.neg) THEN qf ELSE IAdd(qf, IOne)
                    rt == ISub(a, IMul(qt, b))
                IN IF IIsZero(b) THEN Ret(st)
                   ELSE Ret([st EXCEPT !.vals[s.v[3]] = Put(B, V(3), n, qt), !.vals[s.v[4]] = Put(B, V(4), n, rt)])
         [] s.k = "div10"    ->         \* bit.div10: dst = src / 10, src = src % 10   v = <<dst, src>>
                [st |-> [st EXCEPT !.vals[s.v[1]] = Put(B, V(1), n, IFloorDiv(L(2), NatI(10))),
                                   !.vals[s.v[2]] = Put(B, V(2), n, IMod(L(2), NatI(10)))], br |-> "ret"]
=============================================================================
