------------------------------- MODULE StlSem -------------------------------
(***************************************************************************)
(* Semantics of the standard library's data macros, one action per macro,  *)
(* transcribed from the documentation line above each `def`.               *)
(*                                                                         *)
(* The state a library user can name:                                      *)
(*   st.vals   variable name -> value (an integer, NMAX digits of base B:  *)
(*             B = 16 for hex.vec, 2 for bit.vec)                          *)
(*   st.addc, st.subc   the add carry / sub borrow of the hex namespace    *)
(*             (only the single-hex hex.add / hex.sub document using them) *)
(* A step is  [k |-> macro key, n, m, sh |-> small naturals, c |-> integer *)
(* constant, v |-> <<variable names bound to the macro's variable          *)
(* parameters, in order>>].  Apply(st, s, B) gives the state after the     *)
(* macro and the branch it takes ("ret" = falls through).                  *)
(* Frame condition: a macro with size n only touches the low n digits of   *)
(* its documented destinations; everything else keeps its value.           *)
(***************************************************************************)
EXTENDS FJInt, TLC

Pw(B, n) == IF B = 16 THEN IShl(IOne, 4 * n) ELSE IShl(IOne, n)       \* B^n
Low(B, x, n) == IMod(x, Pw(B, n))
Put(B, x, n, y) == IAdd(ISub(x, Low(B, x, n)), IMod(y, Pw(B, n)))     \* replace the low n digits of x by y mod B^n
Signed(B, x, n) == LET l == Low(B, x, n) IN IF ILe(IShr(Pw(B, n), 1), l) THEN ISub(l, Pw(B, n)) ELSE l
NatI(k) == IOfNat(k)
RECURSIVE PopMag(_, _)
PopMag(m, i) == IF i > Len(m) THEN 0 ELSE (LET RECURSIVE P(_) P(b) == IF b = 0 THEN 0 ELSE (b % 2) + P(b \div 2) IN P(m[i])) + PopMag(m, i + 1)
PopCnt(x) == PopMag(x.mag, 1)

Ret(st) == [st |-> st, br |-> "ret"]
Br(st, b) == [st |-> st, br |-> b]
Set1(st, x, val) == [st EXCEPT !.vals[x] = val]


\* ---- input / output ------------------------------------------------------------------------------
\* st.inp = [bits |-> sequence of 0/1, pos |-> bits consumed]  (zeros are served after the end);  st.out = bits written
InBit(st, i) == IF st.inp.pos + i <= Len(st.inp.bits) THEN st.inp.bits[st.inp.pos + i] ELSE 0
RECURSIVE TakeVal(_, _, _)
TakeVal(st, k, i) == IF i > k THEN IZero ELSE IAdd(IF InBit(st, i) = 1 THEN IShl(IOne, i - 1) ELSE IZero, TakeVal(st, k, i + 1))
Take(st, k) == [v |-> TakeVal(st, k, 1), st |-> [st EXCEPT !.inp.pos = @ + k]]       \* k bits, least significant first
BitsOfInt(x, k) == [i \in 1..k |-> MBit(x.mag, i - 1)] \o <<>>                          \* non-negative x
EmitBits(st, bits) == [st EXCEPT !.out = @ \o bits]
ByteBits(c) == BitsOfInt(NatI(c), 8)
RECURSIVE EmitChars(_, _, _)
EmitChars(st, cs, i) == IF i > Len(cs) THEN st ELSE EmitChars(EmitBits(st, ByteBits(cs[i])), cs, i + 1)
Small(x) == MToNat(x.mag)                                                              \* a value below 2^24

DigitChar(d, upper) == IF d < 10 THEN 48 + d ELSE (IF upper THEN 55 ELSE 87) + d
HexDigit(x, i) == Small(Low(16, IShr(x, 4 * i), 1))                                    \* hex digit i of x
RECURSIVE HexChars(_, _, _, _)
\* the n hex digits of x, most significant first, without leading zeros (at least one digit)
HexChars(x, i, upper, started) ==
    IF i < 0 THEN (IF started THEN <<>> ELSE <<48>>)
    ELSE LET d == HexDigit(x, i)
         IN IF d = 0 /\ ~started THEN HexChars(x, i - 1, upper, FALSE)
            ELSE <<DigitChar(d, upper)>> \o HexChars(x, i - 1, upper, TRUE)
RECURSIVE DecChars(_)
DecChars(x) == IF ILt(x, NatI(10)) THEN <<48 + Small(x)>> ELSE DecChars(IFloorDiv(x, NatI(10))) \o <<48 + Small(IMod(x, NatI(10)))>>
HexOfChar(c) == IF c >= 48 /\ c <= 57 THEN c - 48 ELSE IF c >= 97 /\ c <= 102 THEN c - 87 ELSE IF c >= 65 /\ c <= 70 THEN c - 55 ELSE 99
IsDigit(c) == c >= 48 /\ c <= 57

\* read a decimal number: optional '-' (if signed), digits; stops at the first other byte.  [v, stop, st, neg]
RECURSIVE ReadDigits(_, _, _, _)
ReadDigits(st, acc, M, fuel) ==
    LET t == Take(st, 8)  c == Small(t.v)
    IN IF IsDigit(c) /\ fuel > 0 THEN ReadDigits(t.st, IMod(IAdd(IMul(acc, NatI(10)), NatI(c - 48)), M), M, fuel - 1)
       ELSE [v |-> acc, stop |-> c, st |-> t.st]
ReadDec(st, signed, M) ==
    LET t == Take(st, 8)  c == Small(t.v)
    IN IF signed /\ c = 45
       THEN LET r == ReadDigits(t.st, IZero, M, 200) IN [r EXCEPT !.v = IMod(INeg(r.v), M)]
       ELSE ReadDigits(st, IZero, M, 200)

ApplyIO(st, s, B) ==
    LET V(i) == st.vals[s.v[i]]
        n == s.n
        SetV(t, i, val) == [t EXCEPT !.vals[s.v[i]] = val]
        RetD(t, dc) == [st |-> t, br |-> "ret", dontcare |-> dc]
        BrD(t, b, dc) == [st |-> t, br |-> b, dontcare |-> dc]
    IN CASE s.k = "in_hex"    -> LET t == Take(st, 4) IN RetD(SetV(t.st, 1, Put(16, V(1), 1, t.v)), {})
         [] s.k = "in_bytes"  -> LET t == Take(st, 8 * n) IN RetD(SetV(t.st, 1, Put(B, V(1), (IF B = 16 THEN 2 ELSE 8) * n, t.v)), {})
         [] s.k = "in_bit"    -> LET t == Take(st, 1) IN RetD(SetV(t.st, 1, Put(2, V(1), 1, t.v)), {})
         [] s.k = "in_as_hex" ->      \* n ascii hex digits, the first one is the most significant
                LET RECURSIVE R(_, _, _)
                    R(t, i, acc) == IF i = n THEN [ok |-> TRUE, st |-> t, v |-> acc]
                                    ELSE LET q == Take(t, 8)  d == HexOfChar(Small(q.v))
                                         IN IF d = 99 THEN [ok |-> FALSE, st |-> q.st, v |-> acc]
                                            ELSE R(q.st, i + 1, IAdd(IShl(acc, 4), NatI(d)))
                    r == R(st, 0, IZero)
                IN IF r.ok THEN RetD(SetV(r.st, 1, Put(16, V(1), n, r.v)), {}) ELSE BrD(r.st, "error", {s.v[1]})
         [] s.k \in {"in_dec_until", "in_idec_until"} ->      \* v = <<dst, stop_byte>>
                LET r == ReadDec(st, s.k = "in_idec_until", Pw(16, n))
                IN RetD([r.st EXCEPT !.vals[s.v[1]] = Put(16, V(1), n, r.v), !.vals[s.v[2]] = Put(16, V(2), 2, NatI(r.stop)),
                                     !.addc = 0], {})
         [] s.k \in {"in_dec", "in_idec"} ->
                LET r == ReadDec(st, s.k = "in_idec", Pw(16, n))
                    t == [r.st EXCEPT !.vals[s.v[1]] = Put(16, V(1), n, r.v), !.addc = 0]
                IN IF r.stop \in {0, 10} THEN RetD(t, {}) ELSE BrD(t, "error", {s.v[1]})
         [] s.k = "out_hex"   -> RetD(EmitBits(st, BitsOfInt(Low(16, V(1), 1), 4)), {})
         [] s.k = "out_bytes" -> RetD(EmitBits(st, BitsOfInt(Low(B, V(1), (IF B = 16 THEN 2 ELSE 8) * n), 8 * n)), {})
         [] s.k = "out_bit"   -> RetD(EmitBits(st, BitsOfInt(Low(2, V(1), 1), 1)), {})
         [] s.k = "print_digits" ->   \* hex.print_as_digit n, x, upper: n digits, most significant first   (c = upper)
                RetD(EmitChars(st, [i \in 1..n |-> DigitChar(HexDigit(V(1), n - i), ~IIsZero(s.c))], 1), {})
         [] s.k = "print_bits" ->     \* bit.print_as_digit n, x: '0'/'1', least significant first
                RetD(EmitChars(st, [i \in 1..n |-> 48 + MBit(V(1).mag, i - 1)], 1), {})
         [] s.k \in {"print_uint", "print_int"} ->     \* m = x_prefix flag, c = uppercase flag; n digits (hex) / n bits (bit: n divisible by 4, capitals)
                LET nd == IF B = 16 THEN n ELSE n \div 4
                    low == Low(B, V(1), n)
                    neg == s.k = "print_int" /\ Signed(B, V(1), n).neg
                    mag == IF neg THEN IMod(INeg(low), Pw(B, n)) ELSE low
                    upper == IF B = 16 THEN ~IIsZero(s.c) ELSE TRUE
                    cs == (IF neg THEN <<45>> ELSE <<>>) \o (IF s.m # 0 THEN <<48, 120>> ELSE <<>>) \o HexChars(mag, nd - 1, upper, FALSE)
                IN RetD(EmitChars(st, cs, 1), {})
         [] s.k \in {"print_dec_uint", "print_dec_int"} ->
                LET low == Low(B, V(1), n)
                    neg == s.k = "print_dec_int" /\ Signed(B, V(1), n).neg
                    mag == IF neg THEN IMod(INeg(low), Pw(B, n)) ELSE low
                IN RetD(EmitChars(st, (IF neg THEN <<45>> ELSE <<>>) \o DecChars(mag), 1), {})
         [] s.k = "bit2hex"   -> RetD(SetV(st, 1, Put(16, V(1), (n + 3) \div 4, Low(2, V(2), n))), {})      \* hex[:(n+3)/4] = bit[:n]
         [] s.k = "hex2bit"   -> RetD(SetV(st, 1, Put(2, V(1), 4 * n, Low(16, V(2), n))), {})               \* bit[:4n] = hex[:n]


ApplyCore(st, s, B) ==
    LET V(i) == st.vals[s.v[i]]
        n == s.n
        L(i) == Low(B, V(i), n)
        P1(val) == Ret(Set1(st, s.v[1], Put(B, V(1), n, val)))          \* write the low n digits of the first variable
        ClrA(t) == [t EXCEPT !.addc = 0]        \* macros built on hex.add clear the add carry (before and after)
        ClrS(t) == [t EXCEPT !.subc = 0]        \* macros built on hex.sub clear the sub borrow
    IN CASE s.k = "zero"     -> P1(IZero)
         [] s.k = "one"      -> P1(ISub(Pw(B, n), IOne))                                  \* bit.one: all ones
         [] s.k = "mov"      -> P1(L(2))
         [] s.k = "xor_by"   -> P1(IBitwise("^", L(1), Low(B, s.c, n)))
         [] s.k = "set"      -> P1(s.c)
         [] s.k = "swap"     -> Ret([st EXCEPT !.vals[s.v[1]] = Put(B, V(1), n, L(2)), !.vals[s.v[2]] = Put(B, V(2), n, L(1))])
         [] s.k = "xor"      -> P1(IBitwise("^", L(1), L(2)))
         [] s.k = "xor_zero" -> Ret([st EXCEPT !.vals[s.v[1]] = Put(B, V(1), n, IBitwise("^", L(1), L(2))),
                                               !.vals[s.v[2]] = Put(B, V(2), n, IZero)])
         [] s.k = "not"      -> P1(ISub(ISub(Pw(B, n), IOne), L(1)))
         [] s.k = "or"       -> P1(IBitwise("|", L(1), L(2)))
         [] s.k = "and"      -> P1(IBitwise("&", L(1), L(2)))
         [] s.k = "inc"      -> P1(IAdd(L(1), IOne))
         [] s.k = "dec"      -> P1(ISub(L(1), IOne))
         [] s.k = "neg"      -> P1(INeg(L(1)))
         [] s.k = "abs"      -> P1(IF Signed(B, V(1), n).neg THEN INeg(L(1)) ELSE L(1))
         [] s.k = "sign_extend" ->      \* n = full size, m = signed size
                Ret(Set1(st, s.v[1], Put(B, V(1), n, Signed(B, V(1), s.m))))
         [] s.k = "count_bits" ->       \* dst[:small_n] = popcount(x[:n]),  small_n = ((#(4n))+3)/4  (hex)
                Ret(Set1(st, s.v[1], Put(B, V(1), s.m, NatI(PopCnt(Low(B, V(2), n))))))
         [] s.k = "add"      -> [st |-> ClrA(Set1(st, s.v[1], Put(B, V(1), n, IAdd(L(1), L(2))))), br |-> "ret"]
         [] s.k = "sub"      -> [st |-> ClrS(Set1(st, s.v[1], Put(B, V(1), n, ISub(L(1), L(2))))), br |-> "ret"]
         [] s.k = "add1"     ->         \* single hex: dst += src + carry; the carry is updated
                LET t == IAdd(IAdd(Low(B, V(1), 1), Low(B, V(2), 1)), NatI(st.addc))
                IN Ret([Set1(st, s.v[1], Put(B, V(1), 1, t)) EXCEPT !.addc = IF ILe(NatI(16), t) THEN 1 ELSE 0])
         [] s.k = "sub1"     ->
                LET t == ISub(ISub(Low(B, V(1), 1), Low(B, V(2), 1)), NatI(st.subc))
                IN Ret([Set1(st, s.v[1], Put(B, V(1), 1, t)) EXCEPT !.subc = IF t.neg THEN 1 ELSE 0])
         [] s.k = "add_shifted" ->      \* n = dst_n, m = src_n, sh = hex_shift
                [st |-> ClrA(Set1(st, s.v[1], Put(B, V(1), n, IAdd(L(1), IShl(Low(B, V(2), s.m), 4 * s.sh))))), br |-> "ret"]
         [] s.k = "sub_shifted" ->
                [st |-> ClrS(Set1(st, s.v[1], Put(B, V(1), n, ISub(L(1), IShl(Low(B, V(2), s.m), 4 * s.sh))))), br |-> "ret"]
         [] s.k = "add_constant" -> [st |-> ClrA(Set1(st, s.v[1], Put(B, V(1), n, IAdd(L(1), s.c)))), br |-> "ret"]
         [] s.k = "sub_constant" -> [st |-> ClrS(Set1(st, s.v[1], Put(B, V(1), n, ISub(L(1), s.c)))), br |-> "ret"]
         [] s.k = "shl_bit"  -> P1(IShl(L(1), 1))
         [] s.k = "shr_bit"  -> P1(IShr(L(1), 1))
         [] s.k = "shl"      -> P1(IShl(L(1), (IF B = 16 THEN 4 ELSE 1) * s.sh))          \* shl_hex n, times / bit.shl n, times
         [] s.k = "shr"      -> P1(IShr(L(1), (IF B = 16 THEN 4 ELSE 1) * s.sh))
         [] s.k = "rol"      -> P1(IAdd(IShl(L(1), s.sh), IShr(L(1), n - s.sh)))         \* rotate left by sh bits within n
         [] s.k = "ror"      -> P1(IAdd(IShr(L(1), s.sh), IShl(L(1), n - s.sh)))
         [] s.k = "if"       -> Br(st, IF IIsZero(L(1)) THEN "l0" ELSE "l1")
         [] s.k = "if0"      -> Br(st, IF IIsZero(L(1)) THEN "l0" ELSE "ret")
         [] s.k = "if1"      -> Br(st, IF IIsZero(L(1)) THEN "ret" ELSE "l1")
         [] s.k = "sign"     -> Br(st, IF Signed(B, V(1), n).neg THEN "neg" ELSE "zpos")
         [] s.k = "cmp"      -> Br(st, IF ILt(L(1), L(2)) THEN "lt" ELSE IF L(1) = L(2) THEN "eq" ELSE "gt")
         [] s.k = "scmp"     -> LET a == Signed(B, V(1), n)  b == Signed(B, V(2), n)
                                IN Br(st, IF ILt(a, b) THEN "lt" ELSE IF a = b THEN "eq" ELSE "gt")
         [] s.k = "min"      -> P1(IF ILe(L(2), L(3)) THEN L(2) ELSE L(3))
         [] s.k = "max"      -> P1(IF ILe(L(3), L(2)) THEN L(2) ELSE L(3))
         [] s.k = "if_flags" -> Br(st, IF MBit(s.c.mag, MToNat(Low(B, V(1), 1).mag)) = 1 THEN "l1" ELSE "l0")
         [] s.k = "mul"      -> [st |-> ClrA(Set1(st, s.v[1], Put(B, V(1), n, IMul(L(2), L(3))))), br |-> "ret"]
         [] s.k = "mul10"    -> [st |-> ClrA(Set1(st, s.v[1], Put(B, V(1), n, IMul(L(1), NatI(10))))), br |-> "ret"]
         [] s.k = "add_mul"  -> [st |-> ClrA(Set1(st, s.v[1], Put(B, V(1), n, IAdd(L(1), IMul(L(2), Low(B, V(3), 1)))))), br |-> "ret"]
         [] s.k = "div"      ->         \* q,a: n digits; r,b: m digits;  v = <<q, r, a, b>>
                LET a == Low(B, V(3), n)  b == Low(B, V(4), s.m)
                    new == [st EXCEPT !.vals[s.v[1]] = Put(B, V(1), n, IFloorDiv(a, b)), !.vals[s.v[2]] = Put(B, V(2), s.m, IMod(a, b))]
                IN IF IIsZero(b) THEN Br(st, "div0")
                   \* the sub borrow is cleared by the vectored subtractions - which only happen when the quotient is not 0
                   ELSE [st |-> IF ILt(a, b) THEN new ELSE ClrS(new), br |-> "ret"]
         [] s.k = "idiv"     ->         \* signed; sh = rem_opt: 0 sign(r)=sign(b) (floor), 1 sign(r)=sign(a) (truncate), 2 r >= 0;  a = q*b + r
                LET a == Signed(B, V(3), n)  b == Signed(B, V(4), s.m)
                    absb == IF b.neg THEN INeg(b) ELSE b
                    qf == IFloorDiv(a, b)  rf == IMod(a, b)
                    r2 == IMod(a, absb)    q2 == IFloorDiv(ISub(a, r2), b)
                    \* truncation: floor for equal signs or exact division, else floor + 1
                    qt == IF IIsZero(rf) \/ (a.neg = b.neg) THEN qf ELSE IAdd(qf, IOne)
                    rt == ISub(a, IMul(qt, b))
                    q == CASE s.sh = 0 -> qf [] s.sh = 1 -> qt [] s.sh = 2 -> q2
                    r == CASE s.sh = 0 -> rf [] s.sh = 1 -> rt [] s.sh = 2 -> r2
                    \* the remainder fix-up adds b back with hex.add (which clears the add carry) only on these paths;
                    \* elsewhere the add carry is not touched
                    usesAdd == ~IIsZero(rt) /\ ((s.sh = 0 /\ a.neg # b.neg) \/ (s.sh = 2 /\ a.neg /\ ~b.neg))
                    new == [st EXCEPT !.vals[s.v[1]] = Put(B, V(1), n, q), !.vals[s.v[2]] = Put(B, V(2), s.m, r)]
                    absa == IF a.neg THEN INeg(a) ELSE a
                    usesSub == ~ILt(absa, absb) \/ (~IIsZero(rt) /\ s.sh = 2 /\ a.neg /\ b.neg)
                    new1 == IF usesAdd THEN ClrA(new) ELSE new
                IN IF IIsZero(b) THEN Br(st, "div0")
                   ELSE [st |-> IF usesSub THEN ClrS(new1) ELSE new1, br |-> "ret"]
         [] s.k = "shra"     -> P1(IShr(Signed(B, V(1), n), s.sh))                        \* arithmetic shift right
         [] s.k = "mul2"     -> P1(IMul(L(1), L(2)))                                      \* bit.mul / mul_loop: dst[:n] *= src[:n]
         [] s.k = "inc1b"    ->         \* bit.inc1 dst, carry ("carry is both input and output"): dst += carry, carry = the carry out
                LET t == IAdd(Low(B, V(1), 1), Low(B, V(2), 1))
                IN Ret([st EXCEPT !.vals[s.v[1]] = Put(B, V(1), 1, t), !.vals[s.v[2]] = Put(B, V(2), 1, IShr(t, 1))])
         [] s.k = "add1b"    ->         \* bit.add1 dst, src, carry: dst += src + carry, carry = the carry out   (a full adder)
                LET t == IAdd(IAdd(Low(B, V(1), 1), Low(B, V(2), 1)), Low(B, V(3), 1))
                IN Ret([st EXCEPT !.vals[s.v[1]] = Put(B, V(1), 1, t), !.vals[s.v[3]] = Put(B, V(3), 1, IShr(t, 1))])
         [] s.k = "divb"     ->         \* bit.div n, a, b, q, r: if b==0 do nothing; q = a/b, r = a%b (unsigned)   v = <<a, b, q, r>>
                LET a == L(1)  b == L(2)
                IN IF IIsZero(b) THEN Ret(st)
                   ELSE Ret([st EXCEPT !.vals[s.v[3]] = Put(B, V(3), n, IFloorDiv(a, b)), !.vals[s.v[4]] = Put(B, V(4), n, IMod(a, b))])
         [] s.k = "idivb"    ->         \* bit.idiv: signed, sign(r) == sign(a) (truncation)
                LET a == Signed(B, V(1), n)  b == Signed(B, V(2), n)
                    qf == IFloorDiv(a, b)  rf == IMod(a, b)
                    qt == IF IIsZero(rf) \/ (a.neg = b.neg) THEN qf ELSE IAdd(qf, IOne)
                    rt == ISub(a, IMul(qt, b))
                IN IF IIsZero(b) THEN Ret(st)
                   ELSE Ret([st EXCEPT !.vals[s.v[3]] = Put(B, V(3), n, qt), !.vals[s.v[4]] = Put(B, V(4), n, rt)])
         [] s.k = "div10"    ->         \* bit.div10: dst = src / 10, src = src % 10   v = <<dst, src>>
                [st |-> [st EXCEPT !.vals[s.v[1]] = Put(B, V(1), n, IFloorDiv(L(2), NatI(10))),
                                   !.vals[s.v[2]] = Put(B, V(2), n, IMod(L(2), NatI(10)))], br |-> "ret"]
IOKeys == {"in_hex", "in_bytes", "in_bit", "in_as_hex", "in_dec_until", "in_idec_until", "in_dec", "in_idec", "out_hex", "out_bytes",
           "out_bit", "print_digits", "print_bits", "print_uint", "print_int", "print_dec_uint", "print_dec_int", "bit2hex", "hex2bit"}
Apply(st, s, B) == IF s.k \in IOKeys THEN ApplyIO(st, s, B)
                   ELSE LET r == ApplyCore(st, s, B) IN [st |-> r.st, br |-> r.br, dontcare |-> {}]
=============================================================================
