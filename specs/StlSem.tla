------------------------------- MODULE StlSem -------------------------------
(***************************************************************************)
(* Semantics of the standard library's data macros, one action per macro,  *)
(* transcribed from the documentation line above each `def`.               *)
(*                                                                         *)
(* The state a library user can name:                                      *)
(*   st.vals   variable name -> value (an integer, NMAX digits of base B:  *)
(*             B = 16 for hex.vec, 2 for bit.vec)                          *)
(*   st.addc, st.subc   the add carry / sub borrow of the hex namespace    *)
(*             (only the single-hex hex.add / hex.sub document using them) *)
(* A step is  [k |-> macro key, n, m, sh |-> small naturals, c |-> integer *)
(* constant, v |-> <<variable names bound to the macro's variable          *)
(* parameters, in order>>].  Apply(st, s, B) gives the state after the     *)
(* macro and the branch it takes ("ret" = falls through).                  *)
(* Frame condition: a macro with size n only touches the low n digits of   *)
(* its documented destinations; everything else keeps its value.           *)
(***************************************************************************)
EXTENDS FJInt, TLC

Pw(B, n) == CASE B = 16 -> IShl(IOne, 4 * n) [] B = 2 -> IShl(IOne, n) [] B = 256 -> IShl(IOne, 8 * n)       \* B^n
Low(B, x, n) == IMod(x, Pw(B, n))
Put(B, x, n, y) == IAdd(ISub(x, Low(B, x, n)), IMod(y, Pw(B, n)))     \* replace the low n digits of x by y mod B^n
Signed(B, x, n) == LET l == Low(B, x, n) IN IF ILe(IShr(Pw(B, n), 1), l) THEN ISub(l, Pw(B, n)) ELSE l
NatI(k) == IOfNat(k)
RECURSIVE PopMag(_, _)
PopMag(m, i) == IF i > Len(m) THEN 0 ELSE (LET RECURSIVE P(_) P(b) == IF b = 0 THEN 0 ELSE (b % 2) + P(b \div 2) IN P(m[i])) + PopMag(m, i + 1)
PopCnt(x) == PopMag(x.mag, 1)

Ret(st) == [st |-> st, br |-> "ret"]
Br(st, b) == [st |-> st, br |-> b]
Set1(st, x, val) == [st EXCEPT !.vals[x] = val]


\* ---- input / output ------------------------------------------------------------------------------
\* st.inp = [bits |-> sequence of 0/1, pos |-> bits consumed]  (zeros are served after the end);  st.out = bits written
InBit(st, i) == IF st.inp.pos + i <= Len(st.inp.bits) THEN st.inp.bits[st.inp.pos + i] ELSE 0
RECURSIVE TakeVal(_, _, _)
TakeVal(st, k, i) == IF i > k THEN IZero ELSE IAdd(IF InBit(st, i) = 1 THEN IShl(IOne, i - 1) ELSE IZero, TakeVal(st, k, i + 1))
Take(st, k) == [v |-> TakeVal(st, k, 1), st |-> [st EXCEPT !.inp.pos = @ + k]]       \* k bits, least significant first
BitsOfInt(x, k) == [i \in 1..k |-> MBit(x.mag, i - 1)] \o <<>>                          \* non-negative x
EmitBits(st, bits) == [st EXCEPT !.out = @ \o bits]
ByteBits(c) == BitsOfInt(NatI(c), 8)
RECURSIVE EmitChars(_, _, _)
EmitChars(st, cs, i) == IF i > Len(cs) THEN st ELSE EmitChars(EmitBits(st, ByteBits(cs[i])), cs, i + 1)
Small(x) == MToNat(x.mag)                                                              \* a value below 2^24

DigitChar(d, upper) == IF d < 10 THEN 48 + d ELSE (IF upper THEN 55 ELSE 87) + d
HexDigit(x, i) == Small(Low(16, IShr(x, 4 * i), 1))                                    \* hex digit i of x
RECURSIVE HexChars(_, _, _, _)
\* the n hex digits of x, most significant first, without leading zeros (at least one digit)
HexChars(x, i, upper, started) ==
    IF i < 0 THEN (IF started THEN <<>> ELSE <<48>>)
    ELSE LET d == HexDigit(x, i)
         IN IF d = 0 /\ ~started THEN HexChars(x, i - 1, upper, FALSE)
            ELSE <<DigitChar(d, upper)>> \o HexChars(x, i - 1, upper, TRUE)
RECURSIVE DecChars(_)
DecChars(x) == IF ILt(x, NatI(10)) THEN <<48 + Small(x)>> ELSE DecChars(IFloorDiv(x, NatI(10))) \o <<48 + Small(IMod(x, NatI(10)))>>
HexOfChar(c) == IF c >= 48 /\ c <= 57 THEN c - 48 ELSE IF c >= 97 /\ c <= 102 THEN c - 87 ELSE IF c >= 65 /\ c <= 70 THEN c - 55 ELSE 99
IsDigit(c) == c >= 48 /\ c <= 57

\* read a decimal number: optional '-' (if signed), digits; stops at the first other byte.  [v, stop, st, neg]
RECURSIVE ReadDigits(_, _, _, _)
ReadDigits(st, acc, M, fuel) ==
    LET t == Take(st, 8)  c == Small(t.v)
    IN IF IsDigit(c) /\ fuel > 0 THEN ReadDigits(t.st, IMod(IAdd(IMul(acc, NatI(10)), NatI(c - 48)), M), M, fuel - 1)
       ELSE [v |-> acc, stop |-> c, st |-> t.st]
ReadDec(st, signed, M) ==
    LET t == Take(st, 8)  c == Small(t.v)
    IN IF signed /\ c = 45
       THEN LET r == ReadDigits(t.st, IZero, M, 200) IN [r EXCEPT !.v = IMod(INeg(r.v), M)]
       ELSE ReadDigits(st, IZero, M, 200)

ApplyIO(st, s, B) ==
    LET V(i) == st.vals[s.v[i]]
        n == s.n
        SetV(t, i, val) == [t EXCEPT !.vals[s.v[i]] = val]
        RetD(t, dc) == [st |-> t, br |-> "ret", dontcare |-> dc]
        BrD(t, b, dc) == [st |-> t, br |-> b, dontcare |-> dc]
    IN CASE s.k = "in_hex"    -> LET t == Take(st, 4) IN RetD(SetV(t.st, 1, Put(16, V(1), 1, t.v)), {})
         [] s.k = "in_bytes"  -> LET t == Take(st, 8 * n) IN RetD(SetV(t.st, 1, Put(B, V(1), (IF B = 16 THEN 2 ELSE 8) * n, t.v)), {})
         [] s.k = "in_bit"    -> LET t == Take(st, 1) IN RetD(SetV(t.st, 1, Put(2, V(1), 1, t.v)), {})
         [] s.k = "in_as_hex" ->      \* n ascii hex digits, the first one is the most significant
                LET RECURSIVE R(_, _, _)
                    R(t, i, acc) == IF i = n THEN [ok |-> TRUE, st |-> t, v |-> acc]
                                    ELSE LET q == Take(t, 8)  d == HexOfChar(Small(q.v))
                                         IN IF d = 99 THEN [ok |-> FALSE, st |-> q.st, v |-> acc]
                                            ELSE R(q.st, i + 1, IAdd(IShl(acc, 4), NatI(d)))
                    r == R(st, 0, IZero)
                IN IF r.ok THEN RetD(SetV(r.st, 1, Put(16, V(1), n, r.v)), {}) ELSE BrD(r.st, "error", {s.v[1]})
         [] s.k \in {"in_dec_until", "in_idec_until"} ->      \* v = <<dst, stop_byte>>
                LET r == ReadDec(st, s.k = "in_idec_until", Pw(16, n))
                IN RetD([r.st EXCEPT !.vals[s.v[1]] = Put(16, V(1), n, r.v), !.vals[s.v[2]] = Put(16, V(2), 2, NatI(r.stop)),
                                     !.addc = 2], {})
         [] s.k \in {"in_dec", "in_idec"} ->
                LET r == ReadDec(st, s.k = "in_idec", Pw(16, n))
                    t == [r.st EXCEPT !.vals[s.v[1]] = Put(16, V(1), n, r.v), !.addc = 2]
                IN IF r.stop \in {0, 10} THEN RetD(t, {}) ELSE BrD(t, "error", {s.v[1]})
         [] s.k = "out_hex"   -> RetD(EmitBits(st, BitsOfInt(Low(16, V(1), 1), 4)), {})
         [] s.k = "out_bytes" -> RetD(EmitBits(st, BitsOfInt(Low(B, V(1), (IF B = 16 THEN 2 ELSE 8) * n), 8 * n)), {})
         [] s.k = "out_bit"   -> RetD(EmitBits(st, BitsOfInt(Low(2, V(1), 1), 1)), {})
         [] s.k = "print_digits" ->   \* hex.print_as_digit n, x, upper: n digits, most significant first   (c = upper)
                RetD(EmitChars(st, [i \in 1..n |-> DigitChar(HexDigit(V(1), n - i), ~IIsZero(s.c))], 1), {})
         [] s.k = "print_bits" ->     \* bit.print_as_digit n, x: '0'/'1', least significant first
                RetD(EmitChars(st, [i \in 1..n |-> 48 + MBit(V(1).mag, i - 1)], 1), {})
         [] s.k \in {"print_uint", "print_int"} ->     \* m = x_prefix flag, c = uppercase flag; n digits (hex) / n bits (bit: n divisible by 4, capitals)
                LET nd == IF B = 16 THEN n ELSE n \div 4
                    low == Low(B, V(1), n)
                    neg == s.k = "print_int" /\ Signed(B, V(1), n).neg
                    mag == IF neg THEN IMod(INeg(low), Pw(B, n)) ELSE low
                    upper == IF B = 16 THEN ~IIsZero(s.c) ELSE TRUE
                    cs == (IF neg THEN <<45>> ELSE <<>>) \o (IF s.m # 0 THEN <<48, 120>> ELSE <<>>) \o HexChars(mag, nd - 1, upper, FALSE)
                IN RetD(EmitChars(st, cs, 1), {})
         [] s.k \in {"print_dec_uint", "print_dec_int"} ->
                LET low == Low(B, V(1), n)
                    neg == s.k = "print_dec_int" /\ Signed(B, V(1), n).neg
                    mag == IF neg THEN IMod(INeg(low), Pw(B, n)) ELSE low
                IN RetD(EmitChars(st, (IF neg THEN <<45>> ELSE <<>>) \o DecChars(mag), 1), {})
         \* casts between values and ASCII (bit/casting.fj): ascii is bit[:8]
         [] s.k = "bin2ascii" -> RetD(SetV(st, 1, Put(2, V(1), 8, NatI(48 + Small(Low(2, V(2), 1))))), {})
         [] s.k = "dec2ascii" -> LET d == Small(Low(2, V(2), 4))                          \* a decimal digit; 10..15 have no decimal character
                                 IN RetD(SetV(st, 1, Put(2, V(1), 8, NatI(48 + d))), IF d > 9 THEN {s.v[1]} ELSE {})
         [] s.k = "hex2ascii" -> RetD(SetV(st, 1, Put(2, V(1), 8, NatI(DigitChar(Small(Low(2, V(2), 4)), TRUE)))), {})
         \* v = <<error, digit, ascii>>: a valid character gives its value and error = 0; otherwise error = 1 (the digit is then unspecified)
         [] s.k = "ascii2bin" -> LET c == Small(Low(2, V(3), 8))  ok == c \in {48, 49}
                                 IN RetD([st EXCEPT !.vals[s.v[1]] = Put(2, V(1), 1, NatI(IF ok THEN 0 ELSE 1)),
                                                    !.vals[s.v[2]] = Put(2, V(2), 1, NatI(IF ok THEN c - 48 ELSE 0))], IF ok THEN {} ELSE {s.v[2]})
         [] s.k = "ascii2dec" -> LET c == Small(Low(2, V(3), 8))  ok == IsDigit(c)
                                 IN RetD([st EXCEPT !.vals[s.v[1]] = Put(2, V(1), 1, NatI(IF ok THEN 0 ELSE 1)),
                                                    !.vals[s.v[2]] = Put(2, V(2), 4, NatI(IF ok THEN c - 48 ELSE 0))], IF ok THEN {} ELSE {s.v[2]})
         [] s.k = "ascii2hex" -> LET c == Small(Low(2, V(3), 8))  h == HexOfChar(c)  ok == h < 16
                                 IN RetD([st EXCEPT !.vals[s.v[1]] = Put(2, V(1), 1, NatI(IF ok THEN 0 ELSE 1)),
                                                    !.vals[s.v[2]] = Put(2, V(2), 4, NatI(IF ok THEN h ELSE 0))], IF ok THEN {} ELSE {s.v[2]})
         [] s.k = "print_str" ->       \* bit.print_str n, x: the first n characters of x[:8n], or up to the first 0 byte
                LET RECURSIVE Ch(_)
                    Ch(i) == IF i >= n THEN <<>> ELSE LET c == Small(Low(2, IShr(V(1), 8 * i), 8)) IN IF c = 0 THEN <<>> ELSE <<c>> \o Ch(i + 1)
                IN RetD(EmitChars(st, Ch(0), 1), {})
         [] s.k = "bit2hex"   -> RetD(SetV(st, 1, Put(16, V(1), (n + 3) \div 4, Low(2, V(2), n))), {})      \* hex[:(n+3)/4] = bit[:n]
         [] s.k = "hex2bit"   -> RetD(SetV(st, 1, Put(2, V(1), 4 * n, Low(16, V(2), n))), {})               \* bit[:4n] = hex[:n]



\* ---- pointers, stack -------------------------------------------------------------------------------
\* A pointer variable holds (abstractly) the INDEX of the cell it points to; cells live in a "cells" variable whose
\* value is a base-256 number (cell i = byte i: the 8 data bits of the i-th op of a buffer).  Pointer arithmetic moves
\* by whole cells.  Cell width cw: 4 = hex macros, 8 = byte macros, 1 = bit-namespace macros (s.m = 0 / 1 / 2).
Cell(cells, i) == IF i < 0 \/ i > 1000 THEN 0 ELSE Small(Low(256, IShr(cells, 8 * i), 1))      \* total: outside accesses are cut by the harness
SetCell(cells, i, b) == IF i < 0 \/ i > 1000 THEN cells ELSE IAdd(ISub(cells, IShl(NatI(Cell(cells, i)), 8 * i)), IShl(NatI(b), 8 * i))
Idx(x) == IF x.neg THEN 0 - Small(x) ELSE Small(x)         \* small signed integer value of a pointer / index
IntOf(k) == IF k < 0 THEN INeg(NatI(0 - k)) ELSE NatI(k)
XorB(a, b) == Small(IBitwise("^", NatI(a), NatI(b)))
CW(s) == IF s.m = 1 THEN 8 ELSE IF s.m = 2 THEN 1 ELSE 4
P2(k) == Small(IShl(IOne, k))
\* the value held by cells p .. p+k-1 (cw bits each, least significant first)
RECURSIVE Gather(_, _, _, _, _)
Gather(cells, p, k, cw, i) == IF i = k THEN IZero
                              ELSE IAdd(IShl(NatI(Cell(cells, p + i) % P2(cw)), cw * i), Gather(cells, p, k, cw, i + 1))
\* write (mode "set") or xor (mode "xor") the k cw-bit pieces of val into cells p..p+k-1; the other bits of a cell stay
RECURSIVE Scatter(_, _, _, _, _, _, _)
Scatter(cells, p, k, cw, val, mode, i) ==
    IF i = k THEN cells
    ELSE LET old == Cell(cells, p + i)
             piece == Small(Low(2, IShr(val, cw * i), cw))
             new == IF mode = "xor" THEN XorB(old, piece) ELSE (old - (old % P2(cw))) + piece
         IN Scatter(SetCell(cells, p + i, new), p, k, cw, val, mode, i + 1)

\* structured call trees.  items: <<"o", char>> print | <<"c", body>> stl.call | <<"f", body>> stl.fcall / fret
\*   | <<"pc", var, body>> hex.push_byte var; stl.call f, 1  | <<"pp", var1, var2, body>> hex.push_byte var1; body; hex.pop_byte var2
\* d = number of stack cells in use above the initial sp; a call clears the cell it stores the return address in
\* and leaves it cleared; the stack pointer is back where it started when the tree is done.
RECURSIVE Walk(_, _, _, _, _, _)
Walk(t, items, i, d, sp0, stk) ==
    IF i > Len(items) THEN t
    ELSE LET it == items[i]
             top == sp0 + d + 1
             t1 == CASE it[1] = "o"  -> EmitChars(t, <<it[2]>>, 1)
                     [] it[1] = "c"  -> Walk([t EXCEPT !.vals[stk] = SetCell(@, top, 0)], it[2], 1, d + 1, sp0, stk)
                     [] it[1] = "f"  -> Walk(t, it[2], 1, d, sp0, stk)
                     [] it[1] = "pc" -> Walk([t EXCEPT !.vals[stk] = SetCell(SetCell(@, top, Cell(t.vals[it[2]], 0)), top + 1, 0)],
                                             it[3], 1, d + 2, sp0, stk)
                     [] it[1] = "pp" -> LET u == Walk([t EXCEPT !.vals[stk] = SetCell(@, top, Cell(t.vals[it[2]], 0))], it[4], 1, d + 1, sp0, stk)
                                        IN [u EXCEPT !.vals[it[3]] = Put(16, @, 2, NatI(Cell(u.vals[stk], top)))]
         IN Walk(t1, items, i + 1, d, sp0, stk)
RECURSIVE Rep(_, _)
Rep(c, k) == IF k = 0 THEN <<>> ELSE <<c>> \o Rep(c, k - 1)
RECURSIVE ZeroCells(_, _, _)
ZeroCells(cells, from, k) == IF k = 0 THEN cells ELSE ZeroCells(SetCell(cells, from, 0), from + 1, k - 1)

ApplyPtr(st, s, B) ==
    LET V(i) == st.vals[s.v[i]]
        n == s.n
        cw == CW(s)
        DB == IF cw = 1 THEN 2 ELSE 16                 \* digit base of the data variable
        dn(k) == IF cw = 8 THEN 2 * k ELSE k           \* digits of the data variable that k cells fill
        SetV(t, i, val) == [t EXCEPT !.vals[s.v[i]] = val]
        RetD(t) == [st |-> t, br |-> "ret", dontcare |-> {}]
    IN CASE s.k = "ptr_add"   -> RetD(SetV(st, 1, IAdd(V(1), s.c)))                     \* ptr += c cells  (inc: c = 1, dec: c = -1, sub: c < 0)
         [] s.k = "ptr_mov"   -> RetD(SetV(st, 1, V(2)))                                \* stl.get_sp dst
         [] s.k = "ptr_index" -> RetD(SetV(st, 1, IAdd(V(2), Signed(16, V(3), s.n))))   \* dst = ptr + index (signed, n = w/4 digits)
         [] s.k = "ptr_rd"    ->       \* v = <<d, p, cells>>;  n cells;  sh = 1: ptr++ afterwards
                LET p == Idx(V(2))
                    t == SetV(st, 1, Put(DB, V(1), dn(n), Gather(V(3), p, n, cw, 0)))
                IN RetD(IF s.sh = 1 THEN [t EXCEPT !.vals[s.v[2]] = IAdd(V(2), IOne)] ELSE t)
         [] s.k = "ptr_rd_nth" ->      \* v = <<d, p, idx, cells>>: d = *(p + idx)
                LET p == Idx(V(2)) + Idx(Signed(16, V(3), s.n))
                IN RetD(SetV(st, 1, Put(DB, V(1), dn(1), Gather(V(4), p, 1, cw, 0))))
         [] s.k = "ptr_xor_from" ->    \* v = <<d, p, cells>>: d ^= *p
                LET p == Idx(V(2))
                IN RetD(SetV(st, 1, Put(DB, V(1), dn(1), IBitwise("^", Low(DB, V(1), dn(1)), Gather(V(3), p, 1, cw, 0)))))
         [] s.k = "ptr_wr"    ->       \* v = <<p, src, cells>>; c: 0 = write, 1 = xor;  sh = 1: ptr++ afterwards
                LET p == Idx(V(1))
                    t == SetV(st, 3, Scatter(V(3), p, n, cw, V(2), IF IIsZero(s.c) THEN "set" ELSE "xor", 0))
                IN RetD(IF s.sh = 1 THEN [t EXCEPT !.vals[s.v[1]] = IAdd(V(1), IOne)] ELSE t)
         [] s.k = "ptr_wr_nth" ->      \* v = <<p, idx, src, cells>>
                LET p == Idx(V(1)) + Idx(Signed(16, V(2), s.n))
                IN RetD(SetV(st, 4, Scatter(V(4), p, 1, cw, V(3), "set", 0)))
         [] s.k = "ptr_zero"  -> RetD(SetV(st, 2, SetCell(V(2), Idx(V(1)), 0)))          \* v = <<p, cells>>: *p = 0
         [] s.k = "ptr_flip_data" ->   \* v = <<p, cells>>: flips the bits c of cell *p (ptr_flip_dbit / ptr_flip: c = 1; ptr_wflip: any c)
                RetD(SetV(st, 2, SetCell(V(2), Idx(V(1)), XorB(Cell(V(2), Idx(V(1))), Small(s.c)))))
         [] s.k = "ptr_jump"  -> [st |-> st, br |-> IF Idx(V(1)) \in 0..(Len(s.tgt) - 1) THEN s.tgt[Idx(V(1)) + 1] ELSE "wild", dontcare |-> {}]       \* the pointer holds the index of a code target
         \* stack: v = <<x, sp, stack>>;  sp points to the last pushed cell
         [] s.k = "push"      ->
                LET sp == Idx(V(2)) + 1
                IN RetD([st EXCEPT !.vals[s.v[2]] = IntOf(sp),
                                   !.vals[s.v[3]] = Scatter(V(3), sp, 1, cw, V(1), "set", 0)])
         [] s.k = "pop"       ->
                LET sp == Idx(V(2))
                IN RetD([st EXCEPT !.vals[s.v[2]] = IntOf(sp - 1),
                                   !.vals[s.v[1]] = Put(16, V(1), dn(1), Gather(V(3), sp, 1, cw, 0))])
         [] s.k = "push_n"    ->       \* hex.push n, x: n/2 bytes, then (n odd) the last hex
                LET sp == Idx(V(2))  nb == n \div 2
                    c1 == Scatter(V(3), sp + 1, nb, 8, V(1), "set", 0)
                    c2 == IF n % 2 = 1 THEN Scatter(c1, sp + 1 + nb, 1, 4, IShr(V(1), 4 * (n - 1)), "set", 0) ELSE c1
                IN RetD([st EXCEPT !.vals[s.v[2]] = IntOf(sp + (n + 1) \div 2), !.vals[s.v[3]] = c2])
         [] s.k = "pop_n"     ->
                LET m2 == (n + 1) \div 2  nb == n \div 2
                    base == Idx(V(2)) - m2 + 1
                    bytes == Gather(V(3), base, nb, 8, 0)
                    last == IF n % 2 = 1 THEN IShl(NatI(Cell(V(3), base + nb) % 16), 4 * (n - 1)) ELSE IZero
                IN RetD([st EXCEPT !.vals[s.v[2]] = IntOf(Idx(V(2)) - m2),
                                   !.vals[s.v[1]] = Put(16, V(1), n, IAdd(bytes, last))])
         [] s.k = "calls"     ->       \* v = <<sp, stack, data variables...>>: a call tree; functions print and return in order
                RetD(Walk(st, s.tree, 1, 0, Idx(V(1)), s.v[2]))
         \* byte-buffer helpers (hex/strings.fj): v = <<p, len, cells>>; len / count are hex[:n] numbers (n = w/4)
         [] s.k = "buf_input_line" ->  \* reads bytes into the buffer until '\n' or a 0 byte (both consumed, not stored); len = how many
                LET p == Idx(V(1))
                    RECURSIVE Rd(_, _, _)
                    Rd(t, cells, k) == LET r == Take(t, 8)  b == Small(r.v)
                                       IN IF b = 0 \/ b = 10 \/ k > 64 THEN [t |-> r.st, cells |-> cells, k |-> k]
                                          ELSE Rd(r.st, SetCell(cells, p + k, b), k + 1)
                    z == Rd(st, V(3), 0)
                IN RetD([z.t EXCEPT !.vals[s.v[2]] = Put(16, V(2), n, NatI(z.k)), !.vals[s.v[3]] = z.cells])
         [] s.k = "buf_print_text" ->  \* prints len bytes of the buffer
                LET p == Idx(V(1))  len == Small(Low(16, V(2), n))
                IN RetD(EmitChars(st, [i \in 1..(IF len > 64 THEN 64 ELSE len) |-> Cell(V(3), p + i - 1)] \o <<>>, 1))
         [] s.k = "buf_print_line" ->  \* prints until '\n' (printed too) or a 0 byte (not printed); len = bytes before the terminator
                LET p == Idx(V(1))
                    RECURSIVE Pr(_)
                    Pr(k) == LET b == Cell(V(3), p + k)
                             IN IF b = 0 \/ k > 64 THEN [cs |-> <<>>, k |-> k] ELSE IF b = 10 THEN [cs |-> <<10>>, k |-> k]
                                ELSE LET z == Pr(k + 1) IN [cs |-> <<b>> \o z.cs, k |-> z.k]
                    z == Pr(0)
                IN RetD(EmitChars([st EXCEPT !.vals[s.v[2]] = Put(16, V(2), n, NatI(z.k))], z.cs, 1))
         [] s.k = "buf_fill"  ->       \* v = <<p, count, value, cells>>: count bytes of the buffer := value[:2]
                LET p == Idx(V(1))  cnt == Small(Low(16, V(2), n))  b == Small(Low(16, V(3), 2))
                    RECURSIVE Fl(_, _)
                    Fl(cells, k) == IF k >= cnt \/ k > 64 THEN cells ELSE Fl(SetCell(cells, p + k, b), k + 1)
                IN RetD(SetV(st, 4, Fl(V(4), 0)))
         [] s.k = "buf_copy"  ->       \* v = <<dst, src, count, cells>>: count bytes from *src to *dst (the ranges do not overlap)
                LET d == Idx(V(1))  sr == Idx(V(2))  cnt == Small(Low(16, V(3), n))
                    RECURSIVE Cp(_, _)
                    Cp(cells, k) == IF k >= cnt \/ k > 64 THEN cells ELSE Cp(SetCell(cells, d + k, Cell(cells, sr + k)), k + 1)
                IN RetD(SetV(st, 4, Cp(V(4), 0)))
         [] s.k = "recurse"   ->       \* v = <<cnt, sp, stack>>: f() { if (cnt == 0) return; cnt--; print 'd'; f(); print 'u' }  called once
                LET k == Small(Low(16, V(1), 1))
                    t == [st EXCEPT !.vals[s.v[1]] = Put(16, V(1), 1, IZero),
                                    !.vals[s.v[3]] = ZeroCells(V(3), Idx(V(2)) + 1, k + 1)]
                IN RetD(EmitChars(t, Rep(100, k) \o Rep(117, k), 1))

ApplyCore(st, s, B) ==
    LET V(i) == st.vals[s.v[i]]
        n == s.n
        L(i) == Low(B, V(i), n)
        P1(val) == Ret(Set1(st, s.v[1], Put(B, V(1), n, val)))          \* write the low n digits of the first variable
        \* Only the single-hex hex.add / hex.sub (and the carry macros) DOCUMENT what they do with the carry flags.  A
        \* vectored macro built on them clears the flag before it starts (or its result would be wrong - that is judged
        \* through the value); the flag it leaves behind is not documented: UNKNOWN (2) here.  A later step whose
        \* documented result depends on an unknown flag is unspecified as a whole (Unspec).
        ClrA(t) == [t EXCEPT !.addc = 2]
        ClrS(t) == [t EXCEPT !.subc = 2]
        Unspec == [st |-> st, br |-> "ret", dc |-> {"*"}]
    IN CASE s.k = "zero"     -> P1(IZero)
         [] s.k = "one"      -> P1(ISub(Pw(B, n), IOne))                                  \* bit.one: all ones
         [] s.k = "mov"      -> P1(L(2))
         [] s.k = "xor_by"   -> P1(IBitwise("^", L(1), Low(B, s.c, n)))
         [] s.k = "set"      -> P1(s.c)
         [] s.k = "swap"     -> Ret([st EXCEPT !.vals[s.v[1]] = Put(B, V(1), n, L(2)), !.vals[s.v[2]] = Put(B, V(2), n, L(1))])
         [] s.k = "xor"      -> P1(IBitwise("^", L(1), L(2)))
         [] s.k = "xor_zero" -> Ret([st EXCEPT !.vals[s.v[1]] = Put(B, V(1), n, IBitwise("^", L(1), L(2))),
                                               !.vals[s.v[2]] = Put(B, V(2), n, IZero)])
         [] s.k = "not"      -> P1(ISub(ISub(Pw(B, n), IOne), L(1)))
         [] s.k = "or"       -> P1(IBitwise("|", L(1), L(2)))
         [] s.k = "and"      -> P1(IBitwise("&", L(1), L(2)))
         [] s.k = "inc"      -> P1(IAdd(L(1), IOne))
         [] s.k = "dec"      -> P1(ISub(L(1), IOne))
         [] s.k = "neg"      -> P1(INeg(L(1)))
         [] s.k = "abs"      -> P1(IF Signed(B, V(1), n).neg THEN INeg(L(1)) ELSE L(1))
         [] s.k = "sign_extend" ->      \* n = full size, m = signed size
                Ret(Set1(st, s.v[1], Put(B, V(1), n, Signed(B, V(1), s.m))))
         [] s.k = "count_bits" ->       \* dst[:small_n] = popcount(x[:n]),  small_n = ((#(4n))+3)/4  (hex)
                Ret(Set1(st, s.v[1], Put(B, V(1), s.m, NatI(PopCnt(Low(B, V(2), n))))))
         [] s.k = "add"      -> [st |-> ClrA(Set1(st, s.v[1], Put(B, V(1), n, IAdd(L(1), L(2))))), br |-> "ret"]
         [] s.k = "sub"      -> [st |-> ClrS(Set1(st, s.v[1], Put(B, V(1), n, ISub(L(1), L(2))))), br |-> "ret"]
         [] s.k = "add1" /\ st.addc = 2 -> Unspec
         [] s.k = "sub1" /\ st.subc = 2 -> Unspec
         [] s.k = "add1"     ->         \* single hex: dst += src + carry; the carry is updated
                LET t == IAdd(IAdd(Low(B, V(1), 1), Low(B, V(2), 1)), NatI(st.addc))
                IN Ret([Set1(st, s.v[1], Put(B, V(1), 1, t)) EXCEPT !.addc = IF ILe(NatI(16), t) THEN 1 ELSE 0])
         [] s.k = "sub1"     ->
                LET t == ISub(ISub(Low(B, V(1), 1), Low(B, V(2), 1)), NatI(st.subc))
                IN Ret([Set1(st, s.v[1], Put(B, V(1), 1, t)) EXCEPT !.subc = IF t.neg THEN 1 ELSE 0])
         [] s.k = "add_shifted" ->      \* n = dst_n, m = src_n, sh = hex_shift
                [st |-> ClrA(Set1(st, s.v[1], Put(B, V(1), n, IAdd(L(1), IShl(Low(B, V(2), s.m), 4 * s.sh))))), br |-> "ret"]
         [] s.k = "sub_shifted" ->
                [st |-> ClrS(Set1(st, s.v[1], Put(B, V(1), n, ISub(L(1), IShl(Low(B, V(2), s.m), 4 * s.sh))))), br |-> "ret"]
         [] s.k = "add_constant" -> [st |-> ClrA(Set1(st, s.v[1], Put(B, V(1), n, IAdd(L(1), s.c)))), br |-> "ret"]
         [] s.k = "sub_constant" -> [st |-> ClrS(Set1(st, s.v[1], Put(B, V(1), n, ISub(L(1), s.c)))), br |-> "ret"]
         \* single hex with a branch on the carry-out / borrow-out (no carry flag involved)
         [] s.k = "inc1h"    -> [st |-> Set1(st, s.v[1], Put(B, V(1), 1, IAdd(Low(B, V(1), 1), IOne))),
                                 br |-> IF Low(B, V(1), 1) = NatI(15) THEN "c1" ELSE "c0"]
         [] s.k = "dec1h"    -> [st |-> Set1(st, s.v[1], Put(B, V(1), 1, ISub(Low(B, V(1), 1), IOne))),
                                 br |-> IF IIsZero(Low(B, V(1), 1)) THEN "c1" ELSE "c0"]
         [] s.k = "add_count_bits" -> P1(IAdd(L(1), NatI(PopCnt(Low(B, V(2), 1)))))          \* dst[:n] += number of on-bits of the hex src
         [] s.k = "double_xor" -> Ret([st EXCEPT !.vals[s.v[1]] = Put(B, V(1), 1, IBitwise("^", Low(B, V(1), 1), Low(B, V(3), 1))),
                                                 !.vals[s.v[2]] = Put(B, V(2), 1, IBitwise("^", Low(B, V(2), 1), Low(B, V(3), 1)))])
         \* the carry flags themselves: c = 0 the add carry, c = 1 the sub borrow;  m = 0 clear, 1 clear with branch on the old value, 2 not, 3 set
         [] s.k = "carry_op" ->
                LET old == IF IIsZero(s.c) THEN st.addc ELSE st.subc
                    new == CASE s.m \in {0, 1} -> 0 [] s.m = 2 -> (IF old = 2 THEN 2 ELSE 1 - old) [] s.m = 3 -> 1
                    t == IF IIsZero(s.c) THEN [st EXCEPT !.addc = new] ELSE [st EXCEPT !.subc = new]
                IN IF s.m = 1 /\ old = 2 THEN [st |-> t, br |-> "ret", dc |-> {"*"}]
                   ELSE [st |-> t, br |-> IF s.m = 1 THEN (IF old = 0 THEN "c0" ELSE "c1") ELSE "ret"]
         \* exact variants: the destination is the bit address of digit sh of the variable (m = 1: ^= the bit src, m = 0: ^= 1)
         [] s.k = "xor_at"   -> Ret(Set1(st, s.v[1], IBitwise("^", V(1), IShl(IF s.m = 1 THEN Low(B, V(2), 1) ELSE IOne, s.sh))))
         [] s.k = "xor_at2"  -> LET b == Low(B, V(3), 1)          \* two destinations: digit sh of v1, digit m of v2
                                IN Ret([st EXCEPT !.vals[s.v[1]] = IBitwise("^", V(1), IShl(b, s.sh)),
                                                  !.vals[s.v[2]] = IBitwise("^", V(2), IShl(b, s.m))])
         [] s.k = "shl_bit"  -> P1(IShl(L(1), 1))
         [] s.k = "shr_bit"  -> P1(IShr(L(1), 1))
         [] s.k = "shl"      -> P1(IShl(L(1), (IF B = 16 THEN 4 ELSE 1) * s.sh))          \* shl_hex n, times / bit.shl n, times
         [] s.k = "shr"      -> P1(IShr(L(1), (IF B = 16 THEN 4 ELSE 1) * s.sh))
         [] s.k = "rol"      -> P1(IAdd(IShl(L(1), s.sh), IShr(L(1), n - s.sh)))         \* rotate left by sh bits within n
         [] s.k = "ror"      -> P1(IAdd(IShr(L(1), s.sh), IShl(L(1), n - s.sh)))
         [] s.k = "if"       -> Br(st, IF IIsZero(L(1)) THEN "l0" ELSE "l1")
         [] s.k = "if0"      -> Br(st, IF IIsZero(L(1)) THEN "l0" ELSE "ret")
         [] s.k = "if1"      -> Br(st, IF IIsZero(L(1)) THEN "ret" ELSE "l1")
         [] s.k = "sign"     -> Br(st, IF Signed(B, V(1), n).neg THEN "neg" ELSE "zpos")
         [] s.k = "cmp"      -> Br(st, IF ILt(L(1), L(2)) THEN "lt" ELSE IF L(1) = L(2) THEN "eq" ELSE "gt")
         [] s.k = "scmp"     -> LET a == Signed(B, V(1), n)  b == Signed(B, V(2), n)
                                IN Br(st, IF ILt(a, b) THEN "lt" ELSE IF a = b THEN "eq" ELSE "gt")
         [] s.k = "min"      -> P1(IF ILe(L(2), L(3)) THEN L(2) ELSE L(3))
         [] s.k = "max"      -> P1(IF ILe(L(3), L(2)) THEN L(2) ELSE L(3))
         [] s.k = "if_flags" -> Br(st, IF MBit(s.c.mag, MToNat(Low(B, V(1), 1).mag)) = 1 THEN "l1" ELSE "l0")
         [] s.k = "mul"      -> [st |-> ClrA(Set1(st, s.v[1], Put(B, V(1), n, IMul(L(2), L(3))))), br |-> "ret"]
         [] s.k = "mul10"    -> [st |-> ClrA(Set1(st, s.v[1], Put(B, V(1), n, IMul(L(1), NatI(10))))), br |-> "ret"]
         [] s.k = "add_mul"  -> [st |-> ClrA(Set1(st, s.v[1], Put(B, V(1), n, IAdd(L(1), IMul(L(2), Low(B, V(3), 1)))))), br |-> "ret"]
         [] s.k = "div"      ->         \* q,a: n digits; r,b: m digits;  v = <<q, r, a, b>>
                LET a == Low(B, V(3), n)  b == Low(B, V(4), s.m)
                    new == [st EXCEPT !.vals[s.v[1]] = Put(B, V(1), n, IFloorDiv(a, b)), !.vals[s.v[2]] = Put(B, V(2), s.m, IMod(a, b))]
                IN IF IIsZero(b) THEN Br(st, "div0")
                   \* the sub borrow is cleared by the vectored subtractions - which only happen when the quotient is not 0
                   ELSE [st |-> IF ILt(a, b) THEN new ELSE ClrS(new), br |-> "ret"]
         [] s.k = "idiv"     ->         \* signed; sh = rem_opt: 0 sign(r)=sign(b) (floor), 1 sign(r)=sign(a) (truncate), 2 r >= 0;  a = q*b + r
                LET a == Signed(B, V(3), n)  b == Signed(B, V(4), s.m)
                    absb == IF b.neg THEN INeg(b) ELSE b
                    qf == IFloorDiv(a, b)  rf == IMod(a, b)
                    r2 == IMod(a, absb)    q2 == IFloorDiv(ISub(a, r2), b)
                    \* truncation: floor for equal signs or exact division, else floor + 1
                    qt == IF IIsZero(rf) \/ (a.neg = b.neg) THEN qf ELSE IAdd(qf, IOne)
                    rt == ISub(a, IMul(qt, b))
                    q == CASE s.sh = 0 -> qf [] s.sh = 1 -> qt [] s.sh = 2 -> q2
                    r == CASE s.sh = 0 -> rf [] s.sh = 1 -> rt [] s.sh = 2 -> r2
                    \* the remainder fix-up adds b back with hex.add (which clears the add carry) only on these paths;
                    \* elsewhere the add carry is not touched
                    usesAdd == ~IIsZero(rt) /\ ((s.sh = 0 /\ a.neg # b.neg) \/ (s.sh = 2 /\ a.neg /\ ~b.neg))
                    new == [st EXCEPT !.vals[s.v[1]] = Put(B, V(1), n, q), !.vals[s.v[2]] = Put(B, V(2), s.m, r)]
                    absa == IF a.neg THEN INeg(a) ELSE a
                    usesSub == ~ILt(absa, absb) \/ (~IIsZero(rt) /\ s.sh = 2 /\ a.neg /\ b.neg)
                    new1 == IF usesAdd THEN ClrA(new) ELSE new
                IN IF IIsZero(b) THEN Br(st, "div0")
                   ELSE [st |-> IF usesSub THEN ClrS(new1) ELSE new1, br |-> "ret"]
         [] s.k = "shra"     -> P1(IShr(Signed(B, V(1), n), s.sh))                        \* arithmetic shift right
         [] s.k = "mul2"     -> P1(IMul(L(1), L(2)))                                      \* bit.mul / mul_loop: dst[:n] *= src[:n]
         [] s.k = "inc1b"    ->         \* bit.inc1 dst, carry ("carry is both input and output"): dst += carry, carry = the carry out
                LET t == IAdd(Low(B, V(1), 1), Low(B, V(2), 1))
                IN Ret([st EXCEPT !.vals[s.v[1]] = Put(B, V(1), 1, t), !.vals[s.v[2]] = Put(B, V(2), 1, IShr(t, 1))])
         [] s.k = "add1b"    ->         \* bit.add1 dst, src, carry: dst += src + carry, carry = the carry out   (a full adder)
                LET t == IAdd(IAdd(Low(B, V(1), 1), Low(B, V(2), 1)), Low(B, V(3), 1))
                IN Ret([st EXCEPT !.vals[s.v[1]] = Put(B, V(1), 1, t), !.vals[s.v[3]] = Put(B, V(3), 1, IShr(t, 1))])
         [] s.k = "divb"     ->         \* bit.div n, a, b, q, r: if b==0 do nothing; q = a/b, r = a%b (unsigned)   v = <<a, b, q, r>>
                LET a == L(1)  b == L(2)
                IN IF IIsZero(b) THEN Ret(st)
                   ELSE Ret([st EXCEPT !.vals[s.v[3]] = Put(B, V(3), n, IFloorDiv(a, b)), !.vals[s.v[4]] = Put(B, V(4), n, IMod(a, b))])
         [] s.k = "idivb"    ->         \* bit.idiv: signed, sign(r) == sign(a) (truncation)
                LET a == Signed(B, V(1), n)  b == Signed(B, V(2), n)
                    qf == IFloorDiv(a, b)  rf == IMod(a, b)
                    qt == IF IIsZero(rf) \/ (a.neg = b.neg) THEN qf ELSE IAdd(qf, IOne)
                    rt == ISub(a, IMul(qt, b))
                IN IF IIsZero(b) THEN Ret(st)
                   ELSE Ret([st EXCEPT !.vals[s.v[3]] = Put(B, V(3), n, qt), !.vals[s.v[4]] = Put(B, V(4), n, rt)])
         [] s.k = "div10"    ->         \* bit.div10: dst = src / 10, src = src % 10   v = <<dst, src>>
                [st |-> [st EXCEPT !.vals[s.v[1]] = Put(B, V(1), n, IFloorDiv(L(2), NatI(10))),
                                   !.vals[s.v[2]] = Put(B, V(2), n, IMod(L(2), NatI(10)))], br |-> "ret"]
IOKeys == {"in_hex", "in_bytes", "in_bit", "in_as_hex", "in_dec_until", "in_idec_until", "in_dec", "in_idec", "out_hex", "out_bytes",
           "out_bit", "print_digits", "print_bits", "print_uint", "print_int", "print_dec_uint", "print_dec_int", "bit2hex", "hex2bit",
           "bin2ascii", "dec2ascii", "hex2ascii", "ascii2bin", "ascii2dec", "ascii2hex", "print_str"}
PtrKeys == {"ptr_add", "ptr_index", "ptr_rd", "ptr_rd_nth", "ptr_xor_from", "ptr_wr", "ptr_wr_nth", "ptr_zero", "ptr_flip_data", "ptr_jump",
            "push", "pop", "push_n", "pop_n", "calls", "recurse", "ptr_mov", "buf_input_line", "buf_print_text", "buf_print_line", "buf_fill", "buf_copy"}
Apply(st, s, B) == IF s.k \in IOKeys THEN ApplyIO(st, s, B)
                   ELSE IF s.k \in PtrKeys THEN ApplyPtr(st, s, B)
                   ELSE LET r == ApplyCore(st, s, B) IN [st |-> r.st, br |-> r.br, dontcare |-> IF "dc" \in DOMAIN r THEN r.dc ELSE {}]
=============================================================================
