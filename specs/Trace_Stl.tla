------------------------------ MODULE Trace_Stl ------------------------------
(***************************************************************************)
(* Batch oracle for the library macros: every record is a behaviour        *)
(*   [B, steps |-> << [set |-> << <<var, value>> ... >>, k, n, m, sh, c, v]*)
(* (before each step the environment overwrites the listed variables).     *)
(* TLC prints, per record, the state StlSem prescribes after every step.   *)
(***************************************************************************)
EXTENDS StlSem, Json, IOUtils

Tr == JsonDeserialize(IOEnv.TRACE_FILE)
VARIABLES tid
Init == tid \in 1..Len(Tr)
Next == FALSE /\ UNCHANGED tid
Spec == Init /\ [][Next]_tid

RECURSIVE SetAll(_, _, _)
SetAll(st, sets, i) == IF i > Len(sets) THEN st ELSE SetAll([st EXCEPT !.vals[sets[i][1]] = sets[i][2]], sets, i + 1)

RECURSIVE Chain(_, _, _, _)
Chain(st, steps, i, B) ==
    IF i > Len(steps) THEN <<>>
    ELSE LET s == steps[i]
             st0 == [SetAll(st, s.set, 1) EXCEPT !.inp = [bits |-> s.inp, pos |-> 0], !.out = <<>>]
             r == Apply(st0, s, s.B)
         IN <<[vals |-> r.st.vals, addc |-> r.st.addc, subc |-> r.st.subc, br |-> r.br,
               out |-> r.st.out, inused |-> r.st.inp.pos, dontcare |-> r.dontcare]>> \o Chain(r.st, steps, i + 1, B)

Emit == LET R == Tr[tid]
            st0 == [vals |-> [x \in {R.vars[k] : k \in 1..Len(R.vars)} |-> IZero], addc |-> 0, subc |-> 0, inp |-> [bits |-> <<>>, pos |-> 0], out |-> <<>>]
        IN PrintT("@@P" \o ToJson([tid |-> tid, post |-> Chain(st0, R.steps, 1, R.B)]))
=============================================================================
