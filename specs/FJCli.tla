-------------------------------- MODULE FJCli --------------------------------
(***************************************************************************)
(* The fj command line, its split flows and the Python API.                *)
(*                                                                         *)
(* opts = [w, v, o, nostl, d, werror, preset, s]; "not given" is encoded    *)
(* as w = 0, v = 9, preset = 99 (TLC cannot mix strings and integers)      *)
(* Effective(opts) is what the documentation states: width 64; format      *)
(* version 3 when an output file is requested and 1 otherwise; standard    *)
(* library included unless disabled; lzma preset 6.                        *)
(* Three routes produce  artefact = Asm(sources, Effective)  and           *)
(* run = Exec(artefact, input):  OneStep (fj ... -o), TwoStep (fj --asm -o *)
(* then fj --run), Api (flipjump.assemble / run; and the one-call           *)
(* flipjump.assemble_and_run).  RoutesAgree: the                          *)
(* artefacts are byte-identical and the runs equal wherever the routes can *)
(* express the same effective options (the API has no lzma preset / flags  *)
(* parameters and takes the warning mode as an argument).                  *)
(***************************************************************************)
EXTENDS Naturals, Sequences, FiniteSets, TLC, Json, IOUtils

CONSTANTS Ws, Vs, Presets, EmitOn      \* option values to explore ("none" included)

Effective(o) ==
    [ w |-> IF o.w = 0 THEN 64 ELSE o.w,
      version |-> IF o.v # 9 THEN o.v ELSE IF o.o THEN 3 ELSE 1,
      stl |-> ~o.nostl,
      werror |-> o.werror,
      preset |-> IF o.preset = 99 THEN 6 ELSE o.preset ]

\* the API can express these options iff the lzma preset is the default or irrelevant
ApiComparable(o) == LET e == Effective(o) IN e.version # 3 \/ e.preset = 6

VARIABLES opts
Init == opts \in [w : Ws, v : Vs, o : {TRUE}, nostl : BOOLEAN, d : BOOLEAN, werror : BOOLEAN, preset : Presets, s : BOOLEAN]
Next == FALSE /\ UNCHANGED opts
Spec == Init /\ [][Next]_opts
Emit == IF EmitOn THEN PrintT("@@O" \o ToJson([opts |-> opts, eff |-> Effective(opts), api |-> ApiComparable(opts)])) ELSE TRUE

\* ---- judgement of one recorded combination -------------------------------------------------
\* rec = [opts, one, two, api] with route = [ok, w, version, digest, out, term]  (api.ok = FALSE if not run)
Clauses(rec) ==
    LET e == Effective(rec.opts)
    IN [ header_w       |-> rec.one.ok => (rec.one.w = e.w /\ rec.two.w = e.w),
         header_version |-> rec.one.ok => (rec.one.version = e.version /\ rec.two.version = e.version),
         one_two_bytes  |-> rec.one.ok = rec.two.ok /\ (rec.one.ok => rec.one.digest = rec.two.digest),
         one_two_run    |-> rec.one.ok => (rec.one.out = rec.two.out /\ rec.one.term = rec.two.term),
         api_bytes      |-> (rec.api.ran /\ ApiComparable(rec.opts)) => (rec.api.ok = rec.one.ok /\ (rec.one.ok => rec.api.digest = rec.one.digest)),
         api_run        |-> (rec.api.ran /\ rec.api.ok /\ rec.one.ok) => (rec.api.out = rec.one.out /\ rec.api.term = rec.one.term),
         \* the convenience route flipjump.assemble_and_run (assembles into a temporary file, then runs) behaves like assemble + run
         quick_run      |-> (rec.api.ran /\ "qs_ran" \in DOMAIN rec.api /\ rec.api.qs_ran) =>
                                (rec.api.qs_ok = rec.api.ok /\ (rec.api.ok => (rec.api.qs_out = rec.api.out /\ rec.api.qs_term = rec.api.term))) ]
=============================================================================
