---------------------------- MODULE Trace_FJMScale ----------------------------
(***************************************************************************)
(* FJMFormat!RoundTrip at a scale TLC cannot enumerate: one segment of     *)
(* more than a million words.  The record carries digests of the data the  *)
(* writer was given and of the words the reader loaded; RoundTrip says     *)
(* they are the same words, that the file was readable at all, and that    *)
(* the loaded segment table is the one that was written.                   *)
(***************************************************************************)
EXTENDS Naturals, Sequences, TLC, Json, IOUtils
Tr == JsonDeserialize(IOEnv.TRACE_FILE)
VARIABLES tid
Init == tid \in 1..Len(Tr)
Next == FALSE /\ UNCHANGED tid
Spec == Init /\ [][Next]_tid
Verdict ==
    LET r == Tr[tid]
        c == [ written  |-> r.written,
               readable |-> r.written => r.rok,
               segments |-> (r.written /\ r.rok) => r.rsegs = r.segs,
               words    |-> (r.written /\ r.rok) => (r.nout = r.nin /\ r.dout = r.din) ]
    IN PrintT("@@V" \o ToJson([tid |-> tid, fail |-> {x \in DOMAIN c : ~c[x]}]))
=============================================================================
