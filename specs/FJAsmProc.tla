----------------------------- MODULE FJAsmProc -----------------------------
(***************************************************************************)
(* One process assembling several programs, one after the other.           *)
(*                                                                         *)
(* Process state that outlives a call:                                     *)
(*   cache     stl-prefix parse cache: key -> snapshot                     *)
(*   recLimit  the interpreter's recursion limit                           *)
(* A call c has a cache key Key[c] ("none": nothing cacheable), a          *)
(* recursion depth Depth[c] and a PURE result Pure[c] (bytes of the        *)
(* produced files, or the failure class) - what a fresh process produces.  *)
(* The design: the snapshot stored under a key depends on the key only,    *)
(* entries are never modified, and a call's result does not depend on the  *)
(* history.                                                                *)
(***************************************************************************)
EXTENDS Naturals, Sequences, FiniteSets, TLC, Json, IOUtils

CONSTANTS Calls,        \* call identifiers 1..NCalls
          Keys,         \* sequence: cache key name of each call ("none" if it has no stl prefix)
          MaxLen, EmitOn

VARIABLES cache, hist, results
vars == <<cache, hist, results>>

Snap(key) == key                  \* the snapshot is a function of the key
Pure(c) == c                      \* the result is a function of the call

Init == cache = <<>> /\ hist = <<>> /\ results = <<>>

Assemble(c) ==
    /\ Len(hist) < MaxLen
    /\ hist' = Append(hist, c)
    /\ results' = Append(results, Pure(c))
    /\ cache' = IF Keys[c] # "none" /\ Keys[c] \notin DOMAIN cache THEN (Keys[c] :> Snap(Keys[c])) @@ cache ELSE cache

Next == \E c \in Calls : Assemble(c)
Spec == Init /\ [][Next]_vars

CacheEntriesImmutable == [][ \A k \in DOMAIN cache : k \in DOMAIN cache' /\ cache'[k] = cache[k] ]_vars
KeyDeterminesSnapshot == \A k \in DOMAIN cache : cache[k] = Snap(k)
ResultIsPure == \A i \in 1..Len(hist) : results[i] = Pure(hist[i])

Emit == IF EmitOn /\ Len(hist) >= 1 THEN PrintT("@@H" \o ToJson([h |-> hist])) ELSE TRUE
=============================================================================
