------------------------------- MODULE FJAsm -------------------------------
(***************************************************************************)
(* The primitive (macro-free) assembly language and what its assembled     *)
(* image must be.                                                          *)
(*                                                                         *)
(* A program is a sequence of statements                                   *)
(*   [k |-> "op",      f |-> E, j |-> E]          f;j                      *)
(*   [k |-> "label",   n |-> name]                name:                    *)
(*   [k |-> "wflip",   a |-> E, v |-> E, r |-> E] wflip a, v, r            *)
(*   [k |-> "pad",     n |-> natural]             pad n                    *)
(*   [k |-> "reserve", n |-> bits]                reserve n                *)
(*   [k |-> "segment", a |-> address]             segment a                *)
(* with operand expressions  E = [b |-> "num" | "lbl" | "cur", n |-> name, *)
(* m |-> integer, o |-> integer]  meaning  o,  m * label + o,  $ + o       *)
(* ($ = the address AFTER the current op).  All addresses are unbounded    *)
(* integers (FJInt).                                                       *)
(*                                                                         *)
(* Layout(prog, w) is the first pass: the address of every statement and   *)
(* label, the source segments and their pieces (a `reserve` ends a piece), *)
(* and whether the layout is possible at all.  The second pass is stated   *)
(* as CONSTRAINTS on the assembled image (not as a placement policy):      *)
(* Denotes / LabelsExact / ReservedZero / WFlipWalk / AuxClear.            *)
(***************************************************************************)
EXTENDS FJInt, TLC, FiniteSets

N(n) == IOfNat(n)
W2(w) == N(2 * w)
IsMultiple(x, n) == IIsZero(IMod(x, N(n)))
InWordRange(x, w) == ~x.neg /\ MBitLen(x.mag) <= w            \* 0 <= x < 2^w

\* ---- pass 1: layout ----------------------------------------------------------
\* state of the fold
L0 == [addr |-> IZero, at |-> <<>>, labels |-> <<>>, err |-> "",
       pieces |-> <<>>,            \* closed pieces [s, e] of file segments (in source order)
       pieceStart |-> IZero,       \* start of the open piece
       segIndex |-> 1,             \* index of the open source segment
       reserved |-> <<>>,          \* reserved ranges [s, e]
       segOf |-> <<>>,             \* statement index -> source segment index
       segEnds |-> <<>> ]          \* source segment index -> address where its statements end (the wflip area starts there)

LabelValue(labels, name) ==
    LET hits == {i \in 1..Len(labels) : labels[i][1] = name}
    IN IF hits = {} THEN [ok |-> FALSE] ELSE [ok |-> TRUE, v |-> labels[CHOOSE i \in hits : TRUE][2]]

Step1(st, s, w, idx) ==
    LET here == [st EXCEPT !.at = Append(@, st.addr), !.segOf = Append(@, st.segIndex)]
    IN IF st.err # "" THEN here
       ELSE CASE s.k \in {"op", "wflip"} -> [here EXCEPT !.addr = IAdd(st.addr, W2(w))]
              [] s.k = "label" ->
                    IF LabelValue(st.labels, s.n).ok THEN [here EXCEPT !.err = "duplicate-label"]
                    ELSE [here EXCEPT !.labels = Append(@, <<s.n, st.addr>>)]
              [] s.k = "pad" ->
                    IF s.n <= 0 THEN [here EXCEPT !.err = "bad-pad"]
                    ELSE IF ~IsMultiple(st.addr, 2 * w) THEN [here EXCEPT !.err = "unaligned-pad"]
                    ELSE LET unit == N(2 * w * s.n)
                             r == IMod(st.addr, unit)
                         IN [here EXCEPT !.addr = IF IIsZero(r) THEN st.addr ELSE IAdd(st.addr, ISub(unit, r))]
              [] s.k = "reserve" ->
                    IF s.n < 0 THEN [here EXCEPT !.err = "negative-reserve"]
                    ELSE IF s.n % w # 0 THEN [here EXCEPT !.err = "unaligned-reserve"]
                    ELSE LET e == IAdd(st.addr, N(s.n))
                         IN [here EXCEPT !.addr = e,
                                         !.reserved = Append(@, <<st.addr, e>>),
                                         !.pieces = Append(@, <<st.pieceStart, e>>),
                                         !.pieceStart = e]
              [] s.k = "segment" ->
                    IF ~IsMultiple(s.a, w) THEN [here EXCEPT !.err = "unaligned-segment"]
                    ELSE [here EXCEPT !.addr = s.a, !.pieceStart = s.a, !.segIndex = @ + 1,
                                      !.segEnds = Append(@, st.addr),
                                      !.pieces = Append(@, <<st.pieceStart, st.addr>>)]

RECURSIVE Fold1(_, _, _, _)
Fold1(st, prog, w, i) == IF i > Len(prog) THEN st ELSE Fold1(Step1(st, prog[i], w, i), prog, w, i + 1)

Layout(prog, w) ==
    LET st == Fold1(L0, prog, w, 1)
    IN [st EXCEPT !.segEnds = Append(@, st.addr), !.pieces = Append(@, <<st.pieceStart, st.addr>>)]

\* value of an operand expression of the op at statement index i
ExprValue(e, lay, i, w) ==
    CASE e.b = "num" -> [ok |-> TRUE, v |-> e.o]
      [] e.b = "cur" -> [ok |-> TRUE, v |-> IAdd(IAdd(lay.at[i], W2(w)), e.o)]
      [] e.b = "lbl" -> LET lv == LabelValue(lay.labels, e.n)
                        IN IF lv.ok THEN [ok |-> TRUE, v |-> IAdd(IMul(e.m, lv.v), e.o)] ELSE [ok |-> FALSE]

\* statement ranges: ops occupy [at, at + 2w); reserved ranges [s, e)
OpRange(lay, i, w) == <<lay.at[i], IAdd(lay.at[i], W2(w))>>
Meets(r1, r2) == ILt(r1[1], r2[2]) /\ ILt(r2[1], r1[2])

\* the layout as such is possible (before looking at the room the wflip areas need)
Possible(prog, w) ==
    LET lay == Layout(prog, w)
        ops == {i \in 1..Len(prog) : prog[i].k \in {"op", "wflip"}}
        used == [i \in ops |-> OpRange(lay, i, w)]
        rsv == {lay.reserved[k] : k \in 1..Len(lay.reserved)}
        operandsOK(i) ==
            LET s == prog[i]
                es == IF s.k = "op" THEN <<s.f, s.j>> ELSE <<s.a, s.v, s.r>>
            IN \A k \in 1..Len(es) : LET r == ExprValue(es[k], lay, i, w) IN r.ok /\ InWordRange(r.v, w)
        \* every bit address a wflip flips (a + the highest set bit of v) is a w-bit value
        flipsOK(i) == prog[i].k = "wflip" =>
            LET a == ExprValue(prog[i].a, lay, i, w)  v == ExprValue(prog[i].v, lay, i, w)
            IN (a.ok /\ v.ok /\ ~IIsZero(v.v) /\ ~v.v.neg) => InWordRange(IAdd(a.v, N(MBitLen(v.v.mag) - 1)), w)
    IN /\ lay.err = ""
       /\ \A i \in ops : InWordRange(used[i][1], w) /\ InWordRange(ISub(used[i][2], IOne), w) /\ operandsOK(i) /\ flipsOK(i)
       /\ \A i, j \in ops : i < j => ~Meets(used[i], used[j])
       /\ \A i \in ops : \A r \in rsv : ~Meets(used[i], r)
       /\ \A r1, r2 \in rsv : r1 # r2 => ~Meets(r1, r2)
       /\ \A r \in rsv : ILt(r[1], r[2]) => InWordRange(ISub(r[2], IOne), w)
       \* a file segment holds whole ops: every non-empty piece starts op-aligned and has an even number of words
       /\ \A k \in 1..Len(lay.pieces) :
             lay.pieces[k][1] # lay.pieces[k][2] =>
                 /\ IsMultiple(lay.pieces[k][1], 2 * w)
                 /\ IsMultiple(ISub(lay.pieces[k][2], lay.pieces[k][1]), 2 * w)
       \* pieces of the file never overlap (an empty piece - a segment without statements - occupies nothing)
       /\ \A k1, k2 \in 1..Len(lay.pieces) :
             (k1 < k2 /\ lay.pieces[k1][1] # lay.pieces[k1][2] /\ lay.pieces[k2][1] # lay.pieces[k2][2]) => ~Meets(lay.pieces[k1], lay.pieces[k2])
       \* the first op sits at address 0
       /\ \E i \in ops : IIsZero(lay.at[i])

SetBits(v, w) == {b \in 0..(w - 1) : MBit(v.mag, b) = 1}

\* The wflip chains of a source segment need fresh ops; the assembler takes them from pad holes or from the area that
\* starts where the segment's statements end.  Roomy: even in the worst case (every chain op placed in that area) the
\* area of every segment stays inside the address space and clear of every other piece.  A layout that is possible
\* but not roomy MAY be refused (no placement policy is prescribed); a roomy one must assemble.
Roomy(prog, w) ==
    LET lay == Layout(prog, w)
        wfs(k) == {i \in 1..Len(prog) : prog[i].k = "wflip" /\ lay.segOf[i] = k}
        extra(i) == LET v == ExprValue(prog[i].v, lay, i, w)
                        c == IF v.ok /\ ~v.v.neg THEN Cardinality(SetBits(v.v, w)) ELSE 0
                    IN IF c > 1 THEN c - 1 ELSE 0
        RECURSIVE Sum(_)
        Sum(S) == IF S = {} THEN 0 ELSE LET x == CHOOSE y \in S : TRUE IN extra(x) + Sum(S \ {x})
    IN \A k \in 1..Len(lay.segEnds) :
          LET need == Sum(wfs(k))
              area == <<lay.segEnds[k], IAdd(lay.segEnds[k], N(2 * w * need))>>
          IN need = 0 \/ ( /\ InWordRange(ISub(area[2], IOne), w)
                            /\ \A p \in 1..Len(lay.pieces) : lay.pieces[p][1] # lay.pieces[p][2] => ~Meets(area, lay.pieces[p]) )

\* ---- pass 2: constraints on the assembled image -------------------------------------------
\* img: the loaded file as a sequence of runs <<first word address (Int), <<word values (Int)>> >> of consecutive
\* words (explicit data and zero fill)
RunOf(img, wa) == {k \in 1..Len(img) : ILe(img[k][1], wa) /\ ILt(wa, IAdd(img[k][1], N(Len(img[k][2]))))}
HasWord(img, x, w) == RunOf(img, IFloorDiv(x, N(w))) # {}
WordAt(img, x, w) == LET wa == IFloorDiv(x, N(w))
                         k == CHOOSE r \in RunOf(img, wa) : TRUE
                     IN img[k][2][MToNat(ISub(wa, img[k][1]).mag) + 1]

\* an ordinary op holds exactly its operands
Denotes(prog, lay, img, w, i) ==
    LET s == prog[i]
        f == ExprValue(s.f, lay, i, w)  j == ExprValue(s.j, lay, i, w)
    IN /\ HasWord(img, lay.at[i], w) /\ HasWord(img, IAdd(lay.at[i], N(w)), w)
       /\ WordAt(img, lay.at[i], w) = f.v
       /\ WordAt(img, IAdd(lay.at[i], N(w)), w) = j.v


\* walking a wflip statement from its own address: flips exactly the set bits of v in word a, each once,
\* in max(1, popcount) ops, and arrives at r.  Returns [ok, visited (addresses of the ops after the head)]
RECURSIVE Walk(_, _, _, _, _, _, _)
Walk(img, w, x, a, todo, r, visited) ==
    IF ~HasWord(img, x, w) \/ ~HasWord(img, IAdd(x, N(w)), w) THEN [ok |-> FALSE, visited |-> visited]
    ELSE LET f == WordAt(img, x, w)
             j == WordAt(img, IAdd(x, N(w)), w)
             b == ISub(f, a)
         IN IF todo = {} THEN [ok |-> FALSE, visited |-> visited]
            ELSE IF b.neg \/ ~MIsSmall(b.mag) \/ MToNat(b.mag) \notin todo THEN [ok |-> FALSE, visited |-> visited]
            ELSE LET rest == todo \ {MToNat(b.mag)}
                 IN IF rest = {} THEN [ok |-> (j = r), visited |-> visited]
                    ELSE IF Cardinality(visited) > 70 THEN [ok |-> FALSE, visited |-> visited]
                    ELSE Walk(img, w, j, a, rest, r, visited \cup {j})

WFlipWalk(prog, lay, img, w, i) ==
    LET s == prog[i]
        a == ExprValue(s.a, lay, i, w).v  v == ExprValue(s.v, lay, i, w).v  r == ExprValue(s.r, lay, i, w).v
        bits == SetBits(v, w)
    IN IF bits = {}
       THEN [ok |-> /\ HasWord(img, lay.at[i], w) /\ HasWord(img, IAdd(lay.at[i], N(w)), w)
                    /\ IIsZero(WordAt(img, lay.at[i], w)) /\ WordAt(img, IAdd(lay.at[i], N(w)), w) = r,
             visited |-> {}]
       ELSE Walk(img, w, lay.at[i], a, bits, r, {})

\* auxiliary ops never overlap user statements or reserved space, and lie in file segments of their own source segment's piece
AuxClear(prog, lay, w, aux) ==
    LET ops == {i \in 1..Len(prog) : prog[i].k \in {"op", "wflip"}}
        rng(x) == <<x, IAdd(x, W2(w))>>
    IN \A x \in aux :
          /\ \A i \in ops : ~Meets(rng(x), OpRange(lay, i, w))
          /\ \A k \in 1..Len(lay.reserved) : ~Meets(rng(x), lay.reserved[k])

\* labels: the table holds every source label at the address of the statement that follows it
LabelsExact(lay, table) ==
    \A k \in 1..Len(lay.labels) :
        \E t \in 1..Len(table) : table[t][1] = lay.labels[k][1] /\ table[t][2] = lay.labels[k][2]

\* reserved space is zero and inside the file
ReservedZero(lay, img, w) ==
    \A k \in 1..Len(lay.reserved) :
        LET s == lay.reserved[k][1]  e == lay.reserved[k][2]
            nwords == MToNat(IFloorDiv(ISub(e, s), N(w)).mag)
        IN \A q \in 0..(nwords - 1) :
              LET x == IAdd(s, N(q * w)) IN HasWord(img, x, w) /\ IIsZero(WordAt(img, x, w))
=============================================================================
