--------------------------- MODULE Trace_FJFaults ---------------------------
(***************************************************************************)
(* Observation validation for FJMachineFaults (batch mode, see             *)
(* Trace_FJMachine).  A record: w, segs, data, inp, faultAt, kind, obs:    *)
(*   outcome  "propagates-unchanged" | "wrapped-runtime-error" |           *)
(*            "kbdint-termination" | "normal:<cause>" | other              *)
(*   calls    device-side record of calls                                  *)
(*   ops, hashist/hist/ringlen (only for terminations), mem                *)
(***************************************************************************)
EXTENDS FJMachineFaults, Json, IOUtils

Tr == JsonDeserialize(IOEnv.TRACE_FILE)
N == Len(Tr)

VARIABLES tid, s, opMem, opOut
vars == <<tid, s, opMem, opOut>>

SegsOf(r) == [k \in 1..Len(r.segs) |->
                 [s |-> Ext(r.segs[k][1], AW), e |-> Add(Ext(r.segs[k][1], AW), Ext(r.segs[k][2], AW))]]
DataMem(r) == LET D == {Ext(r.data[k][1], AW) : k \in 1..Len(r.data)}
              IN [a \in D |-> r.data[CHOOSE k \in 1..Len(r.data) : Ext(r.data[k][1], AW) = a][2]]

Init == /\ tid \in 1..N
        /\ s = FInit(MkMachine(Tr[tid].w, SegsOf(Tr[tid]), DataMem(Tr[tid]), Tr[tid].inp))
        /\ opMem = s.m.mem /\ opOut = <<>>

Bound == Tr[tid].bound

Next == /\ FRunning(s) /\ s.m.ops <= Bound
        /\ s' = FStep(s, Tr[tid].faultAt, Tr[tid].kind)
        /\ IF s.m.phase = "fetch" THEN opMem' = s.m.mem /\ opOut' = s.m.out ELSE UNCHANGED <<opMem, opOut>>
        /\ UNCHANGED tid

Spec == Init /\ [][Next]_vars

Consistent == StopIsConsistent(s, opMem, opOut)

Obs == Tr[tid].obs
LastK(q, k) == IF Len(q) <= k THEN q ELSE SubSeq(q, Len(q) - k + 1, Len(q))

ExpectedOutcome == IF s.stop # "none" THEN Outcome(s.stop) ELSE "normal:" \o s.m.status

Clauses ==
    [ outcome |-> Obs.outcome = ExpectedOutcome,
      calls   |-> Obs.calls = s.calls,
      ops     |-> IF Obs.hasops THEN Obs.ops = s.m.ops ELSE TRUE,
      hist    |-> IF Obs.hashist THEN Obs.hist = LastK(s.m.hist, Obs.ringlen) ELSE TRUE,
      out     |-> Obs.out = s.m.out,
      mem     |-> \A k \in 1..Len(Obs.mem) : Word(s.m, Ext(Obs.mem[k][1], AW)) = Obs.mem[k][2] ]

Failing == {c \in DOMAIN Clauses : ~Clauses[c]}
Done == ~FRunning(s) \/ s.m.ops > Bound

Verdict ==
    IF Done
    THEN PrintT("@@V" \o ToJson([tid |-> tid,
                                  fail |-> IF FRunning(s) THEN {"spec-still-running"} ELSE Failing,
                                  spec |-> [outcome |-> ExpectedOutcome, ops |-> s.m.ops, calls |-> s.calls,
                                            stop |-> s.stop, phase |-> s.m.phase, nhist |-> Len(s.m.hist), topop |-> TopOp(s.m)]]))
    ELSE TRUE
=============================================================================
