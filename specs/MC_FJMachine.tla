---------------------------- MODULE MC_FJMachine ----------------------------
(***************************************************************************)
(* Exhaustive exploration of FJMachine at w = 8: every image over a word   *)
(* alphabet x every input of the given set, each run sub-step by sub-step  *)
(* to termination (or MaxOps).  Terminal states are emitted ("@@B" lines)  *)
(* for replay into the real engines.                                       *)
(***************************************************************************)
EXTENDS FJMachine, Json

CONSTANTS
    Layout,     \* sequence of [start, len, ndata] (word addresses, small ints)
    Alphabet,   \* set of word values (small ints) for the data words
    Inputs,     \* set of input bit sequences
    MaxOps,     \* runs are cut after this many retired ops
    EmitOn      \* TRUE: print terminal states for replay

W == 8

VARIABLES m, img, input0
vars == <<m, img, input0>>

NData == LET RECURSIVE S(_) S(i) == IF i = 0 THEN 0 ELSE Layout[i].ndata + S(i - 1) IN S(Len(Layout))
DataBase(k) == LET RECURSIVE S(_) S(i) == IF i = 0 THEN 0 ELSE Layout[i].ndata + S(i - 1) IN S(k - 1)

SegsOf == [k \in 1..Len(Layout) |-> [s |-> A(Layout[k].start), e |-> A(Layout[k].start + Layout[k].len)]]

DataOf(image) ==
    LET Addrs == UNION {{<<k, i>> : i \in 0..(Layout[k].ndata - 1)} : k \in 1..Len(Layout)}
        F(p) == A(Layout[p[1]].start + p[2])
        V(p) == BV(image[DataBase(p[1]) + p[2] + 1], W \div 8)
    IN [a \in {F(p) : p \in Addrs} |-> V(CHOOSE p \in Addrs : F(p) = a)]

Init ==
    /\ img \in [1..NData -> Alphabet]
    /\ input0 \in Inputs
    /\ m = MkMachine(W, SegsOf, DataOf(img), input0)

Next ==
    /\ Running(m) /\ m.ops < MaxOps
    /\ m' = SubStep(m)
    /\ UNCHANGED <<img, input0>>

Spec == Init /\ [][Next]_vars

----------------------------------------------------------------------------
\* Properties of the design itself

TypeInv == TypeOK(m)

\* output happens only in the EmitOutput sub-step and only for the two output bits
OutputOnlyOnIOFlip ==
    [][ m'.out # m.out =>
          /\ m.phase = "out" /\ IsOutputFlip(m)
          /\ m'.out = Append(m.out, BVal(m.f) - 2 * W) ]_vars

\* input is consumed only in ConsumeInput and only when the op covers the input bit
InputOnlyWhenCovered ==
    [][ m'.inp # m.inp => m.phase = "in" /\ CoversInput(m) /\ m'.inp = Tail(m.inp) ]_vars

\* memory changes only by the input write and the flip; the jump word is fetched afterwards
MemChangesOnlyInFlipOrInput ==
    [][ m'.mem # m.mem => m.phase \in {"in", "flip"} ]_vars
JumpWordReadAfterFlip ==
    [][ m.phase = "jump" /\ Running(m') =>
          LET r == ReadWordAt(m, AddPow2(m.ip, Log2(W))) IN r.ok /\ m'.j = Ext(r.v, AW) /\ m'.mem = m.mem ]_vars

\* ops counts retired ops only
OpsCountsRetiredOps ==
    [][ m'.ops # m.ops => m.phase = "retire" /\ m'.ops = m.ops + 1 ]_vars

\* EOF never counts the op; a fault never counts the op
AbortsDoNotCount ==
    [][ m'.status \in {"eof", "memerr"} => m'.ops = m.ops ]_vars

\* memory only ever holds in-segment words (part of TypeOK) and a fault names an out-of-segment word
FaultIsOutside == m.status = "memerr" => ~InSeg(m, WordAddr(m.fault, W))

\* hist has one entry per op begun
HistLen == Len(m.hist) = m.ops + (IF m.phase = "fetch" /\ Running(m) THEN 0 ELSE IF m.status \in {"looping", "nullip"} THEN 0 ELSE 1)

----------------------------------------------------------------------------
\* emission of terminal states for replay

Bytes(v) == v
\* every in-segment word with its current value (untouched words read 0)
SegWords == UNION {{A(Layout[k].start + i) : i \in 0..(Layout[k].len - 1)} : k \in 1..Len(Layout)}
MemList(mm) == LET RECURSIVE ML(_) ML(S) == IF S = {} THEN <<>> ELSE LET a == CHOOSE x \in S : TRUE IN <<<<a, Word(mm, a)>>>> \o ML(S \ {a}) IN ML(SegWords)

Terminal == ~Running(m) \/ m.ops >= MaxOps

Emit ==
    IF EmitOn /\ Terminal
    THEN PrintT("@@B" \o ToJson(
           [ w |-> W, layout |-> Layout, img |-> img, inp |-> input0,
             status |-> IF Running(m) THEN "cut" ELSE m.status, ops |-> m.ops, flips |-> m.flips, jumps |-> m.jumps,
             fault |-> IF m.fault = <<>> THEN <<>> ELSE Bytes(m.fault),
             out |-> m.out, hist |-> [i \in 1..Len(m.hist) |-> Bytes(m.hist[i])],
             mem |-> MemList(m), inused |-> Len(input0) - Len(m.inp) ]))
    ELSE TRUE
----------------------------------------------------------------------------
\* named constant values for the .cfg files (cfg syntax has no tuples/records)
L_one6d4   == <<[start |-> 0, len |-> 6, ndata |-> 4]>>
In_01      == {<<>>, <<1>>}
=============================================================================
