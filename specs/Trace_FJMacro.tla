---------------------------- MODULE Trace_FJMacro ----------------------------
(* batch: every record is a macro program (AST); TLC prints its hygienic inlining *)
EXTENDS FJMacro, Json, IOUtils
Tr == JsonDeserialize(IOEnv.TRACE_FILE)
VARIABLES tid
Init == tid \in 1..Len(Tr)
Next == FALSE /\ UNCHANGED tid
Spec == Init /\ [][Next]_tid
Emit == LET inl == Inline(Tr[tid])
        IN PrintT("@@I" \o ToJson([tid |-> tid, wellformed |-> WellFormed(inl), unique |-> LocalNamesUnique(inl), gunique |-> GlobalNamesUnique(inl),
                                         itconst |-> IterConstClash(Tr[tid]), prog |-> inl]))
=============================================================================
