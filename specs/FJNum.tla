------------------------------- MODULE FJNum -------------------------------
(***************************************************************************)
(* Machine numbers for the FlipJump specifications.                        *)
(*                                                                         *)
(* TLC integers are 32-bit; FlipJump words are up to 64 bits and word      *)
(* addresses in .fjm files reach 2^64.  Every machine quantity is          *)
(* therefore a LIMB NUMBER: a tuple of bytes (0..255), least significant   *)
(* byte first.  This is also exactly the JSON form in which numbers enter  *)
(* and leave TLC (JsonDeserialize mangles integers >= 2^31).  Only         *)
(* provably small values (bit offsets, counters) are TLC integers.         *)
(* Bit positions are 0-based; lengths are in bytes.                        *)
(***************************************************************************)
EXTENDS Naturals, Sequences

P2 == << 1, 2, 4, 8, 16, 32, 64, 128, 256, 512, 1024, 2048, 4096, 8192, 16384,
         32768, 65536, 131072, 262144, 524288, 1048576, 2097152, 4194304,
         8388608, 16777216, 33554432, 67108864, 134217728, 268435456,
         536870912, 1073741824 >>

Pow2(k) == P2[k + 1]                       \* 0 <= k <= 30

Log2(w) == CASE w = 8 -> 3 [] w = 16 -> 4 [] w = 32 -> 5 [] w = 64 -> 6
BitLen(w) == Log2(w) + 1                   \* #w for a power of two

\* limb j of a, 0 outside
Limb(a, j) == IF j >= 1 /\ j <= Len(a) THEN a[j] ELSE 0

\* the n-byte number of the small natural v (v < 2^31)
BV(v, n) == [i \in 1..n |-> IF i <= 4 THEN (v \div P2[8 * (i - 1) + 1]) % 256 ELSE 0] \o <<>>

Zeros(n) == [i \in 1..n |-> 0] \o <<>>

Ext(a, n) == [i \in 1..n |-> Limb(a, i)] \o <<>>

\* value < 2^k
IsBelowPow2(a, k) ==
    LET q == k \div 8  r == k % 8
    IN /\ \A i \in (q + 2)..Len(a) : a[i] = 0
       /\ Limb(a, q + 1) < P2[r + 1]

\* value of a number known to be below 2^30
BVal(a) == Limb(a, 1) + 256 * Limb(a, 2) + 65536 * Limb(a, 3) + 16777216 * Limb(a, 4)

\* comparison of two numbers of the same length
RECURSIVE LtFrom(_, _, _)
LtFrom(a, b, i) == IF i = 0 THEN FALSE
                   ELSE IF a[i] # b[i] THEN a[i] < b[i]
                   ELSE LtFrom(a, b, i - 1)
Lt(a, b) == LtFrom(a, b, Len(a))
Le(a, b) == ~Lt(b, a)

\* add the small value v at limb i with carry propagation (overflow beyond Len is dropped)
RECURSIVE AddAt(_, _, _)
AddAt(a, i, v) ==
    IF i > Len(a) \/ v = 0 THEN a
    ELSE LET s == a[i] + v
         IN AddAt([a EXCEPT ![i] = s % 256], i + 1, s \div 256)

\* a + 2^k
AddPow2(a, k) == AddAt(a, (k \div 8) + 1, P2[(k % 8) + 1])
\* a + v for a small natural v < 2^23
AddSmall(a, v) == AddAt(a, 1, v)

\* general addition / subtraction, same length, result of the same length
RECURSIVE AddRec(_, _, _, _, _)
AddRec(a, b, i, c, acc) ==
    IF i > Len(a) THEN acc
    ELSE LET s == a[i] + b[i] + c
         IN AddRec(a, b, i + 1, s \div 256, Append(acc, s % 256))
Add(a, b) == AddRec(a, b, 1, 0, <<>>)

RECURSIVE SubRec(_, _, _, _, _)
SubRec(a, b, i, br, acc) ==
    IF i > Len(a) THEN acc
    ELSE LET d == a[i] + 256 - b[i] - br
         IN SubRec(a, b, i + 1, IF d < 256 THEN 1 ELSE 0, Append(acc, d % 256))
Sub(a, b) == SubRec(a, b, 1, 0, <<>>)          \* modulo 256^Len

\* logical shifts keeping the length
Shr(a, k) ==
    LET q == k \div 8  r == k % 8
    IN [i \in 1..Len(a) |->
          IF r = 0 THEN Limb(a, i + q)
          ELSE (Limb(a, i + q) \div P2[r + 1]) + (Limb(a, i + q + 1) % P2[r + 1]) * P2[9 - r]] \o <<>>

Shl(a, k) ==
    LET q == k \div 8  r == k % 8
    IN [i \in 1..Len(a) |->
          IF r = 0 THEN Limb(a, i - q)
          ELSE ((Limb(a, i - q) * P2[r + 1]) % 256) + (Limb(a, i - q - 1) \div P2[9 - r])] \o <<>>

\* bits lo .. lo+nbits-1 of a, as an (nbits/8)-byte number (nbits a multiple of 8)
Slice(a, lo, nbits) ==
    LET q == lo \div 8  r == lo % 8
    IN [i \in 1..(nbits \div 8) |->
          IF r = 0 THEN Limb(a, i + q)
          ELSE (Limb(a, i + q) \div P2[r + 1]) + (Limb(a, i + q + 1) % P2[r + 1]) * P2[9 - r]] \o <<>>

\* the low k bits of a as a small natural (k <= 8)
LowBits(a, k) == Limb(a, 1) % P2[k + 1]

GetBitAt(a, k) == (Limb(a, (k \div 8) + 1) \div P2[(k % 8) + 1]) % 2
FlipBitAt(a, k) ==
    LET i == (k \div 8) + 1  p == P2[(k % 8) + 1]
    IN [a EXCEPT ![i] = IF (@ \div p) % 2 = 1 THEN @ - p ELSE @ + p]
SetBitAt(a, k, v) == IF GetBitAt(a, k) = v THEN a ELSE FlipBitAt(a, k)

\* bit vector (tuple of 0/1, LSB first) of the low n bits
BitsOf(a, n) == [i \in 1..n |-> GetBitAt(a, i - 1)] \o <<>>

RECURSIVE PopByte(_)
PopByte(b) == IF b = 0 THEN 0 ELSE (b % 2) + PopByte(b \div 2)
RECURSIVE PopFrom(_, _)
PopFrom(a, i) == IF i = 0 THEN 0 ELSE PopByte(a[i]) + PopFrom(a, i - 1)
PopCount(a) == PopFrom(a, Len(a))
=============================================================================
