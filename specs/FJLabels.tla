------------------------------ MODULE FJLabels ------------------------------
(***************************************************************************)
(* The debug label table and breakpoint resolution.                        *)
(* A table is a sequence of <<name, address>> with names as character-code *)
(* sequences (TLC cannot look inside strings) and addresses as integers.   *)
(* Breakpoints: explicit addresses, exact label names, and substrings -    *)
(* a substring selects EVERY label whose name contains it.                 *)
(***************************************************************************)
EXTENDS FJInt, TLC, FiniteSets, Json, IOUtils

IsSubstring(s, t) == \E i \in 1..(Len(t) - Len(s) + 1) : SubSeq(t, i, i + Len(s) - 1) = s

Resolve(table, addrs, exact, contains) ==
    {addrs[k] : k \in 1..Len(addrs)}
    \cup {table[k][2] : k \in {x \in 1..Len(table) : \E e \in 1..Len(exact) : exact[e] = table[x][1]}}
    \cup {table[k][2] : k \in {x \in 1..Len(table) : \E c \in 1..Len(contains) : IsSubstring(contains[c], table[x][1])}}

\* names are unique keys, and saving then loading keeps the table
NamesUnique(table) == \A i, j \in 1..Len(table) : i # j => table[i][1] # table[j][1]
SameTable(t1, t2) == {t1[k] : k \in 1..Len(t1)} = {t2[k] : k \in 1..Len(t2)}

\* ---- batch validation: records [table, reloaded, queries <<[addrs, exact, contains, got]>>] --------------
Tr == JsonDeserialize(IOEnv.TRACE_FILE)
VARIABLES tid
Init == tid \in 1..Len(Tr)
Next == FALSE /\ UNCHANGED tid
Spec == Init /\ [][Next]_tid

Verdict ==
    LET R == Tr[tid]
        badq == {q \in 1..Len(R.queries) :
                    LET Q == R.queries[q]
                    IN Resolve(R.table, Q.addrs, Q.exact, Q.contains) # {Q.got[k] : k \in 1..Len(Q.got)}}
        clauses == [ unique |-> NamesUnique(R.table), roundtrip |-> SameTable(R.table, R.reloaded), breakpoints |-> badq = {} ]
    IN PrintT("@@V" \o ToJson([tid |-> tid, fail |-> {c \in DOMAIN clauses : ~clauses[c]}, spec |-> [badqueries |-> badq]]))
=============================================================================
