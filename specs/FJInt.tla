------------------------------- MODULE FJInt -------------------------------
(***************************************************************************)
(* Unbounded integers for the constant-expression semantics.               *)
(*                                                                         *)
(* An integer is  [neg |-> BOOLEAN, mag |-> M]  where M is its magnitude   *)
(* as a little-endian byte tuple WITHOUT trailing zero bytes (so every     *)
(* integer has exactly one representation; zero is [FALSE, <<>>]).         *)
(* Semantics are those of mathematical integers: floor division and        *)
(* modulo, arithmetic shift right, bitwise operators on the infinite       *)
(* two's-complement representation.                                        *)
(***************************************************************************)
EXTENDS Naturals, Sequences, Bitwise

\* ---- magnitudes (naturals as byte tuples) ---------------------------------
RECURSIVE MNorm(_)
MNorm(m) == IF m = <<>> THEN <<>> ELSE IF m[Len(m)] = 0 THEN MNorm(SubSeq(m, 1, Len(m) - 1)) ELSE m

MB(m, i) == IF i >= 1 /\ i <= Len(m) THEN m[i] ELSE 0

RECURSIVE MLtFrom(_, _, _)
MLtFrom(a, b, i) == IF i = 0 THEN FALSE ELSE IF MB(a, i) # MB(b, i) THEN MB(a, i) < MB(b, i) ELSE MLtFrom(a, b, i - 1)
MLt(a, b) == IF Len(a) # Len(b) THEN Len(a) < Len(b) ELSE MLtFrom(a, b, Len(a))     \* normalized operands
MLe(a, b) == ~MLt(b, a)

Max(x, y) == IF x >= y THEN x ELSE y

RECURSIVE MAddRec(_, _, _, _, _)
MAddRec(a, b, i, c, acc) ==
    IF i > Max(Len(a), Len(b)) THEN (IF c = 0 THEN acc ELSE Append(acc, c))
    ELSE LET s == MB(a, i) + MB(b, i) + c IN MAddRec(a, b, i + 1, s \div 256, Append(acc, s % 256))
MAdd(a, b) == MAddRec(a, b, 1, 0, <<>>)

RECURSIVE MSubRec(_, _, _, _, _)
MSubRec(a, b, i, br, acc) ==
    IF i > Len(a) THEN MNorm(acc)
    ELSE LET d == MB(a, i) + 256 - MB(b, i) - br IN MSubRec(a, b, i + 1, IF d < 256 THEN 1 ELSE 0, Append(acc, d % 256))
MSub(a, b) == MSubRec(a, b, 1, 0, <<>>)          \* requires a >= b

RECURSIVE MMulSmallRec(_, _, _, _, _)
MMulSmallRec(a, d, i, c, acc) ==
    IF i > Len(a) THEN (IF c = 0 THEN acc ELSE Append(acc, c))
    ELSE LET p == a[i] * d + c IN MMulSmallRec(a, d, i + 1, p \div 256, Append(acc, p % 256))
MMulSmall(a, d) == IF d = 0 THEN <<>> ELSE MMulSmallRec(a, d, 1, 0, <<>>)

ZeroBytes(n) == [i \in 1..n |-> 0] \o <<>>
MShlBytes(a, n) == IF a = <<>> THEN <<>> ELSE ZeroBytes(n) \o a

RECURSIVE MMulRec(_, _, _, _)
MMulRec(a, b, i, acc) == IF i > Len(b) THEN acc ELSE MMulRec(a, b, i + 1, MAdd(acc, MShlBytes(MMulSmall(a, b[i]), i - 1)))
MMul(a, b) == MMulRec(a, b, 1, <<>>)

P2b == <<1, 2, 4, 8, 16, 32, 64, 128, 256>>
MBit(a, k) == (MB(a, (k \div 8) + 1) \div P2b[(k % 8) + 1]) % 2         \* bit k (0-based)
MDouble(a) == MMulSmall(a, 2)
MNumBits(a) == 8 * Len(a)

\* long division, one bit at a time from the top: returns <<q, r>>
RECURSIVE MDivRec(_, _, _, _, _)
MDivRec(a, b, k, q, r) ==
    IF k < 0 THEN <<MNorm(q), r>>
    ELSE LET r2 == LET d == MDouble(r) IN IF MBit(a, k) = 1 THEN MAdd(d, <<1>>) ELSE d
             ge == MLe(b, r2)
         IN MDivRec(a, b, k - 1,
                    IF ge THEN [q EXCEPT ![(k \div 8) + 1] = @ + P2b[(k % 8) + 1]] ELSE q,
                    IF ge THEN MSub(r2, b) ELSE r2)
MDivMod(a, b) == IF a = <<>> THEN <<<<>>, <<>>>> ELSE MDivRec(a, b, MNumBits(a) - 1, ZeroBytes(Len(a)), <<>>)   \* b # 0

MShl(a, k) == LET d == MMulSmall(a, P2b[(k % 8) + 1]) IN MShlBytes(d, k \div 8)
MShr(a, k) ==
    LET q == k \div 8  r == k % 8
        n == Len(a) - q
    IN IF n <= 0 THEN <<>>
       ELSE MNorm([i \in 1..n |-> (MB(a, i + q) \div P2b[r + 1]) + (MB(a, i + q + 1) % P2b[r + 1]) * P2b[9 - r]] \o <<>>)

RECURSIVE TopBitOfByte(_)
TopBitOfByte(b) == IF b = 0 THEN 0 ELSE 1 + TopBitOfByte(b \div 2)
MBitLen(a) == IF a = <<>> THEN 0 ELSE 8 * (Len(a) - 1) + TopBitOfByte(a[Len(a)])

\* small natural <-> magnitude
RECURSIVE MOfNat(_)
MOfNat(n) == IF n = 0 THEN <<>> ELSE <<n % 256>> \o MOfNat(n \div 256)
MToNat(a) == MB(a, 1) + 256 * MB(a, 2) + 65536 * MB(a, 3)          \* only for magnitudes below 2^24
MIsSmall(a) == Len(a) <= 3

\* ---- integers ----------------------------------------------------------------
Mk(neg, mag) == LET m == MNorm(mag) IN [neg |-> (neg /\ m # <<>>), mag |-> m]
IZero == [neg |-> FALSE, mag |-> <<>>]
IOne  == [neg |-> FALSE, mag |-> <<1>>]
IOfNat(n) == Mk(FALSE, MOfNat(n))
IBool(b) == IF b THEN IOne ELSE IZero
IIsZero(x) == x.mag = <<>>

INeg(x) == Mk(~x.neg, x.mag)
IAdd(x, y) ==
    IF x.neg = y.neg THEN Mk(x.neg, MAdd(x.mag, y.mag))
    ELSE IF MLe(y.mag, x.mag) THEN Mk(x.neg, MSub(x.mag, y.mag)) ELSE Mk(y.neg, MSub(y.mag, x.mag))
ISub(x, y) == IAdd(x, INeg(y))
IMul(x, y) == Mk(x.neg # y.neg, MMul(x.mag, y.mag))

ILt(x, y) == IF x.neg # y.neg THEN x.neg
             ELSE IF x.neg THEN MLt(y.mag, x.mag) ELSE MLt(x.mag, y.mag)
ILe(x, y) == ~ILt(y, x)

\* floor division and modulo (divisor non-zero): x = q*y + r with r having the sign of y
IFloorDiv(x, y) ==
    LET qr == MDivMod(x.mag, y.mag)
    IN IF x.neg = y.neg THEN Mk(FALSE, qr[1])
       ELSE IF qr[2] = <<>> THEN Mk(TRUE, qr[1]) ELSE Mk(TRUE, MAdd(qr[1], <<1>>))
IMod(x, y) == ISub(x, IMul(IFloorDiv(x, y), y))

\* x * 2^k, floor(x / 2^k)  for a natural k
IShl(x, k) == Mk(x.neg, MShl(x.mag, k))
IShr(x, k) == IF ~x.neg THEN Mk(FALSE, MShr(x.mag, k))
              ELSE \* floor for negatives: -ceil(|x| / 2^k)
                   LET q == MShr(x.mag, k)
                       exact == MShl(q, k) = x.mag
                   IN Mk(TRUE, IF exact THEN q ELSE MAdd(q, <<1>>))

RECURSIVE IPowRec(_, _, _)
IPowRec(x, n, acc) == IF n = 0 THEN acc ELSE IPowRec(x, n - 1, IMul(acc, x))
IPow(x, n) == IPowRec(x, n, IOne)                  \* natural n

IBitLen(x) == MBitLen(x.mag)

\* ---- bitwise operators on infinite two's complement ------------------------------
\* n-byte two's complement of x (n large enough: n > Len(mag))
ToTC(x, n) ==
    IF ~x.neg THEN [i \in 1..n |-> MB(x.mag, i)] \o <<>>
    ELSE \* 256^n - |x|
         LET full == ZeroBytes(n) \o <<1>>
             d == MSub(full, x.mag)
         IN [i \in 1..n |-> MB(d, i)] \o <<>>
FromTC(b) ==
    LET n == Len(b)
    IN IF b[n] < 128 THEN Mk(FALSE, b)
       ELSE Mk(TRUE, MSub(ZeroBytes(n) \o <<1>>, MNorm(b)))

BitOp(op, a, b) == CASE op = "&" -> a & b [] op = "|" -> a | b [] op = "^" -> a ^^ b
IBitwise(op, x, y) ==
    LET n == Max(Len(x.mag), Len(y.mag)) + 1
        a == ToTC(x, n)  b == ToTC(y, n)
    IN FromTC([i \in 1..n |-> BitOp(op, a[i], b[i])] \o <<>>)
INot(x) == ISub(INeg(x), IOne)                     \* ~x = -x - 1

\* little-endian byte tuple of a non-negative integer, exactly n bytes (truncating): for emission
ILowBytes(x, n) == ToTC(x, Max(n, Len(x.mag) + 1))
=============================================================================
