---------------------------- MODULE MC_FJMFormat ----------------------------
(* all bounded writer call sequences; round trip, version independence, torn prefixes *)
EXTENDS FJMFormat, Json, FiniteSets

CONSTANTS W, Versions, Chunks, Starts, Lens, DStarts, DLens, MaxSegs, EmitOn

VARIABLES wr, calls
vars == <<wr, calls>>

Init == /\ wr \in {[w |-> W, version |-> v, flags |-> N8(0), data |-> <<>>, segs |-> <<>>] : v \in Versions}
        /\ calls = <<>>

AddData(ch) ==
    /\ Len(calls) = 0
    /\ wr' = [wr EXCEPT !.data = @ \o [i \in 1..Len(ch) |-> BV(ch[i], WB(W))]]
    /\ calls' = Append(calls, [op |-> "data", words |-> ch])

AddSegment(s, l, ds, dl) ==
    /\ Len(calls) >= 1 /\ Len(calls) < 1 + MaxSegs        \* at most MaxSegs add_segment calls (accepted or refused)
    /\ LET seg == [s |-> s, l |-> l, ds |-> ds, dl |-> dl]
           ok == SegmentAcceptable(wr, seg)
       IN /\ wr' = IF ok THEN [wr EXCEPT !.segs = Append(@, seg)] ELSE wr
          /\ calls' = Append(calls, [op |-> "seg", s |-> s, l |-> l, ds |-> ds, dl |-> dl, ok |-> ok])

Next == \/ \E ch \in Chunks : AddData(ch)
        \/ \E s \in Starts, l \in Lens, ds \in DStarts, dl \in DLens : AddSegment(s, l, ds, dl)

Spec == Init /\ [][Next]_vars

----------------------------------------------------------------------------
Bytes == FileBytes(wr)
Full == Decode(Bytes)

\* writing then reading preserves the image (whatever the version)
RoundTrip == SameImage(Full, ExpectedSegs(wr), ExpectedWords(wr))
\* every strict prefix of a written file is rejected or decodes to exactly the same image
TornPrefixRejectedOrSame ==
    \A k \in 0..(Len(Bytes) - 1) :
        LET r == Decode(SubSeq(Bytes, 1, k)) IN ~r.ok \/ SameImage(r, Full.segs, Full.words)
\* the prefixes that still decode (to the same image): only cuts inside unreferenced trailing pool words, on a word boundary
AcceptedCuts == {k \in 0..(Len(Bytes) - 1) : Decode(SubSeq(Bytes, 1, k)).ok}

WordsList(f) == LET RECURSIVE L(_) L(S) == IF S = {} THEN <<>> ELSE LET a == CHOOSE x \in S : TRUE IN <<<<a, f[a]>>>> \o L(S \ {a}) IN L(DOMAIN f)

Emit == IF EmitOn /\ Len(calls) >= 1
        THEN PrintT("@@W" \o ToJson([w |-> W, version |-> wr.version, calls |-> calls, bytes |-> Bytes,
                                      segs |-> ExpectedSegs(wr), words |-> WordsList(ExpectedWords(wr)),
                                      cuts |-> AcceptedCuts]))
        ELSE TRUE
=============================================================================
