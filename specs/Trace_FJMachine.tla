--------------------------- MODULE Trace_FJMachine ---------------------------
(***************************************************************************)
(* Observation validation for FJMachine (batch mode).                     *)
(*                                                                         *)
(* TRACE_FILE holds a JSON array of records.  Each record describes one    *)
(* execution of a real engine:                                             *)
(*   w, segs [[start,len]...], data [[addr,word]...], inp [bits],          *)
(*   obs: cause, ops, fault, out, hist (or null), inused, mem [[addr,word]]*)
(* All numbers are little-endian byte lists.  TLC runs the specification   *)
(* on the same image and input, op by op (RunOp), and prints one verdict   *)
(* line per record: the set of observation clauses the record violates.    *)
(***************************************************************************)
EXTENDS FJMachine, Json, IOUtils

Tr == JsonDeserialize(IOEnv.TRACE_FILE)
N == Len(Tr)

VARIABLES tid, m
vars == <<tid, m>>

SegsOf(r) == [k \in 1..Len(r.segs) |->
                 [s |-> Ext(r.segs[k][1], AW), e |-> Add(Ext(r.segs[k][1], AW), Ext(r.segs[k][2], AW))]]
DataOf(r) == LET D == {Ext(r.data[k][1], AW) : k \in 1..Len(r.data)}
             IN [a \in D |-> (CHOOSE k \in 1..Len(r.data) : Ext(r.data[k][1], AW) = a) ]
DataMem(r) == LET idx == DataOf(r) IN [a \in DOMAIN idx |-> r.data[idx[a]][2]]

Init == /\ tid \in 1..N
        /\ m = MkMachine(Tr[tid].w, SegsOf(Tr[tid]), DataMem(Tr[tid]), Tr[tid].inp)

\* the spec may run at most as many ops as the engine reported (+1 for an aborted op)
Bound == Tr[tid].obs.ops + 1

Next == /\ Running(m) /\ m.ops <= Bound
        /\ m' = RunOp(m)
        /\ UNCHANGED tid

Spec == Init /\ [][Next]_vars

----------------------------------------------------------------------------
Obs == Tr[tid].obs

\* the last k elements of a sequence
LastK(s, k) == IF Len(s) <= k THEN s ELSE SubSeq(s, Len(s) - k + 1, Len(s))

Clauses ==
    [ cause  |-> m.status = Obs.cause,
      ops    |-> m.ops = Obs.ops,
      fault  |-> IF m.fault = <<>> THEN Obs.fault = <<>> ELSE Obs.fault = m.fault,
      out    |-> m.out = Obs.out,
      inused |-> Len(Tr[tid].inp) - Len(m.inp) = Obs.inused,
      hist   |-> IF ~Obs.hashist THEN TRUE
                 ELSE Obs.hist = LastK(m.hist, Obs.ringlen),
      mem    |-> \A k \in 1..Len(Obs.mem) : Word(m, Ext(Obs.mem[k][1], AW)) = Obs.mem[k][2],
      stats  |-> IF "hasstats" \in DOMAIN Obs /\ Obs.hasstats THEN Obs.flips = m.flips /\ Obs.jumps = m.jumps ELSE TRUE ]

Failing == {c \in DOMAIN Clauses : ~Clauses[c]}

Done == ~Running(m) \/ m.ops > Bound

Verdict ==
    IF Done
    THEN PrintT("@@V" \o ToJson([tid |-> tid,
                                  fail |-> IF Running(m) THEN {"spec-still-running"} ELSE Failing,
                                  spec |-> [cause |-> m.status, ops |-> m.ops, fault |-> m.fault,
                                            out |-> m.out, nhist |-> Len(m.hist),
                                            \* did the run execute an op that reaches beyond bit address 2^w (ip + 2w > 2^w)?
                                            topop |-> TopOp(m)]]))
    ELSE TRUE
=============================================================================
