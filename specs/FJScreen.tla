------------------------------ MODULE FJScreen ------------------------------
(***************************************************************************)
(* The screen device's command decoder (InMemoryScreen).                   *)
(*                                                                         *)
(* One action per received BYTE (the device assembles bytes from 8 output  *)
(* bits, least significant first - that part is FJDevices' packing).       *)
(* Documented command stream (multi-byte integers little-endian, addresses *)
(* AB = w/8 bytes wide):                                                   *)
(*   01 width:2 height:2 bpp:1 palette_size:2     init_screen              *)
(*   02 palette_address:AB                        set_palette              *)
(*   03 screen_address:AB                         update_screen  (frame)   *)
(*   04 x:2 y:2 rw:2 rh:2 screen_address:AB       update_rectangle (frame) *)
(*   05 width*height pixel bytes                  update_screen_raw (frame)*)
(* Memory layout: a "packed byte" per op, stride dw = 2w bits; pixel       *)
(* (px,py) at screen_address + (px + py*width)*dw masked to bpp bits;      *)
(* palette entry k = 3 packed bytes R,G,B at palette_address + 3k*dw.      *)
(* The program memory is abstracted as  MemByte(opIndex)  = the packed     *)
(* byte of the op at bit address opIndex*dw (0 where nothing is stored).   *)
(* Malformed streams are rejected with a device error (err = TRUE), after  *)
(* which the run is over.                                                  *)
(***************************************************************************)
EXTENDS Naturals, Sequences, FiniteSets, TLC, Json

CONSTANTS AB,          \* address bytes (w/8): 2, 4 or 8
          MemBytes,    \* packed bytes of ops 0,1,2,... (sequence of 0..255)
          Attached,    \* is the device attached to a memory?
          Streams,     \* set of byte strings to feed
          EmitOn

DW == 16 * AB   \* dw = 2w bits = 2 * 8 * AB

VARIABLES stream, pos,                 \* the chosen item string and how much of it was fed
          buf, width, height, bpp, palSize, palette, pixels, frames, err,
          mem                          \* the packed bytes of ops 0,1,2,... as they are NOW (the program may change them between commands)
vars == <<stream, pos, buf, width, height, bpp, palSize, palette, pixels, frames, err, mem>>

\* a stream item is a byte for the device (0..255) or a change of the program memory between two bytes:
\* 1000 + 256 * k + v  =  "the packed byte of op k becomes v"  (the device is not told)
IsPoke(x) == x >= 1000
PokeOp(x) == (x - 1000) \div 256
PokeVal(x) == (x - 1000) % 256

MemByte(k) == IF k + 1 <= Len(mem) THEN mem[k + 1] ELSE 0
WW == 8 * AB    \* the memory width w
FAR == 1000000  \* stands for any address at or above 2^16 (nothing is stored there in the model)
U16(p, o) == p[o] + 256 * p[o + 1]
\* an address field -> bit address (FAR if any byte above the second is non-zero)
AddrOf(p, o) == IF \E i \in 2..(AB - 1) : p[o + i] # 0 THEN FAR ELSE p[o] + 256 * p[o + 1]
\* the packed byte read at bit address a: bits #w..#w+7 of word (a div w) + 1.  The model's memory holds the
\* packed byte MemByte(k) in the jump word (word 2k+1) of op k and zero flip words.
PackedAt(a) == IF a >= FAR THEN 0
               ELSE LET wi == (a \div WW) + 1 IN IF wi % 2 = 1 THEN MemByte((wi - 1) \div 2) ELSE 0
Mask(v, bits) == IF bits = 4 THEN v % 16 ELSE v

CmdLen(c) ==
    CASE c = 1 -> 8
      [] c \in {2, 3} -> 1 + AB
      [] c = 4 -> 9 + AB
      [] c = 5 -> 1 + width * height
      [] OTHER -> 0        \* unknown command

\* does decoding the length of command c already fail?
LenFails(c) == \/ c \notin {1, 2, 3, 4, 5}
               \/ (c \in {2, 3, 4} /\ ~Attached)
               \/ (c = 5 /\ (width = 0 \/ height = 0))

Init ==
    /\ stream \in Streams /\ pos = 0
    /\ buf = <<>> /\ width = 0 /\ height = 0 /\ bpp = 8 /\ palSize = 0
    /\ palette = <<>> /\ pixels = <<>> /\ frames = 0 /\ err = FALSE
    /\ mem = MemBytes

Fail == /\ err' = TRUE /\ UNCHANGED <<width, height, bpp, palSize, palette, pixels, frames>>

ExecInit(p) ==
    LET w == U16(p, 1)  hh == U16(p, 3)  b == p[5]  ps == U16(p, 6)
    IN IF b \notin {4, 8} \/ w = 0 \/ hh = 0 THEN Fail
       ELSE /\ width' = w /\ height' = hh /\ bpp' = b /\ palSize' = ps
            /\ palette' = [k \in 1..ps |-> <<0, 0, 0>>]
            /\ pixels' = [k \in 1..(w * hh) |-> 0]
            /\ UNCHANGED <<frames, err>>

ExecSetPalette(p) ==
    LET a == AddrOf(p, 1)
    IN /\ palette' = [k \in 1..palSize |-> <<PackedAt(a + DW * (3 * (k - 1))), PackedAt(a + DW * (3 * (k - 1) + 1)), PackedAt(a + DW * (3 * (k - 1) + 2))>>]
       /\ UNCHANGED <<width, height, bpp, palSize, pixels, frames, err>>

ExecUpdate(p) ==
    IF width = 0 \/ height = 0 THEN Fail
    ELSE LET a == AddrOf(p, 1)
         IN /\ pixels' = [k \in 1..(width * height) |-> Mask(PackedAt(a + DW * (k - 1)), bpp)]
            /\ frames' = frames + 1
            /\ UNCHANGED <<width, height, bpp, palSize, palette, err>>

ExecRect(p) ==
    LET x == U16(p, 1)  y == U16(p, 3)  rw == U16(p, 5)  rh == U16(p, 7)  a == AddrOf(p, 9)
    IN IF width = 0 \/ height = 0 \/ x + rw > width \/ y + rh > height THEN Fail
       ELSE /\ pixels' = [k \in 1..(width * height) |->
                            LET px == (k - 1) % width  py == (k - 1) \div width
                            IN IF px >= x /\ px < x + rw /\ py >= y /\ py < y + rh
                               THEN Mask(PackedAt(a + DW * (k - 1)), bpp) ELSE pixels[k]]
            /\ frames' = frames + 1
            /\ UNCHANGED <<width, height, bpp, palSize, palette, err>>

ExecRaw(p) ==
    /\ pixels' = [k \in 1..(width * height) |-> Mask(p[k], bpp)]
    /\ frames' = frames + 1
    /\ UNCHANGED <<width, height, bpp, palSize, palette, err>>

Poke ==
    /\ ~err /\ pos < Len(stream) /\ IsPoke(stream[pos + 1])
    /\ pos' = pos + 1
    /\ mem' = [mem EXCEPT ![PokeOp(stream[pos + 1]) + 1] = PokeVal(stream[pos + 1])]
    /\ UNCHANGED <<stream, buf, width, height, bpp, palSize, palette, pixels, frames, err>>

Byte ==
    /\ ~err /\ pos < Len(stream) /\ ~IsPoke(stream[pos + 1])
    /\ pos' = pos + 1
    /\ UNCHANGED <<stream, mem>>
    /\ LET nb == Append(buf, stream[pos + 1])
           c  == nb[1]
       IN IF LenFails(c) THEN buf' = nb /\ Fail
          ELSE IF Len(nb) < CmdLen(c) THEN buf' = nb /\ UNCHANGED <<width, height, bpp, palSize, palette, pixels, frames, err>>
          ELSE /\ buf' = <<>>
               /\ LET p == Tail(nb)
                  IN CASE c = 1 -> ExecInit(p)
                       [] c = 2 -> ExecSetPalette(p)
                       [] c = 3 -> ExecUpdate(p)
                       [] c = 4 -> ExecRect(p)
                       [] c = 5 -> ExecRaw(p)

Spec == Init /\ [][Byte \/ Poke]_vars

----------------------------------------------------------------------------
\* the property
PixelsWellFormed == /\ Len(pixels) = width * height
                    /\ \A k \in 1..Len(pixels) : pixels[k] < (IF bpp = 4 THEN 16 ELSE 256)
PaletteWellFormed == Len(palette) = palSize
\* a frame is presented iff a complete update command was accepted
FrameOnlyOnUpdate ==
    [][ frames' # frames => /\ frames' = frames + 1 /\ ~err' /\ buf' = <<>>
                            /\ Append(buf, stream[pos + 1])[1] \in {3, 4, 5} ]_vars
ErrorIsFinal == [][ err => UNCHANGED vars ]_vars

Emit == IF EmitOn
        THEN PrintT("@@R" \o ToJson([stream |-> stream, fed |-> pos, err |-> err, width |-> width, height |-> height,
                                      bpp |-> bpp, palette |-> palette, pixels |-> pixels, frames |-> frames]))
        ELSE TRUE
=============================================================================
