----------------------------- MODULE FJMFormat -----------------------------
(***************************************************************************)
(* The .fjm file format: writer, file bytes, reader.                       *)
(*                                                                         *)
(* All table fields are 8-byte limb numbers (= their little-endian file    *)
(* encoding), words are (w/8)-byte limb numbers (= their file encoding),   *)
(* so a file is a concatenation of limb numbers:                           *)
(*   header   magic:2 (46 4A)  w:2  version:8  segment_count:8             *)
(*   ext      flags:8 reserved:4                      (versions >= 1)      *)
(*   table    start:8 length:8 data_start:8 data_length:8   per segment    *)
(*   payload  the word pool; version 3: Z(pool bytes), an opaque injective *)
(*            codec none of whose strict prefixes decodes (assumption      *)
(*            about raw LZMA2 streams, probed by the harness)              *)
(* Versions 2 and 3 store every odd data word i of a segment as            *)
(*   (v - (start + i) * w) mod 2^w   and forbid shared data ranges.        *)
(*                                                                         *)
(* Writer state: wr = [w, version, flags, data (seq of words),             *)
(*                      segs (seq of [s, l, ds, dl])]   with ds, dl small  *)
(* naturals (indices into the pool) and s, l 8-byte numbers.               *)
(***************************************************************************)
EXTENDS FJNum, TLC

N8(v) == BV(v, 8)
N8Val(b) == BVal(b)                       \* only for fields known to be small

WB(w) == w \div 8                         \* bytes per word
Flat(seqOfSeqs) == LET RECURSIVE F(_) F(i) == IF i > Len(seqOfSeqs) THEN <<>> ELSE seqOfSeqs[i] \o F(i + 1) IN F(1)

\* (start + i) * w  mod 2^w   as a word
RelBase(start, i, w) == Slice(Shl(AddSmall(Ext(start, 9), i), Log2(w)), 0, w)
ToRelative(v, start, i, w)   == Sub(v, RelBase(start, i, w))
FromRelative(v, start, i, w) == Add(v, RelBase(start, i, w))

----------------------------------------------------------------------------
\* Writer

\* [a, a+la) and [b, b+lb) intersect (9-byte arithmetic so that ends do not wrap)
RangesMeet(a, la, b, lb) ==
    LET a9 == Ext(a, 10) b9 == Ext(b, 10)
        ae == Add(a9, Ext(la, 10))  be == Add(b9, Ext(lb, 10))
    IN Lt(a9, be) /\ Lt(b9, ae)

IsEven(n) == n[1] % 2 = 0
IsZero(n) == \A i \in 1..Len(n) : n[i] = 0

\* what the format can hold (the writer must refuse everything else with its own error)
SegmentAcceptable(wr, seg0) ==
    LET seg == [seg0 EXCEPT !.s = Ext(@, 9), !.l = Ext(@, 9)]
    IN
    /\ IsBelowPow2(seg.s, 64) /\ IsBelowPow2(seg.l, 64)          \* table fields are 64-bit
    /\ ~IsZero(seg.l)
    /\ IsBelowPow2(Add(seg.s, seg.l), 64)                        \* the segment ends inside the 64-bit word-address space
    /\ Le(BV(seg.dl, 9), seg.l)                                  \* data fits in the segment
    /\ IsEven(seg.s) /\ IsEven(seg.l)
    /\ seg.dl % 2 = 0                                            \* whole ops (the reader requires it)
    /\ seg.ds + seg.dl <= Len(wr.data)                           \* data range inside the pool
    /\ \A k \in 1..Len(wr.segs) : ~RangesMeet(wr.segs[k].s, wr.segs[k].l, seg.s, seg.l)
    /\ (wr.version >= 2 /\ seg.dl > 0) =>
          \A k \in 1..Len(wr.segs) :
              wr.segs[k].dl = 0 \/ ~(seg.ds < wr.segs[k].ds + wr.segs[k].dl /\ wr.segs[k].ds < seg.ds + seg.dl)

\* the pool as it is stored: versions >= 2 re-base the odd words of every segment's data range
StoredPool(wr) ==
    IF wr.version < 2 THEN wr.data
    ELSE [p \in 1..Len(wr.data) |->
            LET owners == {k \in 1..Len(wr.segs) : wr.segs[k].ds < p /\ p <= wr.segs[k].ds + wr.segs[k].dl
                                                   /\ (p - 1 - wr.segs[k].ds) % 2 = 1}
            IN IF owners = {} THEN wr.data[p]
               ELSE LET k == CHOOSE x \in owners : TRUE
                    IN ToRelative(wr.data[p], wr.segs[k].s, p - 1 - wr.segs[k].ds, wr.w)]

Header(wr) == <<70, 74>> \o BV(wr.w, 2) \o N8(wr.version) \o N8(Len(wr.segs))
ExtHeader(wr) == IF wr.version = 0 THEN <<>> ELSE wr.flags \o <<0, 0, 0, 0>>
Table(wr) == Flat([k \in 1..Len(wr.segs) |-> wr.segs[k].s \o wr.segs[k].l \o N8(wr.segs[k].ds) \o N8(wr.segs[k].dl)])
PoolBytes(wr) == Flat(StoredPool(wr))

\* the bytes of a version 0-2 file; for version 3 the payload is Z(PoolBytes) (not representable here)
Prefix(wr) == Header(wr) \o ExtHeader(wr) \o Table(wr)
FileBytes(wr) == Prefix(wr) \o PoolBytes(wr)

\* the memory image the written file must load to: data, then zeros up to the segment length
\* (as a function over the DATA words only; all other in-segment words are 0, everything else invalid)
ExpectedWords(wr) ==
    LET Cells == UNION {{<<k, i>> : i \in 0..(wr.segs[k].dl - 1)} : k \in 1..Len(wr.segs)}
        AddrOf(c) == AddSmall(Ext(wr.segs[c[1]].s, 9), c[2])
    IN [a \in {AddrOf(c) : c \in Cells} |->
            LET c == CHOOSE x \in Cells : AddrOf(x) = a IN wr.data[wr.segs[c[1]].ds + c[2] + 1]]
ExpectedSegs(wr) == [k \in 1..Len(wr.segs) |-> <<wr.segs[k].s, wr.segs[k].l>>]

----------------------------------------------------------------------------
\* Reader: bytes -> [ok |-> FALSE]  or  [ok |-> TRUE, w, version, segs, words]
\* `pool` abstracts the payload decoding: the reader first obtains the pool bytes
\*   versions 0-2: the rest of the file;  version 3: Unz(rest) or failure.

Take(b, from, n) == SubSeq(b, from, from + n - 1)
Bad == [ok |-> FALSE]

ParseHead(b) ==
    IF Len(b) < 20 THEN Bad
    ELSE LET w == b[3] + 256 * b[4]
             verN == Take(b, 5, 8)
             cntN == Take(b, 13, 8)
         IN IF b[1] # 70 \/ b[2] # 74 THEN Bad
            ELSE IF ~IsBelowPow2(verN, 2) THEN Bad                      \* versions 0..3
            ELSE IF w \notin {8, 16, 32, 64} THEN Bad
            ELSE LET ver == verN[1]
                     hl  == IF ver = 0 THEN 20 ELSE 32
                 IN IF Len(b) < hl THEN Bad
                    ELSE IF ver > 0 /\ Take(b, 29, 4) # <<0, 0, 0, 0>> THEN Bad
                    ELSE IF ~IsBelowPow2(cntN, 20) THEN Bad             \* the table cannot fit in any file we model
                    ELSE LET cnt == BVal(cntN)
                         IN IF Len(b) < hl + 32 * cnt THEN Bad
                            ELSE [ok |-> TRUE, w |-> w, version |-> ver, count |-> cnt, tableAt |-> hl + 1,
                                  payloadAt |-> hl + 32 * cnt + 1]

\* decode with the pool bytes given (pool = the payload bytes after decompression)
DecodeWithPool(b, hd, pool) ==
    LET w == hd.w
        wb == WB(w)
        Seg(k) == LET o == hd.tableAt + 32 * (k - 1)
                  IN [s |-> Take(b, o, 8), l |-> Take(b, o + 8, 8), dsN |-> Take(b, o + 16, 8), dlN |-> Take(b, o + 24, 8)]
        nwords == Len(pool) \div wb
        SegOK(k) == LET sg == Seg(k)
                    IN /\ IsBelowPow2(sg.dsN, 24) /\ IsBelowPow2(sg.dlN, 24)
                       /\ BVal(sg.dlN) % 2 = 0
                       /\ BVal(sg.dsN) + BVal(sg.dlN) <= nwords
                       /\ Le(sg.dlN, sg.l)
                       /\ ~IsZero(sg.l)                                               \* the writer never produces an empty segment
                       /\ IsBelowPow2(Add(Ext(sg.s, 9), Ext(sg.l, 9)), 64)            \* ... nor one that ends beyond the word-address space
        \* the table is consistent with itself: no two (non-empty) segments claim the same memory word
        End9(k) == Add(Ext(Seg(k).s, 9), Ext(Seg(k).l, 9))
        NonEmpty(k) == Seg(k).l # Zeros(8)
        Apart(k1, k2) == Le(End9(k1), Ext(Seg(k2).s, 9)) \/ Le(End9(k2), Ext(Seg(k1).s, 9))
        Overlapping == \E k1, k2 \in 1..hd.count : k1 < k2 /\ NonEmpty(k1) /\ NonEmpty(k2) /\ ~Apart(k1, k2)
    IN IF Len(pool) % wb # 0 THEN Bad
       ELSE IF \E k \in 1..hd.count : ~SegOK(k) THEN Bad
       ELSE IF Overlapping THEN Bad
       ELSE LET Cells == UNION {{<<k, i>> : i \in 0..(BVal(Seg(k).dlN) - 1)} : k \in 1..hd.count}
                AddrOf(c) == AddSmall(Ext(Seg(c[1]).s, 9), c[2])
                Raw(c) == Take(pool, (BVal(Seg(c[1]).dsN) + c[2]) * wb + 1, wb)
                Val(c) == IF hd.version >= 2 /\ c[2] % 2 = 1 THEN FromRelative(Raw(c), Seg(c[1]).s, c[2], w) ELSE Raw(c)
                \* later table entries overwrite earlier ones on the same address
                Winner(a) == CHOOSE c \in Cells : AddrOf(c) = a /\ \A c2 \in Cells : AddrOf(c2) = a => c2[1] <= c[1]
            IN [ok |-> TRUE, w |-> w, version |-> hd.version,
                segs |-> [k \in 1..hd.count |-> <<Seg(k).s, Seg(k).l>>],
                words |-> [a \in {AddrOf(c) : c \in Cells} |-> Val(Winner(a))]]

\* versions 0-2 completely; version 3 needs the harness-supplied decompression result
Decode(b) ==
    LET hd == ParseHead(b)
    IN IF ~hd.ok THEN Bad
       ELSE IF hd.version = 3 THEN Bad    \* use DecodeV3 with the decompressed pool
       ELSE DecodeWithPool(b, hd, SubSeq(b, hd.payloadAt, Len(b)))

\* version 3: unz = <<>> means "the payload does not decompress"; otherwise <<poolbytes>>
DecodeV3(b, unz) ==
    LET hd == ParseHead(b)
    IN IF ~hd.ok THEN Bad
       ELSE IF unz = <<>> THEN Bad
       ELSE DecodeWithPool(b, hd, unz[1])

SameImage(r, segs, words) == r.ok /\ r.segs = segs /\ r.words = words
=============================================================================
