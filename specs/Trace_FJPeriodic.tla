--------------------------- MODULE Trace_FJPeriodic ---------------------------
(***************************************************************************)
(* Real interrupts (C18, part C).  A non-terminating program whose machine *)
(* state (ip, memory) recurs is interrupted by a signal at an arbitrary    *)
(* moment; the run reports K executed ops.  K is not predictable, so the   *)
(* specification accepts ANY K - and prescribes everything else from it:   *)
(* the state after K ops of FJMachine, found by stepping the machine       *)
(* through its prefix and one period and reducing K into that window.      *)
(*                                                                         *)
(* record: w, segs, data, maxsteps, ring (last-ops length asked for),      *)
(*   obs: [ops (< 2^31), mem <<addr, word>>..., hashist, hist, nout,       *)
(*         tail (the last <= 16 output bits)]                              *)
(* verdict: class                                                          *)
(*   "consistent"  the observation is the state after K ops (the op K+1    *)
(*                 may already be recorded in the last-ops list, as at a   *)
(*                 device failure)                                         *)
(*   "mid-op"      every observed component is that of SOME sub-step of    *)
(*                 op K+1, but they do not fit the state after K ops: the  *)
(*                 run was cut inside an op                                *)
(*   "reject"      neither; `fail` names the components that do not fit    *)
(*   "no-period"   no recurrence within maxsteps (the harness drops it)    *)
(***************************************************************************)
EXTENDS FJMachineFaults, Json, IOUtils, Integers

Tr == JsonDeserialize(IOEnv.TRACE_FILE)
N == Len(Tr)

VARIABLES tid
Init == tid \in 1..N
Next == FALSE /\ UNCHANGED tid
Spec == Init /\ [][Next]_tid

SegsOf(r) == [k \in 1..Len(r.segs) |->
                 [s |-> Ext(r.segs[k][1], AW), e |-> Add(Ext(r.segs[k][1], AW), Ext(r.segs[k][2], AW))]]
DataMem(r) == LET D == {Ext(r.data[k][1], AW) : k \in 1..Len(r.data)}
              IN [a \in D |-> r.data[CHOOSE k \in 1..Len(r.data) : Ext(r.data[k][1], AW) = a][2]]

Strip(m) == [m EXCEPT !.hist = <<>>, !.out = <<>>]

\* states[i + 1] = the machine after i ops (history and output stripped);  steps[i] = what op i did
RECURSIVE Run(_, _, _)
Run(m, n, acc) ==
    IF n = 0 \/ ~Running(m) THEN acc
    ELSE LET m1 == RunOp(Strip(m))
         IN Run(m1, n - 1, Append(acc, [m |-> Strip(m1), ip |-> m.ip, out |-> m1.out]))

\* memory as the harness sees it: all words it listed
SameMem(m1, m2, addrs) == \A a \in addrs : Word(m1, a) = Word(m2, a)

LastK(q, k) == IF Len(q) <= k THEN q ELSE SubSeq(q, Len(q) - k + 1, Len(q))

Verdict ==
    LET R == Tr[tid]
        O == R.obs
        K == O.ops
        m0 == Strip(MkMachine(R.w, SegsOf(R), DataMem(R), <<>>))
        steps == Run(m0, R.maxsteps, <<>>)
        M == Len(steps)
        St(i) == IF i = 0 THEN m0 ELSE steps[i].m          \* after i ops, 0 <= i <= M
        addrs == {Ext(O.mem[k][1], AW) : k \in 1..Len(O.mem)} \cup DOMAIN St(M).mem
        Same(i, j) == St(i).ip = St(j).ip /\ SameMem(St(i), St(j), addrs)
        RECURSIVE FindJ(_)
        FindJ(x) == IF x > M THEN 0 ELSE IF \E y \in 0..(x - 1) : Same(y, x) THEN x ELSE FindJ(x + 1)
        jj == FindJ(1)
        alive == M = R.maxsteps /\ Running(St(M))
    IN IF ~alive \/ jj = 0
       THEN PrintT("@@V" \o ToJson([tid |-> tid, class |-> "no-period", fail |-> {}, spec |-> [halted |-> ~alive]]))
       ELSE
       LET j == jj
           i == CHOOSE y \in 0..(j - 1) : Same(y, j)
           P == j - i
           Red(t) == IF t < j THEN t ELSE i + ((t - i) % P)        \* index of the state after t ops
           OpIx(t) == Red(t - 1) + 1                                 \* op t (t >= 1) is steps[OpIx(t)]
           OpIp(t) == steps[OpIx(t)].ip
           OpOut(t) == steps[OpIx(t)].out
           \* number of output bits of ops 1..t
           RECURSIVE Cnt(_, _)
           Cnt(a, b) == IF a > b THEN 0 ELSE Len(steps[a].out) + Cnt(a + 1, b)       \* over step indices a..b
           perPeriod == Cnt(i + 1, j)
           NOut(t) == IF t <= j THEN Cnt(1, t)
                      ELSE Cnt(1, i) + ((t - i) \div P) * perPeriod + Cnt(i + 1, i + ((t - i) % P))
           \* the last <= 16 output bits of ops 1..t (walking back at most 17 periods)
           RECURSIVE OutTail(_, _, _)
           OutTail(t, need, budget) == IF t = 0 \/ need = 0 \/ budget = 0 THEN <<>>
                                       ELSE IF OpOut(t) = <<>> THEN OutTail(t - 1, need, budget - 1)
                                       ELSE OutTail(t - 1, need - 1, budget - 1) \o OpOut(t)
           \* (no output in the period: the last outputs are those of the prefix, however long ago)
           ExpTail(t) == IF perPeriod = 0 THEN OutTail(IF t < j THEN t ELSE j, 16, j + 1) ELSE OutTail(t, 16, 17 * P + j + 1)
           HistUpTo(t) == [q \in 1..(IF t < R.ring THEN t ELSE R.ring) |-> OpIp(t - (IF t < R.ring THEN t ELSE R.ring) + q)] \o <<>>
           \* the sub-step states of op K+1:  q[x + 1] = after x sub-steps (x = 0..6), on the state after K ops
           mK == St(Red(K))
           RECURSIVE Subs(_, _)
           Subs(m, n) == IF n = 0 THEN <<m>> ELSE <<m>> \o Subs(IF Running(m) THEN SubStep(m) ELSE m, n - 1)
           qs == Subs(mK, 6)
           MemOK(m) == \A k \in 1..Len(O.mem) : Word(m, Ext(O.mem[k][1], AW)) = O.mem[k][2]
           memAt == {x \in 1..7 : MemOK(qs[x])}
           histK == HistUpTo(K)
           histK1 == HistUpTo(K + 1)
           histOK0 == ~O.hashist \/ O.hist = histK
           histOK1 == ~O.hashist \/ O.hist = histK1
           outOK0 == O.nout = NOut(K) /\ O.tail = ExpTail(K)
           outOK1 == O.nout = NOut(K + 1) /\ O.tail = ExpTail(K + 1)
           consistent == MemOK(qs[1]) /\ outOK0 /\ (histOK0 \/ histOK1)
           midop == memAt # {} /\ (outOK0 \/ outOK1) /\ (histOK0 \/ histOK1)
           fail == (IF MemOK(qs[1]) THEN {} ELSE {"mem"}) \cup (IF outOK0 THEN {} ELSE {"out"})
                   \cup (IF histOK0 \/ histOK1 THEN {} ELSE {"hist"})
       IN PrintT("@@V" \o ToJson([tid |-> tid,
                                   class |-> IF consistent THEN "consistent" ELSE IF midop THEN "mid-op" ELSE "reject",
                                   fail |-> fail,
                                   spec |-> [prefix |-> i, period |-> P, reduced |-> Red(K), nout |-> NOut(K),
                                             memAt |-> memAt, nhist |-> Len(histK)]]))
=============================================================================
