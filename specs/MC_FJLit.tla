------------------------------ MODULE MC_FJLit ------------------------------
(* character / string literals: every given code sequence with its value, and the escape table *)
EXTENDS FJExpr, Json
CONSTANTS Strings
VARIABLES sidx
Init == sidx \in 1..Len(Strings)
Next == FALSE /\ UNCHANGED sidx
Spec == Init /\ [][Next]_sidx
IntJ(x) == [neg |-> x.neg, mag |-> x.mag]
\* two string literals in one expression (and so on one source line): the sum of this string and the next one
Nxt == (sidx % Len(Strings)) + 1
Pair == Apply("+", <<StringValue(Strings[sidx]), StringValue(Strings[Nxt])>>)
Emit == PrintT("@@L" \o ToJson([codes |-> Strings[sidx], v |-> IntJ(StringValue(Strings[sidx])),
                                 codes2 |-> Strings[Nxt], pair |-> IntJ(Pair.v),
                                 escapes |-> EscapeTable]))
=============================================================================
