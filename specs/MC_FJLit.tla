------------------------------ MODULE MC_FJLit ------------------------------
(* character / string literals: every given code sequence with its value, and the escape table *)
EXTENDS FJExpr, Json
CONSTANTS Strings
VARIABLES sidx
Init == sidx \in 1..Len(Strings)
Next == FALSE /\ UNCHANGED sidx
Spec == Init /\ [][Next]_sidx
IntJ(x) == [neg |-> x.neg, mag |-> x.mag]
Emit == PrintT("@@L" \o ToJson([codes |-> Strings[sidx], v |-> IntJ(StringValue(Strings[sidx])),
                                 escapes |-> EscapeTable]))
=============================================================================
