---------------------------- MODULE FJMachineDev ----------------------------
(***************************************************************************)
(* FJMachine + a device that accesses the program memory from inside its   *)
(* IO callbacks (IODevice.attach_memory -> DeviceMemory).                  *)
(*                                                                         *)
(* State  s = [m, ncalls, vals, shadow]:                                   *)
(*   m        the machine                                                  *)
(*   ncalls   IO callbacks made so far                                     *)
(*   vals     values returned by the device's reads, in order              *)
(*   shadow   device-private words outside every segment (0 until written) *)
(* script[k] is the sequence of accesses the device performs during its    *)
(* k-th callback, BEFORE the callback's own effect:                        *)
(*   [op |-> "rw", a]      read the word at word address a                 *)
(*   [op |-> "ww", a, v]   write it                                        *)
(*   [op |-> "rb", a]      read the packed data byte of the op at bit      *)
(*                         address a (bits #w..#w+7 of its jump word)      *)
(*   [op |-> "wb", a, v]   write it                                        *)
(* The device sees the program's words inside segments and its own shadow  *)
(* outside; its writes inside segments are the program's memory.           *)
(***************************************************************************)
EXTENDS FJMachine

DevWord(s, wa) == IF InSeg(s.m, wa) THEN Word(s.m, wa)
                  ELSE IF wa \in DOMAIN s.shadow THEN s.shadow[wa] ELSE Zeros(s.m.w \div 8)

DevSetWord(s, wa, v) ==
    IF InSeg(s.m, wa) THEN [s EXCEPT !.m.mem = (wa :> v) @@ @]
    ELSE [s EXCEPT !.shadow = (wa :> v) @@ @]

JumpWordOf(b, w) == AddPow2(WordAddr(b, w), 0)

RECURSIVE SetBits(_, _, _, _)
\* copy the low n bits of src into word at bit positions lo..lo+n-1
SetBits(word, lo, src, n) ==
    IF n = 0 THEN word
    ELSE SetBits(SetBitAt(word, lo + n - 1, GetBitAt(src, n - 1)), lo, src, n - 1)

DoAccess(s, acc) ==
    LET w == s.m.w
        a == Ext(acc.a, AW)
    IN CASE acc.op = "rw" -> [s EXCEPT !.vals = Append(@, DevWord(s, a))]
         [] acc.op = "ww" -> DevSetWord(s, a, Ext(acc.v, w \div 8))
         [] acc.op = "rb" -> [s EXCEPT !.vals = Append(@, Ext(Slice(DevWord(s, JumpWordOf(a, w)), BitLen(w), 8), w \div 8))]
         [] acc.op = "wb" -> LET ja == JumpWordOf(a, w)
                             IN DevSetWord(s, ja, SetBits(DevWord(s, ja), BitLen(w), acc.v, 8))

RECURSIVE DoAccesses(_, _, _)
DoAccesses(s, accs, i) == IF i > Len(accs) THEN s ELSE DoAccesses(DoAccess(s, accs[i]), accs, i + 1)

IsIOCall(m) == (m.phase = "out" /\ IsOutputFlip(m)) \/ (m.phase = "in" /\ CoversInput(m))

DStep(s, script) ==
    IF IsIOCall(s.m)
    THEN LET k  == s.ncalls + 1
             s1 == IF k <= Len(script) THEN DoAccesses(s, script[k], 1) ELSE s
         IN [s1 EXCEPT !.ncalls = k, !.m = SubStep(s1.m)]
    ELSE [s EXCEPT !.m = SubStep(s.m)]

DInit(m) == [m |-> m, ncalls |-> 0, vals |-> <<>>, shadow |-> <<>>]
=============================================================================
