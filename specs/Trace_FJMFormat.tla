--------------------------- MODULE Trace_FJMFormat ---------------------------
(***************************************************************************)
(* Observation validation for FJMFormat (batch mode).  Two record kinds:   *)
(*  kind "write": a writer call sequence performed on the real Writer      *)
(*     w, version, calls [[op:"data", words] | [op:"seg", s,l,ds,dl]],     *)
(*     numbers are [neg, mag] (mag = 9-byte magnitude; data words too) so  *)
(*     that out-of-range arguments can be expressed;                       *)
(*     obs: steps (per call "ok" / "werr" / "other..."), final (the same   *)
(*          for write_to_file), bytes (versions 0-2),                      *)
(*          rok, rsegs, rwords (what the real Reader loaded)               *)
(*  kind "read": an arbitrary byte string given to the real Reader         *)
(*     bytes, unz (version 3: <<>> or <<pool bytes>>), obs: rok            *)
(***************************************************************************)
EXTENDS FJMFormat, Json, IOUtils, FiniteSets

Tr == JsonDeserialize(IOEnv.TRACE_FILE)
N == Len(Tr)
VARIABLES tid, wr, pos, acc, oob
vars == <<tid, wr, pos, acc, oob>>

R == Tr[tid]

Init == /\ tid \in 1..N
        /\ wr = IF Tr[tid].kind = "write"
                THEN [w |-> Tr[tid].w, version |-> Tr[tid].version, flags |-> N8(0), data |-> <<>>, segs |-> <<>>]
                ELSE [w |-> 8, version |-> 0, flags |-> N8(0), data |-> <<>>, segs |-> <<>>]
        /\ pos = 0 /\ acc = <<>> /\ oob = FALSE

\* replay one writer call
Next == /\ R.kind = "write" /\ pos < Len(R.calls)
        /\ pos' = pos + 1
        /\ LET c == R.calls[pos + 1]
           IN IF c.op = "data"
              THEN /\ wr' = [wr EXCEPT !.data = @ \o [i \in 1..Len(c.words) |-> Ext(c.words[i].mag, WB(wr.w))]]
                   /\ acc' = Append(acc, "ok")
                   /\ oob' = (oob \/ \E i \in 1..Len(c.words) : c.words[i].neg \/ ~IsBelowPow2(c.words[i].mag, wr.w))
              ELSE LET small == /\ ~c.s.neg /\ ~c.l.neg /\ ~c.ds.neg /\ ~c.dl.neg
                                /\ IsBelowPow2(c.ds.mag, 24) /\ IsBelowPow2(c.dl.mag, 24)
                       seg == [s |-> c.s.mag, l |-> c.l.mag, ds |-> BVal(c.ds.mag), dl |-> BVal(c.dl.mag)]
                       ok == small /\ SegmentAcceptable(wr, seg)
                   IN /\ wr' = IF ok THEN [wr EXCEPT !.segs = Append(@, [seg EXCEPT !.s = Ext(@, 8), !.l = Ext(@, 8)])] ELSE wr
                      /\ acc' = Append(acc, IF ok THEN "ok" ELSE "werr")
                      /\ oob' = oob
        /\ UNCHANGED tid
Spec == Init /\ [][Next]_vars

Done == R.kind = "read" \/ pos = Len(R.calls)

InSomeSeg(a) == \E k \in 1..Len(wr.segs) :
                    /\ Le(Ext(wr.segs[k].s, 9), a)
                    /\ Lt(a, Add(Ext(wr.segs[k].s, 9), Ext(wr.segs[k].l, 9)))
\* lst: every word the reader holds or returned for a probe ([addr, value]); probes outside: [addr, "invalid"]
WordsOK(f, lst) ==
    /\ \A a \in DOMAIN f : \E k \in 1..Len(lst) : Ext(lst[k][1], 9) = a
    /\ \A k \in 1..Len(lst) :
          LET a == Ext(lst[k][1], 9)
          IN IF a \in DOMAIN f THEN lst[k][2] = f[a]
             ELSE IF InSomeSeg(a) THEN lst[k][2] = Zeros(WB(wr.w))
             ELSE lst[k][2] = <<>>          \* <<>> = the reader reports the address as invalid

\* with an out-of-range data word somewhere the sequence must be refused with the write error at SOME call
\* (add_data, add_segment or write_to_file), never with a raw exception; otherwise every call is judged
WriteClauses ==
    LET ew == ExpectedWords(wr)
        st == R.obs.steps
    IN IF oob
       THEN [ refused  |-> (\E k \in 1..Len(st) : st[k] = "werr") \/ R.obs.final = "werr",
              noraw    |-> (\A k \in 1..Len(st) : st[k] \in {"ok", "werr"}) /\ R.obs.final \in {"ok", "werr", "none"} ]
       ELSE [ steps    |-> st = acc,
              final    |-> R.obs.final = "ok",
              bytes    |-> IF R.version <= 2 /\ R.obs.final = "ok" THEN R.obs.bytes = FileBytes(wr) ELSE TRUE,
              readback |-> IF R.obs.final = "ok" THEN R.obs.rok ELSE TRUE,
              segs     |-> IF R.obs.final = "ok" /\ R.obs.rok THEN R.obs.rsegs = ExpectedSegs(wr) ELSE TRUE,
              words    |-> IF R.obs.final = "ok" /\ R.obs.rok THEN WordsOK(ew, R.obs.rwords) ELSE TRUE ]

ReadResult == LET hd == ParseHead(R.bytes)
              IN IF hd.ok /\ hd.version = 3 THEN DecodeV3(R.bytes, R.unz) ELSE Decode(R.bytes)
ReadClauses == [ outcome |-> R.obs.rok = ReadResult.ok ]

Failing == IF R.kind = "write" THEN {c \in DOMAIN WriteClauses : ~WriteClauses[c]}
           ELSE {c \in DOMAIN ReadClauses : ~ReadClauses[c]}

Verdict ==
    IF Done
    THEN PrintT("@@V" \o ToJson([tid |-> tid, fail |-> Failing,
                                  spec |-> IF R.kind = "write" THEN [steps |-> acc, nsegs |-> Len(wr.segs), oob |-> oob]
                                           ELSE [ok |-> ReadResult.ok]]))
    ELSE TRUE
=============================================================================
