------------------------------ MODULE FJMacro ------------------------------
(***************************************************************************)
(* Macros, namespaces and rep as HYGIENIC INLINING.                        *)
(*                                                                         *)
(* Source program:  [defs |-> <<def...>>, main |-> <<stmt...>>]            *)
(*   def  = [ns |-> <<components>>, name, params, locals, body]            *)
(*   stmt = [k |-> "op", f, j] | [k |-> "wflip", a, v, r]                  *)
(*        | [k |-> "label", n]                                             *)
(*        | [k |-> "call", sid, m |-> <<name components>>, dots, args]     *)
(*        | [k |-> "rep",  sid, cnt, it, m, dots, args]                    *)
(*   expression E = [b |-> "num" | "cur" | "id", n, dots, m, o]            *)
(*        meaning  o,   $ + o,   m * id + o                                *)
(* Inline(prog) is the reference semantics: every call replaced by the     *)
(* callee's body with the (already closed) arguments substituted in ONE    *)
(* pass, every expansion's local labels renamed apart by its expansion     *)
(* path, every rep(n, i) unrolled for i = 0..n-1.  Its result is a program *)
(* of the primitive language (FJAsm) over globally unique label names.     *)
(* Environments map identifiers to CLOSED expressions (b in num/lbl/cur),  *)
(* so a substituted argument is never scanned again: names cannot capture. *)
(***************************************************************************)
EXTENDS FJInt, TLC, FiniteSets

RECURSIVE JoinDots(_)
JoinDots(c) == IF Len(c) = 0 THEN "" ELSE IF Len(c) = 1 THEN c[1] ELSE c[1] \o "." \o JoinDots(Tail(c))

\* name resolution: dots = 0: as written; dots = d >= 1: relative to the enclosing namespace, d-1 levels up
FullName(ctx, dots, comps) ==
    IF dots = 0 THEN comps ELSE SubSeq(ctx, 1, Len(ctx) - (dots - 1)) \o comps

DefName(d) == d.ns \o <<d.name>>

Num(v) == [b |-> "num", n |-> "", m |-> IOne, o |-> v]
Lbl(name) == [b |-> "lbl", n |-> name, m |-> IOne, o |-> IZero]

\* m * inner + o   for a closed inner expression
Compose(inner, m, o) ==
    CASE inner.b = "num" -> Num(IAdd(IMul(m, inner.o), o))
      [] inner.b = "lbl" -> [inner EXCEPT !.m = IMul(m, @), !.o = IAdd(IMul(m, @), o)]
      [] inner.b = "cur" -> [inner EXCEPT !.o = IAdd(@, o)]          \* $ is only used with multiplier 1

\* close an expression: identifiers bound in env are replaced (one pass), the others are global labels
Subst(e, env, ctx) ==
    CASE e.b = "num" -> Num(e.o)
      [] e.b = "cur" -> [b |-> "cur", n |-> "", m |-> IOne, o |-> e.o]
      [] e.b = "id" ->
            IF e.dots = 0 /\ e.n \in DOMAIN env THEN Compose(env[e.n], e.m, e.o)
            ELSE [b |-> "lbl", n |-> JoinDots(FullName(ctx, e.dots, <<e.n>>)), m |-> e.m, o |-> e.o]

PathString(path) == LET RECURSIVE P(_) P(i) == IF i > Len(path) THEN "" ELSE "_" \o path[i] \o P(i + 1) IN P(1)
LocalName(path, loc) == "L" \o PathString(path) \o "__" \o loc

Lookup(defs, full, arity) ==
    LET hits == {k \in 1..Len(defs) : DefName(defs[k]) = full /\ Len(defs[k].params) = arity}
    IN IF hits = {} THEN 0 ELSE CHOOSE k \in hits : TRUE

EnvFor(d, args, path) ==
    [x \in ({d.params[k] : k \in 1..Len(d.params)} \cup {d.locals[k] : k \in 1..Len(d.locals)}) |->
        IF \E k \in 1..Len(d.params) : d.params[k] = x
        THEN args[CHOOSE k \in 1..Len(d.params) : d.params[k] = x]
        ELSE Lbl(LocalName(path, x))]

RECURSIVE Expand(_, _, _, _, _, _, _)
RECURSIVE ExpandRep(_, _, _, _, _, _, _, _)

\* expand the statements stmts[i..] of a body whose namespace is ctx, under env, at expansion path `path`
Expand(defs, stmts, i, env, ctx, path, fuel) ==
    IF i > Len(stmts) THEN <<>>
    ELSE LET s == stmts[i]
             rest == Expand(defs, stmts, i + 1, env, ctx, path, fuel)
         IN CASE s.k = "op" -> <<[k |-> "op", f |-> Subst(s.f, env, ctx), j |-> Subst(s.j, env, ctx)]>> \o rest
              [] s.k = "wflip" -> <<[k |-> "wflip", a |-> Subst(s.a, env, ctx), v |-> Subst(s.v, env, ctx),
                                     r |-> Subst(s.r, env, ctx)]>> \o rest
              [] s.k = "label" ->
                    <<[k |-> "label",
                       n |-> IF s.n \in DOMAIN env /\ env[s.n].b = "lbl" THEN env[s.n].n ELSE JoinDots(ctx \o <<s.n>>),
                       loc |-> s.n \in DOMAIN env /\ env[s.n].b = "lbl"]>> \o rest        \* loc: a local label of an expansion
              [] s.k = "call" ->
                    LET args == [k \in 1..Len(s.args) |-> Subst(s.args[k], env, ctx)]
                        d == Lookup(defs, FullName(ctx, s.dots, s.m), Len(args))
                        path2 == Append(path, s.sid)
                    IN IF d = 0 \/ fuel = 0 THEN <<[k |-> "error"]>> \o rest
                       ELSE Expand(defs, defs[d].body, 1, EnvFor(defs[d], args, path2), defs[d].ns, path2, fuel - 1) \o rest
              [] s.k = "rep" ->
                    LET cnt == Subst(s.cnt, env, ctx)
                    IN IF cnt.b # "num" \/ cnt.o.neg \/ ~MIsSmall(cnt.o.mag) \/ fuel = 0 THEN <<[k |-> "error"]>> \o rest
                       ELSE ExpandRep(defs, s, 0, MToNat(cnt.o.mag), env, ctx, path, fuel) \o rest

ExpandRep(defs, s, idx, cnt, env, ctx, path, fuel) ==
    IF idx >= cnt THEN <<>>
    ELSE LET envI == (s.it :> Num(IOfNat(idx))) @@ env          \* the iterator is visible in the rep's own arguments only
             args == [k \in 1..Len(s.args) |-> Subst(s.args[k], envI, ctx)]
             d == Lookup(defs, FullName(ctx, s.dots, s.m), Len(args))
             path2 == Append(path, s.sid \o "r" \o ToString(idx))
         IN IF d = 0 THEN <<[k |-> "error"]>>
            ELSE Expand(defs, defs[d].body, 1, EnvFor(defs[d], args, path2), defs[d].ns, path2, fuel - 1)
                 \o ExpandRep(defs, s, idx + 1, cnt, env, ctx, path, fuel)

Inline(prog) == Expand(prog.defs, prog.main, 1, <<>>, <<>>, <<>>, 12)

\* a rep whose iterator is spelled like one of the program's constants (prog.consts): inside the rep's own arguments the name
\* means the iterator; a program that has such a clash may be refused, it may not be assembled with the constant's value
RepIters(stmts) == {stmts[i].it : i \in {j \in 1..Len(stmts) : stmts[j].k = "rep"}}
IterConstClash(prog) ==
    LET consts == {prog.consts[i] : i \in 1..Len(prog.consts)}
        iters == RepIters(prog.main) \cup UNION {RepIters(prog.defs[d].body) : d \in 1..Len(prog.defs)}
    IN consts \cap iters # {}

WellFormed(inl) == \A k \in 1..Len(inl) : inl[k].k # "error"
\* every expansion's local labels are renamed apart
LabelDefs(inl) == {k \in 1..Len(inl) : inl[k].k = "label"}
\* (a label a macro body does not declare local is ONE global label: expanding that macro twice is the program's own
\* duplicate-label error, in the macro program and in its inlining alike - GlobalNamesUnique tells)
LocalNamesUnique(inl) == \A k1, k2 \in LabelDefs(inl) : (k1 # k2 /\ inl[k1].loc) => inl[k1].n # inl[k2].n
GlobalNamesUnique(inl) == \A k1, k2 \in LabelDefs(inl) : (k1 # k2 /\ ~inl[k1].loc /\ ~inl[k2].loc) => inl[k1].n # inl[k2].n
=============================================================================
