------------------------------- MODULE FJExpr -------------------------------
(***************************************************************************)
(* Constant expressions of the .fj language.                               *)
(*                                                                         *)
(* A tree is  [k |-> "lit", v |-> Int]                                     *)
(*         or [k |-> "id",  n |-> name, tag |-> "const"|"param"|"label"]   *)
(*         or [k |-> "op",  op |-> string, a |-> <<subtrees>>]             *)
(* Eval is strict unbounded-integer arithmetic (FJInt); errors: division   *)
(* or modulo by zero, negative shift count, negative exponent.             *)
(* The three evaluation stages of the assembler (constants at parse time,  *)
(* macro parameters at expansion, labels at the end - each substituting    *)
(* its identifiers and folding every all-literal node) are Staged; the     *)
(* "value does not depend on when" clause is  Staged(e) = Eval(e).         *)
(* Render writes a tree with the FEWEST parentheses the precedence /       *)
(* associativity table allows - the real parser must read that text back   *)
(* as the same tree.                                                       *)
(***************************************************************************)
EXTENDS FJInt, TLC

Lit(v) == [k |-> "lit", v |-> v]
Id(n, tag) == [k |-> "id", n |-> n, tag |-> tag]
Op1(op, x) == [k |-> "op", op |-> op, a |-> <<x>>]
Op2(op, x, y) == [k |-> "op", op |-> op, a |-> <<x, y>>]
Op3(x, y, z) == [k |-> "op", op |-> "?:", a |-> <<x, y, z>>]

Err == [ok |-> FALSE]
Val(v) == [ok |-> TRUE, v |-> v]

SmallNat(x) == ~x.neg /\ MIsSmall(x.mag)

Apply(op, args) ==
    LET x == args[1]
        y == IF Len(args) >= 2 THEN args[2] ELSE IZero
    IN CASE op = "+"  -> Val(IAdd(x, y))
         [] op = "-" /\ Len(args) = 2 -> Val(ISub(x, y))
         [] op = "*"  -> Val(IMul(x, y))
         [] op = "/"  -> IF IIsZero(y) THEN Err ELSE Val(IFloorDiv(x, y))
         [] op = "%"  -> IF IIsZero(y) THEN Err ELSE Val(IMod(x, y))
         [] op = "**" -> IF y.neg THEN Err ELSE Val(IPow(x, MToNat(y.mag)))
         [] op = "<<" -> IF y.neg THEN Err ELSE Val(IShl(x, MToNat(y.mag)))
         [] op = ">>" -> IF y.neg THEN Err ELSE Val(IShr(x, MToNat(y.mag)))
         [] op = "&"  -> Val(IBitwise("&", x, y))
         [] op = "|"  -> Val(IBitwise("|", x, y))
         [] op = "^"  -> Val(IBitwise("^", x, y))
         [] op = "&&" -> Val(IBool(~IIsZero(x) /\ ~IIsZero(y)))
         [] op = "||" -> Val(IBool(~IIsZero(x) \/ ~IIsZero(y)))
         [] op = "<"  -> Val(IBool(ILt(x, y)))
         [] op = ">"  -> Val(IBool(ILt(y, x)))
         [] op = "<=" -> Val(IBool(ILe(x, y)))
         [] op = ">=" -> Val(IBool(ILe(y, x)))
         [] op = "==" -> Val(IBool(x = y))
         [] op = "!=" -> Val(IBool(x # y))
         [] op = "neg" -> Val(INeg(x))
         [] op = "~"  -> Val(INot(x))
         [] op = "#"  -> Val(IOfNat(IBitLen(x)))
         [] op = "?:" -> Val(IF ~IIsZero(x) THEN y ELSE args[3])

\* shift counts and exponents the checks are willing to compute (the model's arithmetic is unbounded, TLC's time is not)
Feasible(op, args) ==
    IF op \in {"<<", ">>"} THEN args[2].neg \/ (SmallNat(args[2]) /\ MToNat(args[2].mag) <= 300)
    ELSE IF op = "**" THEN args[2].neg \/ (SmallNat(args[2]) /\ MToNat(args[2].mag) <= 6)
    ELSE TRUE

RECURSIVE Eval(_, _)
Eval(e, env) ==
    CASE e.k = "lit" -> Val(e.v)
      [] e.k = "id"  -> Val(env[e.n])
      [] e.k = "op"  ->
            LET rs == [i \in 1..Len(e.a) |-> Eval(e.a[i], env)]
            IN IF \E i \in 1..Len(rs) : ~rs[i].ok THEN Err
               ELSE Apply(e.op, [i \in 1..Len(rs) |-> rs[i].v])

\* every shift count / exponent in the tree is feasible (so that the real assembler and TLC can compute it)
RECURSIVE AllFeasible(_, _)
AllFeasible(e, env) ==
    IF e.k # "op" THEN TRUE
    ELSE /\ \A i \in 1..Len(e.a) : AllFeasible(e.a[i], env)
         /\ LET rs == [i \in 1..Len(e.a) |-> Eval(e.a[i], env)]
            IN (\A i \in 1..Len(rs) : rs[i].ok) => Feasible(e.op, [i \in 1..Len(rs) |-> rs[i].v])

\* ---- staged evaluation ---------------------------------------------------------
\* substitute the identifiers of one stage and fold every node all of whose arguments are literals;
\* result: [ok |-> TRUE, e |-> tree]  or  Err (a fold failed)
RECURSIVE Stage(_, _, _)
Stage(e, env, tag) ==
    CASE e.k = "lit" -> [ok |-> TRUE, e |-> e]
      [] e.k = "id"  -> [ok |-> TRUE, e |-> IF e.tag = tag THEN Lit(env[e.n]) ELSE e]
      [] e.k = "op"  ->
            LET rs == [i \in 1..Len(e.a) |-> Stage(e.a[i], env, tag)]
            IN IF \E i \in 1..Len(rs) : ~rs[i].ok THEN Err
               ELSE IF \A i \in 1..Len(rs) : rs[i].e.k = "lit"
                    THEN LET r == Apply(e.op, [i \in 1..Len(rs) |-> rs[i].e.v])
                         IN IF r.ok THEN [ok |-> TRUE, e |-> Lit(r.v)] ELSE Err
                    ELSE [ok |-> TRUE, e |-> [e EXCEPT !.a = [i \in 1..Len(rs) |-> rs[i].e]]]

Staged(e, env) ==
    LET s1 == Stage(e, env, "const")
    IN IF ~s1.ok THEN Err
       ELSE LET s2 == Stage(s1.e, env, "param")
            IN IF ~s2.ok THEN Err
               ELSE LET s3 == Stage(s2.e, env, "label")
                    IN IF ~s3.ok THEN Err ELSE Val(s3.e.v)

\* ---- literals -----------------------------------------------------------------
\* a character literal is its code; a string literal packs its characters little-endian (first character = lowest byte)
StringValue(codes) == Mk(FALSE, codes)
\* the escapes of the language: letter after the backslash -> code (plus \xHH for any byte)
EscapeTable == << <<"0", 0>>, <<"a", 7>>, <<"b", 8>>, <<"t", 9>>, <<"n", 10>>, <<"v", 11>>, <<"f", 12>>, <<"r", 13>>,
                  <<"e", 27>>, <<"\"", 34>>, <<"'", 39>>, <<"?", 63>>, <<"\\", 92>> >>

\* ---- rendering with minimal parentheses ---------------------------------------------
\* precedence levels, loosest first (the table of the real grammar)
Level(op) ==
    CASE op = "?:" -> 1 [] op = "||" -> 2 [] op = "&&" -> 3 [] op = "|" -> 4 [] op = "^" -> 5
      [] op \in {"<", ">", "<=", ">="} -> 6 [] op \in {"==", "!="} -> 7 [] op = "&" -> 8
      [] op \in {"<<", ">>"} -> 9 [] op \in {"+", "-"} -> 10 [] op \in {"*", "/", "%"} -> 11
      [] op \in {"neg", "~", "#"} -> 12 [] op = "**" -> 13
Assoc(op) == CASE op \in {"?:", "**", "neg", "~", "#"} -> "right"
               [] op \in {"<", ">", "<=", ">="} -> "none"
               [] OTHER -> "left"
TreeLevel(e) == IF e.k = "op" THEN Level(e.op) ELSE 99

Paren(toks) == <<"(">> \o toks \o <<")">>
OpText(op) == IF op = "neg" THEN "-" ELSE op

RECURSIVE Render(_)
\* tokens; an identifier is the token <<"id", name>>, a literal <<"lit", value>>
Render(e) ==
    CASE e.k = "lit" -> << <<"lit", e.v>> >>
      [] e.k = "id"  -> << <<"id", e.n>> >>
      [] e.k = "op"  ->
            LET p == Level(e.op)
                Sub(c, side) ==       \* side: "l", "r" (binary / ternary outer), "m" (middle of ?:), "u" (unary operand)
                    LET q == TreeLevel(c)
                        need == \/ q < p
                                \/ (q = p /\ side = "l" /\ Assoc(e.op) # "left")
                                \/ (q = p /\ side = "r" /\ Assoc(e.op) # "right")
                                \/ (q = p /\ side = "m")
                    IN IF need THEN Paren(Render(c)) ELSE Render(c)
            IN IF Len(e.a) = 1 THEN <<OpText(e.op)>> \o Sub(e.a[1], "r")
               ELSE IF Len(e.a) = 2 THEN Sub(e.a[1], "l") \o <<OpText(e.op)>> \o Sub(e.a[2], "r")
               ELSE Sub(e.a[1], "l") \o <<"?">> \o Sub(e.a[2], "m") \o <<":">> \o Sub(e.a[3], "r")
=============================================================================
