------------------------------ MODULE MC_FJAsm ------------------------------
(***************************************************************************)
(* Small-scope exhaustive part of C02: EVERY program of up to MaxLen       *)
(* statements over a statement alphabet (after a fixed first op at 0).     *)
(* On the model itself TLC checks that the second-pass constraints of      *)
(* FJAsm are satisfiable and not vacuous:                                  *)
(*   RefAccepted     - for every possible layout the REFERENCE image (ops  *)
(*                     where Layout puts them, each wflip a chain through  *)
(*                     fresh ops after the program's end) satisfies        *)
(*                     Denotes / WFlipWalk / AuxClear / ReservedZero;      *)
(*   MutantRejected  - the same image with one flip address of a wflip     *)
(*                     chain off by one is rejected by WFlipWalk;          *)
(*   LayoutSane      - statement addresses never decrease, labels are      *)
(*                     unique, reserved ranges are closed pieces.          *)
(* Every program is emitted ("@@X") and assembled by the real assembler;   *)
(* the loaded image is judged by Trace_FJAsm.                              *)
(***************************************************************************)
EXTENDS FJAsm, Json, Sequences

CONSTANTS W, Alphabet, MaxLen
VARIABLES prog

Header == <<[k |-> "op", f |-> [b |-> "num", n |-> "", m |-> IOne, o |-> IZero], j |-> [b |-> "cur", n |-> "", m |-> IOne, o |-> IZero]]>>

Init == \E n \in 0..MaxLen : \E c \in [1..n -> 1..Len(Alphabet)] : prog = Header \o [i \in 1..n |-> Alphabet[c[i]]]
Next == FALSE /\ UNCHANGED prog
Spec == Init /\ [][Next]_prog

Sm(x) == MToNat(x.mag)
WordIx(x) == Sm(x) \div W

RECURSIVE SortedBits(_, _)
SortedBits(v, b) == IF b >= W THEN <<>> ELSE (IF MBit(v.mag, b) = 1 THEN <<b>> ELSE <<>>) \o SortedBits(v, b + 1)

\* the chain of a wflip: head at word `at`, the other flips in fresh ops from word `cur` on
RECURSIVE Chain(_, _, _, _, _, _, _)
Chain(mem, at, a, bits, r, cur, m) ==
    \* m = index of the bit this op flips; this op sits at `at`
    LET last == m = Len(bits)
        nextAt == cur
        me == (at :> IAdd(a, N(bits[m]))) @@ ((at + 1) :> (IF last THEN r ELSE N(nextAt * W))) @@ mem
    IN IF last THEN [mem |-> me, cur |-> cur] ELSE Chain(me, nextAt, a, bits, r, cur + 2, m + 1)

RECURSIVE Build(_, _, _, _)
Build(lay, i, mem, cur) ==
    IF i > Len(prog) THEN mem
    ELSE LET s == prog[i]
             at == WordIx(lay.at[i])
         IN CASE s.k = "op" ->
                   Build(lay, i + 1, (at :> ExprValue(s.f, lay, i, W).v) @@ ((at + 1) :> ExprValue(s.j, lay, i, W).v) @@ mem, cur)
              [] s.k = "wflip" ->
                   LET a == ExprValue(s.a, lay, i, W).v  v == ExprValue(s.v, lay, i, W).v  r == ExprValue(s.r, lay, i, W).v
                       bits == SortedBits(v, 0)
                   IN IF bits = <<>> THEN Build(lay, i + 1, (at :> IZero) @@ ((at + 1) :> r) @@ mem, cur)
                      ELSE LET c == Chain(mem, at, a, bits, r, cur, 1) IN Build(lay, i + 1, c.mem, c.cur)
              [] OTHER -> Build(lay, i + 1, mem, cur)

RefMem(lay) == Build(lay, 1, <<>>, WordIx(lay.addr))
ImgOf(mem, lay) ==
    LET top == CHOOSE x \in DOMAIN mem \cup {WordIx(lay.addr)} : \A y \in DOMAIN mem \cup {WordIx(lay.addr)} : y <= x
    IN << <<IZero, [q \in 1..(top + 1) |-> IF (q - 1) \in DOMAIN mem THEN mem[q - 1] ELSE IZero]>> >>

Judge(lay, img) ==
    LET ops == {i \in 1..Len(prog) : prog[i].k = "op"}
        wfs == {i \in 1..Len(prog) : prog[i].k = "wflip"}
        walks == [i \in wfs |-> WFlipWalk(prog, lay, img, W, i)]
        aux == UNION {walks[i].visited : i \in wfs}
    IN [denotes |-> \A i \in ops : Denotes(prog, lay, img, W, i),
        wflips |-> \A i \in wfs : walks[i].ok,
        auxclear |-> AuxClear(prog, lay, W, aux),
        reserved |-> ReservedZero(lay, img, W)]

\* the reference image fits below 2^W bits?  (only then is it an image at all)
TopBits == IF W = 8 THEN 256 ELSE 65536
Fits(mem) == \A x \in DOMAIN mem : (x + 1) * W <= TopBits

RefAccepted ==
    LET lay == Layout(prog, W)
    IN Possible(prog, W) =>
          LET mem == RefMem(lay) IN
          Fits(mem) => LET j == Judge(lay, ImgOf(mem, lay)) IN j.denotes /\ j.wflips /\ j.auxclear /\ j.reserved

MutantRejected ==
    LET lay == Layout(prog, W)
        wfs == {i \in 1..Len(prog) : prog[i].k = "wflip" /\ ExprValue(prog[i].v, lay, i, W).ok /\ SortedBits(ExprValue(prog[i].v, lay, i, W).v, 0) # <<>>}
    IN (Possible(prog, W) /\ wfs # {}) =>
          LET mem == RefMem(lay)
              i == CHOOSE x \in wfs : TRUE
              at == WordIx(lay.at[i])
              bad == (at :> IAdd(mem[at], IOne)) @@ mem          \* the head flips the neighbouring bit
          IN Fits(mem) => ~WFlipWalk(prog, lay, ImgOf(bad, lay), W, i).ok

LayoutSane ==
    LET lay == Layout(prog, W)
    IN lay.err = "" =>
          /\ \A i \in 1..(Len(prog) - 1) : ILe(lay.at[i], lay.at[i + 1])
          /\ \A k1, k2 \in 1..Len(lay.labels) : k1 # k2 => lay.labels[k1][1] # lay.labels[k2][1]
          /\ \A k \in 1..Len(lay.reserved) : \E p \in 1..Len(lay.pieces) : lay.pieces[p][2] = lay.reserved[k][2]

Emit == PrintT("@@X" \o ToJson([prog |-> prog, possible |-> Possible(prog, W)]))
=============================================================================
