--------------------------- MODULE Trace_FJAsmProc ---------------------------
(***************************************************************************)
(* Validation of recorded assembly histories (batch).  TRACE_FILE:         *)
(*   [fresh |-> <<digest of call 1, ...>>,  what a fresh process produces  *)
(*    depth |-> <<recursion depth parameter of each call>>,                *)
(*    runs  |-> << <<step...>> ...>>]  with                                *)
(*   step = [c, digest, keys <<name...>>, snaps <<digest...>>, reclimit]   *)
(* (the cache content observed AFTER the call).                            *)
(***************************************************************************)
EXTENDS Naturals, Sequences, FiniteSets, TLC, Json, IOUtils

Tr == JsonDeserialize(IOEnv.TRACE_FILE)
VARIABLES tid
Init == tid \in 1..Len(Tr.runs)
Next == FALSE /\ UNCHANGED tid
Spec == Init /\ [][Next]_tid

SnapOf(step, key) == step.snaps[CHOOSE i \in 1..Len(step.keys) : step.keys[i] = key]
HasKey(step, key) == \E i \in 1..Len(step.keys) : step.keys[i] = key

Verdict ==
    LET run == Tr.runs[tid]
        n == Len(run)
        impure == {k \in 1..n : run[k].digest # Tr.fresh[run[k].c]}
        mutated == {k \in 1..(n - 1) : \E i \in 1..Len(run[k].keys) :
                        ~HasKey(run[k + 1], run[k].keys[i]) \/ SnapOf(run[k + 1], run[k].keys[i]) # run[k].snaps[i]}
        \* the snapshot stored under a key must be the one a fresh process stores under that key
        wrongsnap == {k \in 1..n : \E i \in 1..Len(run[k].keys) :
                        \E j \in 1..Len(Tr.freshkeys) : Tr.freshkeys[j] = run[k].keys[i] /\ Tr.freshsnaps[j] # run[k].snaps[i]}
        \* (the recursion limit left behind by a call is logged but not judged: every call sets it before using it;
        \*  whether that matters is exactly what the `pure` clause observes)
        badlimit == {}
        clauses == [ pure |-> impure = {}, immutable |-> mutated = {}, keysnapshot |-> wrongsnap = {} ]
    IN PrintT("@@V" \o ToJson([tid |-> tid, fail |-> {c \in DOMAIN clauses : ~clauses[c]},
                                spec |-> [impure |-> impure, mutated |-> mutated, wrongsnap |-> wrongsnap, badlimit |-> badlimit]]))
=============================================================================
