------------------------------ MODULE FJDebug ------------------------------
(***************************************************************************)
(* FJMachine under the interactive debugger.                               *)
(*                                                                         *)
(*   d.m          the machine (op granularity: pauses happen only in front *)
(*                of an op)                                                *)
(*   d.bps        breakpoint addresses                                     *)
(*   d.nextBreak  op count at which to pause next (NoBreak: none)               *)
(*   d.attached   FALSE after "continue all"                               *)
(*   d.paused     at the prompt                                            *)
(*   d.resumed    the pause in front of the current op is already over     *)
(*   d.script     remaining commands                                       *)
(*   d.events     what the user saw: pauses and read results               *)
(*   d.quit       the user quit (the run ends as a keyboard interrupt)     *)
(* Commands: [c |-> "step"], [c |-> "skip", n], [c |-> "cont"],            *)
(* [c |-> "contall"], [c |-> "quit"], [c |-> "noop"] (help, unknown and    *)
(* malformed commands, empty lines), [c |-> "read", kind, len, idx, a].    *)
(* A read never changes anything but d.events.                             *)
(***************************************************************************)
EXTENDS FJMachine

NoBreak == 1000000000

ShouldBreak(d) == d.attached /\ (d.m.ops = d.nextBreak \/ d.m.ip \in d.bps)

\* ---- reads ---------------------------------------------------------------
\* a read target: kind "w" (word at bit address a), "f"/"j" (flip / jump word, 2*len*idx ops further),
\* "b"/"h"/"B" (bit / hex / byte vector of len ops, idx-th cell of an array of such cells)
BitsPer(kind) == CASE kind = "b" -> 1 [] kind = "h" -> 4 [] kind = "B" -> 8

AddrOKForRead(a, w) == a % w = 0          \* non-negative and below 2^w by construction of the model's addresses

RECURSIVE VecValue(_, _, _, _, _)
\* value of the vector whose ops start at bit address first: sum of data bits of op i, shifted
VecValue(m, first, kind, len, i) ==
    IF i = len THEN [ok |-> TRUE, v |-> 0]
    ELSE LET r == ReadWordAt(m, A(first + m.w + 2 * m.w * i))
         IN IF ~r.ok THEN [ok |-> FALSE, v |-> 0]
            ELSE LET rest == VecValue(m, first, kind, len, i + 1)
                     bits == Slice(Ext(r.v, (m.w \div 8) + 2), BitLen(m.w), 8)[1] % Pow2(BitsPer(kind))
                 IN IF ~rest.ok THEN rest ELSE [ok |-> TRUE, v |-> bits + Pow2(BitsPer(kind)) * rest.v]

\* outcome of a read: <<"bad">> (bad address), <<"fail">> (not readable), <<"word", bytes>> or <<"var", value>>
ReadOutcome(m, cmd) ==
    LET w == m.w
    IN IF ~AddrOKForRead(cmd.a, w) THEN <<"bad">>
       ELSE IF cmd.kind \in {"w", "f", "j"}
            THEN LET addw == IF cmd.kind = "w" THEN 0
                             ELSE 2 * cmd.len * cmd.idx + (IF cmd.kind = "j" THEN 1 ELSE 0)
                     r == ReadWordAt(m, A(cmd.a + w * addw))
                 IN IF r.ok THEN <<"word", r.v>> ELSE <<"fail">>
            ELSE LET first == cmd.a + 2 * cmd.len * cmd.idx * w
                     r == VecValue(m, first, cmd.kind, cmd.len, 0)
                 IN IF r.ok THEN <<"var", r.v>> ELSE <<"fail">>

\* ---- actions ---------------------------------------------------------------
DInit(m, bps, script) ==
    [m |-> m, bps |-> bps, nextBreak |-> NoBreak, attached |-> TRUE, paused |-> FALSE, resumed |-> FALSE,
     script |-> script, events |-> <<>>, quit |-> FALSE]

DRunning(d) == Running(d.m) /\ ~d.quit

CanPause(d) == DRunning(d) /\ ~d.paused /\ ~d.resumed /\ ShouldBreak(d)

Pause(d) ==
    [d EXCEPT !.paused = TRUE,
              !.events = Append(@, <<"pause", d.m.ip, d.m.ops, IF d.m.ip \in d.bps THEN "Breakpoint" ELSE "Debug Step">>)]

Resume(d) == [d EXCEPT !.paused = FALSE, !.resumed = TRUE, !.script = Tail(@)]

Command(d) ==
    IF d.script = <<>> THEN [d EXCEPT !.quit = TRUE, !.paused = FALSE]        \* end of input at the prompt = quit
    ELSE LET cmd == Head(d.script)
         IN CASE cmd.c = "step"    -> [Resume(d) EXCEPT !.nextBreak = d.m.ops + 1]
              [] cmd.c = "skip"    -> [Resume(d) EXCEPT !.nextBreak = d.m.ops + cmd.n]
              [] cmd.c = "cont"    -> [Resume(d) EXCEPT !.nextBreak = NoBreak]
              [] cmd.c = "contall" -> [Resume(d) EXCEPT !.nextBreak = NoBreak, !.attached = FALSE]
              [] cmd.c = "quit"    -> [d EXCEPT !.quit = TRUE, !.paused = FALSE, !.script = Tail(@)]
              [] cmd.c = "noop"    -> [d EXCEPT !.script = Tail(@)]
              [] cmd.c = "read"    -> [d EXCEPT !.script = Tail(@),
                                                !.events = Append(@, <<"read">> \o ReadOutcome(d.m, cmd))]

Op(d) == [d EXCEPT !.m = RunOp(d.m), !.resumed = FALSE]

DStep(d) == IF d.paused THEN Command(d)
            ELSE IF CanPause(d) THEN Pause(d)
            ELSE Op(d)
=============================================================================
