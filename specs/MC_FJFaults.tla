----------------------------- MODULE MC_FJFaults -----------------------------
(* exhaustive exploration of FJMachineFaults at w=8: every image x input x failing call index x kind *)
EXTENDS MC_FJMachine, FJMachineFaults

CONSTANTS FaultAts, Kinds
VARIABLES calls, stop, faultAt, kind, opMem, opOut
fvars == <<m, img, input0, calls, stop, faultAt, kind, opMem, opOut>>

S == [m |-> m, calls |-> calls, stop |-> stop]

FInitMC == /\ Init /\ calls = <<>> /\ stop = "none"
           /\ faultAt \in FaultAts /\ kind \in Kinds
           /\ opMem = m.mem /\ opOut = <<>>

FNext == /\ FRunning(S) /\ m.ops < MaxOps
         /\ LET s2 == FStep(S, faultAt, kind)
            IN m' = s2.m /\ calls' = s2.calls /\ stop' = s2.stop
         /\ IF m.phase = "fetch" THEN opMem' = m.mem /\ opOut' = m.out ELSE UNCHANGED <<opMem, opOut>>
         /\ UNCHANGED <<img, input0, faultAt, kind>>

FSpec == FInitMC /\ [][FNext]_fvars

StopConsistent == StopIsConsistent(S, opMem, opOut)
\* a stop never counts the failing op and never loses the bits whose write call returned
StopKeepsCounts == [][ stop' # "none" /\ stop = "none" => m'.ops = m.ops /\ m'.out = m.out /\ m'.mem = m.mem ]_fvars

FEmit == IF EmitOn /\ stop # "none"
         THEN PrintT("@@F" \o ToJson(
                [ w |-> W, layout |-> Layout, img |-> img, inp |-> input0, faultAt |-> faultAt, kind |-> kind,
                  outcome |-> Outcome(stop), ops |-> m.ops, out |-> m.out, calls |-> calls,
                  hist |-> m.hist, mem |-> MemList(m) ]))
         ELSE TRUE
=============================================================================
