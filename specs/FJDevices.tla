----------------------------- MODULE FJDevices -----------------------------
(***************************************************************************)
(* The bit-level IO devices: FixedIO / StandardIO (byte buffers in both    *)
(* directions) and KeyboardIO (polling protocol).                          *)
(*                                                                         *)
(* The state is implementation-shaped (current byte, bits left, collected  *)
(* bytes) so that it can be compared field by field with the real objects; *)
(* the PROPERTY is stated over ghost variables (everything written so far, *)
(* everything read so far) in terms of the declarative definitions         *)
(* Pack / BitsOfBytes / KbdStream.                                         *)
(***************************************************************************)
EXTENDS Naturals, Sequences, FiniteSets, TLC, Json

CONSTANTS Kind,        \* "bytes" (FixedIO, StandardIO) or "kbd" (KeyboardIO)
          Inputs,      \* set of input byte strings              (Kind = "bytes")
          Scripts,     \* set of event scripts <<tic, isdown, key>>... (Kind = "kbd")
          Alphabet,    \* subset of {"w0", "w1", "r", "g", "ga"}
          MaxLen,      \* number of calls in a behaviour
          EmitOn

VARIABLES input0, script0,          \* the chosen input / event script
          inRemaining, inByte, inLeft,          \* input side (bytes devices)
          tic, nextIdx, pending,                \* input side (keyboard)
          outBytes, outByte, outCount,          \* output side
          written, reads, polls,                \* ghosts: bits written, results of reads, number of polls
          h                                     \* history of calls with their results

vars == <<input0, script0, inRemaining, inByte, inLeft, tic, nextIdx, pending,
          outBytes, outByte, outCount, written, reads, polls, h>>

EOF_ == 2          \* result code of a read at end of input
INCOMPLETE == 300  \* result code of get_output on an incomplete byte

----------------------------------------------------------------------------
\* declarative definitions

P2(k) == CASE k = 0 -> 1 [] k = 1 -> 2 [] k = 2 -> 4 [] k = 3 -> 8 [] k = 4 -> 16 [] k = 5 -> 32 [] k = 6 -> 64 [] k = 7 -> 128
BitOfByte(b, k) == (b \div P2(k)) % 2
\* the bits of a byte string, least significant bit of each byte first
BitsOfBytes(bs) == [i \in 1..(8 * Len(bs)) |-> BitOfByte(bs[((i - 1) \div 8) + 1], (i - 1) % 8)]
\* complete bytes of a bit sequence, least significant bit first
ByteAt(bits, k) == LET B(i) == bits[8 * (k - 1) + i]
                   IN B(1) + 2*B(2) + 4*B(3) + 8*B(4) + 16*B(5) + 32*B(6) + 64*B(7) + 128*B(8)
Pack(bits) == [k \in 1..(Len(bits) \div 8) |-> ByteAt(bits, k)]
Nibble(v) == <<BitOfByte(v, 0), BitOfByte(v, 1), BitOfByte(v, 2), BitOfByte(v, 3)>>
ByteBits(v) == [i \in 1..8 |-> BitOfByte(v, i - 1)]

\* events in tic order, script order among equal tics (a stable sort)
RECURSIVE StableSort(_)
StableSort(ev) ==
    IF ev = <<>> THEN <<>>
    ELSE LET i == CHOOSE x \in 1..Len(ev) : \A y \in 1..Len(ev) : ev[x][1] < ev[y][1] \/ (ev[x][1] = ev[y][1] /\ x <= y)
         IN <<ev[i]>> \o StableSort([k \in 1..(Len(ev) - 1) |-> IF k < i THEN ev[k] ELSE ev[k + 1]])

\* the keyboard's bit stream produced by the first n polls (tics 0..n-1)
RECURSIVE KbdFrom(_, _, _, _)
KbdFrom(sorted, idx, t, n) ==
    IF t = n THEN <<>>
    ELSE IF idx <= Len(sorted) /\ sorted[idx][1] <= t
         THEN Nibble(IF sorted[idx][2] = 1 THEN 9 ELSE 8) \o ByteBits(sorted[idx][3]) \o KbdFrom(sorted, idx + 1, t + 1, n)
         ELSE Nibble(0) \o KbdFrom(sorted, idx, t + 1, n)
KbdStream(script, n) == KbdFrom(StableSort(script), 1, 0, n)

----------------------------------------------------------------------------
Init ==
    /\ input0 \in (IF Kind = "bytes" THEN Inputs ELSE {<<>>})
    /\ script0 \in (IF Kind = "kbd" THEN Scripts ELSE {<<>>})
    /\ inRemaining = input0 /\ inByte = 0 /\ inLeft = 0
    /\ tic = 0 /\ nextIdx = 1 /\ pending = <<>>
    /\ outBytes = <<>> /\ outByte = 0 /\ outCount = 0
    /\ written = <<>> /\ reads = <<>> /\ polls = 0 /\ h = <<>>

Log(call, res) == h' = Append(h, <<call, res>>)

WriteBit(b) ==
    /\ (IF b = 0 THEN "w0" ELSE "w1") \in Alphabet
    /\ written' = Append(written, b)
    /\ IF outCount = 7
       THEN /\ outBytes' = Append(outBytes, outByte + b * 128) /\ outByte' = 0 /\ outCount' = 0
       ELSE /\ outByte' = outByte + b * P2(outCount) /\ outCount' = outCount + 1 /\ UNCHANGED outBytes
    /\ Log(IF b = 0 THEN "w0" ELSE "w1", 0)
    /\ UNCHANGED <<input0, script0, inRemaining, inByte, inLeft, tic, nextIdx, pending, reads, polls>>

ReadBitBytes ==
    /\ Kind = "bytes" /\ "r" \in Alphabet
    /\ IF inLeft = 0 /\ inRemaining = <<>>
       THEN /\ reads' = Append(reads, EOF_) /\ Log("r", EOF_)
            /\ UNCHANGED <<inRemaining, inByte, inLeft>>
       ELSE LET cur  == IF inLeft = 0 THEN Head(inRemaining) ELSE inByte
                left == IF inLeft = 0 THEN 8 ELSE inLeft
            IN /\ inRemaining' = IF inLeft = 0 THEN Tail(inRemaining) ELSE inRemaining
               /\ inByte' = cur \div 2 /\ inLeft' = left - 1
               /\ reads' = Append(reads, cur % 2) /\ Log("r", cur % 2)
    /\ UNCHANGED <<input0, script0, tic, nextIdx, pending, outBytes, outByte, outCount, written, polls>>

ReadBitKbd ==
    /\ Kind = "kbd" /\ "r" \in Alphabet
    /\ LET sorted == StableSort(script0)
           due    == nextIdx <= Len(sorted) /\ sorted[nextIdx][1] <= tic
           fresh  == IF due THEN Nibble(IF sorted[nextIdx][2] = 1 THEN 9 ELSE 8) \o ByteBits(sorted[nextIdx][3])
                     ELSE Nibble(0)
           q      == IF pending = <<>> THEN fresh ELSE pending
       IN /\ IF pending = <<>>
             THEN /\ tic' = tic + 1 /\ polls' = polls + 1
                  /\ nextIdx' = IF due THEN nextIdx + 1 ELSE nextIdx
             ELSE UNCHANGED <<tic, polls, nextIdx>>
          /\ pending' = Tail(q)
          /\ reads' = Append(reads, Head(q)) /\ Log("r", Head(q))
    /\ UNCHANGED <<input0, script0, inRemaining, inByte, inLeft, outBytes, outByte, outCount, written>>

\* the result of get_output is logged as the byte sequence (or INCOMPLETE)
GetOutput(allow) ==
    /\ (IF allow THEN "ga" ELSE "g") \in Alphabet
    /\ Log(IF allow THEN "ga" ELSE "g", IF ~allow /\ outCount # 0 THEN <<INCOMPLETE>> ELSE outBytes)
    /\ UNCHANGED <<input0, script0, inRemaining, inByte, inLeft, tic, nextIdx, pending,
                   outBytes, outByte, outCount, written, reads, polls>>

Next == /\ Len(h) < MaxLen
        /\ \/ WriteBit(0) \/ WriteBit(1) \/ ReadBitBytes \/ ReadBitKbd \/ GetOutput(FALSE) \/ GetOutput(TRUE)

Spec == Init /\ [][Next]_vars

----------------------------------------------------------------------------
\* the property

\* collected output = LSB-first packing of everything written; the trailing partial byte is reported
OutputIsPacking ==
    /\ outBytes = Pack(written)
    /\ outCount = Len(written) % 8
    /\ outByte = LET n == Len(written) - outCount
                     RECURSIVE S(_) S(i) == IF i = 0 THEN 0 ELSE written[n + i] * P2(i - 1) + S(i - 1)
                 IN S(outCount)
IncompleteReported ==
    \A i \in 1..Len(h) : h[i][1] = "g" =>
        (h[i][2] = <<INCOMPLETE>>) = (Cardinality({j \in 1..(i - 1) : h[j][1] \in {"w0", "w1"}}) % 8 # 0)

\* reads return the input's bits LSB first and end-of-input exactly after the last bit
ReadsAreInputBits ==
    Kind = "bytes" =>
        LET bits == BitsOfBytes(input0)
        IN \A k \in 1..Len(reads) : reads[k] = (IF k <= Len(bits) THEN bits[k] ELSE EOF_)

\* keyboard: never end-of-input; the stream is exactly the polling protocol's
KbdFollowsProtocol ==
    Kind = "kbd" =>
        LET s == KbdStream(script0, polls)
        IN /\ \A k \in 1..Len(reads) : reads[k] \in {0, 1}
           /\ Len(reads) + Len(pending) = Len(s)
           /\ reads \o pending = s

Emit == IF EmitOn /\ Len(h) = MaxLen
        THEN PrintT("@@D" \o ToJson([kind |-> Kind, input |-> input0, script |-> script0, h |-> h]))
        ELSE TRUE
=============================================================================
