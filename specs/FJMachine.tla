----------------------------- MODULE FJMachine -----------------------------
(***************************************************************************)
(* The FlipJump machine.                                                   *)
(*                                                                         *)
(* One op is six named sub-steps, in the order the machine definition      *)
(* prescribes (reference: fjm_run._run_featured):                          *)
(*    FetchFlip  - record the op's address, fetch the flip word            *)
(*    EmitOutput - iff f is one of the two output bits 2w / 2w+1           *)
(*    ConsumeInput - iff the op covers the input bit 3w+#w                 *)
(*    Flip       - flip bit f of memory                                    *)
(*    FetchJump  - fetch the jump word from the post-flip memory           *)
(*    Retire     - count the op, halt tests, jump                          *)
(*                                                                         *)
(* The machine state is ONE record `m`; every sub-step is a pure operator  *)
(* m -> m so that the other specifications (faults, devices, debugger,     *)
(* assembler's wflip walk, trace validation) reuse exactly these           *)
(* definitions.  All machine quantities are limb numbers (FJNum).          *)
(*                                                                         *)
(*   m.w      memory width (8/16/32/64)                                    *)
(*   m.segs   sequence of [s, e] word-address ranges (AW-byte numbers)      *)
(*   m.mem    function: touched/initialised in-segment word address -> word*)
(*            (in-segment words that are not in DOMAIN read 0)             *)
(*   m.ip     bit address of the current op            (AW-byte number)     *)
(*   m.inp    remaining input bits,   m.out  emitted output bits           *)
(*   m.ops    retired ops;  m.flips / m.jumps  the profile counters        *)
(*   m.status "run" | "looping" | "eof" | "nullip" | "memerr"              *)
(*   m.fault  bit address reported with "memerr" (else <<>>)               *)
(*   m.hist   addresses of all ops begun, oldest first                     *)
(*   m.phase, m.f, m.j   sub-step bookkeeping                              *)
(***************************************************************************)
EXTENDS FJNum, TLC

AW == 9         \* address numbers: 9 bytes = room for (2^64 + 2^64) words * 64 bits

Phases == <<"fetch", "out", "in", "flip", "jump", "retire">>

A(n) == BV(n, AW)

InSeg(m, wa) == \E i \in 1..Len(m.segs) : Le(m.segs[i].s, wa) /\ Lt(wa, m.segs[i].e)
Word(m, wa)  == IF wa \in DOMAIN m.mem THEN m.mem[wa] ELSE Zeros(m.w \div 8)

WordAddr(b, w) == Shr(b, Log2(w))
BitOff(b, w)   == LowBits(b, Log2(w))
BitAddrOfWord(wa, w) == Shl(wa, Log2(w))

InAddr(w) == 3 * w + BitLen(w)          \* the input bit 3w + #w

Fault(m, wa) == [m EXCEPT !.status = "memerr", !.fault = BitAddrOfWord(wa, m.w)]

(* read a (possibly unaligned) word at bit address b:                      *)
(*   [ok |-> TRUE, v |-> word]  or  [ok |-> FALSE, wa |-> faulting word]    *)
ReadWordAt(m, b) ==
    LET w   == m.w
        wa  == WordAddr(b, w)
        off == BitOff(b, w)
        wa1 == AddPow2(wa, 0)
    IN IF ~InSeg(m, wa) THEN [ok |-> FALSE, wa |-> wa]
       ELSE IF off = 0 THEN [ok |-> TRUE, v |-> Word(m, wa)]
       ELSE IF ~InSeg(m, wa1) THEN [ok |-> FALSE, wa |-> wa1]
       ELSE [ok |-> TRUE, v |-> Slice(Word(m, wa) \o Word(m, wa1), off, w)]

SetMemBit(m, b, v) ==
    LET wa == WordAddr(b, m.w)
    IN [m EXCEPT !.mem = (wa :> SetBitAt(Word(m, wa), BitOff(b, m.w), v)) @@ @]

FlipMemBit(m, b) ==
    LET wa == WordAddr(b, m.w)
    IN [m EXCEPT !.mem = (wa :> FlipBitAt(Word(m, wa), BitOff(b, m.w))) @@ @]

IsOutputFlip(m) == IsBelowPow2(m.f, 9) /\ BVal(m.f) \in {2 * m.w, 2 * m.w + 1}

CoversInput(m) ==
    /\ IsBelowPow2(m.ip, 9)
    /\ BVal(m.ip) <= InAddr(m.w)
    /\ InAddr(m.w) < BVal(m.ip) + 2 * m.w

\* ip <= f < ip + 2w
FlipsOwnOp(m) == Le(m.ip, m.f) /\ Lt(m.f, AddPow2(m.ip, Log2(m.w) + 1))

----------------------------------------------------------------------------
FetchFlip(m) ==
    LET m1 == [m EXCEPT !.hist = Append(@, m.ip)]
        r  == ReadWordAt(m1, m1.ip)
    IN IF r.ok THEN [m1 EXCEPT !.f = Ext(r.v, AW), !.phase = "out"]
       ELSE Fault(m1, r.wa)

EmitOutput(m) ==
    IF IsOutputFlip(m)
    THEN [m EXCEPT !.out = Append(@, BVal(m.f) - 2 * m.w), !.phase = "in"]
    ELSE [m EXCEPT !.phase = "in"]

ConsumeInput(m) ==
    IF ~CoversInput(m) THEN [m EXCEPT !.phase = "flip"]
    ELSE IF m.inp = <<>> THEN [m EXCEPT !.status = "eof"]
    ELSE LET m1 == [m EXCEPT !.inp = Tail(@), !.phase = "flip"]
             b  == A(InAddr(m.w))
             wa == WordAddr(b, m.w)
         IN IF ~InSeg(m1, wa) THEN Fault(m1, wa)
            ELSE SetMemBit(m1, b, Head(m.inp))

Flip(m) ==
    LET wa == WordAddr(m.f, m.w)
    IN IF ~InSeg(m, wa) THEN Fault(m, wa)
       ELSE [FlipMemBit(m, m.f) EXCEPT !.phase = "jump"]

FetchJump(m) ==
    LET r == ReadWordAt(m, AddPow2(m.ip, Log2(m.w)))
    IN IF r.ok THEN [m EXCEPT !.j = Ext(r.v, AW), !.phase = "retire"]
       ELSE Fault(m, r.wa)

\* the profile counters of the featured loop: ops whose flip address is not in the first op ("null flips" excluded)
\* and ops that do not fall through to the next op
CountsFlip(m) == ~(IsBelowPow2(m.f, 8) /\ BVal(m.f) < 2 * m.w)
CountsJump(m) == m.j # AddPow2(m.ip, Log2(m.w) + 1)

Retire(m) ==
    LET m1 == [m EXCEPT !.ops = @ + 1,
                        !.flips = @ + (IF CountsFlip(m) THEN 1 ELSE 0),
                        !.jumps = @ + (IF CountsJump(m) THEN 1 ELSE 0)]
    IN IF m.j = m.ip /\ ~FlipsOwnOp(m) THEN [m1 EXCEPT !.status = "looping"]
       ELSE IF IsBelowPow2(m.j, 8) /\ BVal(m.j) < 2 * m.w THEN [m1 EXCEPT !.status = "nullip"]
       ELSE [m1 EXCEPT !.ip = m.j, !.phase = "fetch"]

SubStep(m) ==
    CASE m.phase = "fetch"  -> FetchFlip(m)
      [] m.phase = "out"    -> EmitOutput(m)
      [] m.phase = "in"     -> ConsumeInput(m)
      [] m.phase = "flip"   -> Flip(m)
      [] m.phase = "jump"   -> FetchJump(m)
      [] m.phase = "retire" -> Retire(m)

Running(m) == m.status = "run"
Then(m, Op(_)) == IF Running(m) THEN Op(m) ELSE m

\* one whole op (all six sub-steps, stopping where the run stops)
RunOp(m) ==
    Then(Then(Then(Then(Then(FetchFlip(m), EmitOutput), ConsumeInput), Flip), FetchJump), Retire)

----------------------------------------------------------------------------
(* Building a machine.  segs: sequence of [s, e]; data: function word      *)
(* address -> word for the explicitly stored words.                        *)
MkMachine(w, segs, data, input) ==
    [ w |-> w, segs |-> segs, mem |-> data, ip |-> A(0), inp |-> input, out |-> <<>>,
      ops |-> 0, flips |-> 0, jumps |-> 0, status |-> "run", fault |-> <<>>, hist |-> <<>>,
      phase |-> "fetch", f |-> A(0), j |-> A(0) ]

\* did the run execute an op that reaches beyond bit address 2^w (ip + 2w > 2^w)?  (classification of KF-1)
TopOp(m) == \E i \in 1..Len(m.hist) : ~IsBelowPow2(AddSmall(m.hist[i], 2 * m.w - 1), m.w)

TypeOK(m) ==
    /\ m.w \in {8, 16, 32, 64}
    /\ m.status \in {"run", "looping", "eof", "nullip", "memerr"}
    /\ m.phase \in {"fetch", "out", "in", "flip", "jump", "retire"}
    /\ Len(m.ip) = AW /\ Len(m.f) = AW /\ Len(m.j) = AW
    /\ IsBelowPow2(m.ip, m.w)
    /\ \A a \in DOMAIN m.mem : Len(m.mem[a]) = m.w \div 8 /\ InSeg(m, a)
    /\ (m.status = "memerr") = (m.fault # <<>>)
    /\ \A i \in 1..Len(m.out) : m.out[i] \in {0, 1}

=============================================================================
