SPECIFICATION Spec
CONSTANTS
  Layout <- L_one6d4
  Alphabet = {0, 16, 17, 32, 33, 5}
  Inputs <- In_01
  MaxOps = 12
  EmitOn = TRUE
INVARIANT TypeInv
INVARIANT FaultIsOutside
INVARIANT HistLen
PROPERTY OutputOnlyOnIOFlip
PROPERTY InputOnlyWhenCovered
PROPERTY MemChangesOnlyInFlipOrInput
PROPERTY JumpWordReadAfterFlip
PROPERTY OpsCountsRetiredOps
PROPERTY AbortsDoNotCount
CONSTRAINT Emit
CHECK_DEADLOCK FALSE
