------------------------- MODULE Trace_FJMachineDev -------------------------
(* observation validation for FJMachineDev (batch mode, see Trace_FJMachine) *)
EXTENDS FJMachineDev, Json, IOUtils

Tr == JsonDeserialize(IOEnv.TRACE_FILE)
N == Len(Tr)
VARIABLES tid, s
vars == <<tid, s>>

SegsOf(r) == [k \in 1..Len(r.segs) |->
                 [s |-> Ext(r.segs[k][1], AW), e |-> Add(Ext(r.segs[k][1], AW), Ext(r.segs[k][2], AW))]]
DataMem(r) == LET D == {Ext(r.data[k][1], AW) : k \in 1..Len(r.data)}
              IN [a \in D |-> r.data[CHOOSE k \in 1..Len(r.data) : Ext(r.data[k][1], AW) = a][2]]

Init == /\ tid \in 1..N
        /\ s = DInit(MkMachine(Tr[tid].w, SegsOf(Tr[tid]), DataMem(Tr[tid]), Tr[tid].inp))
Next == /\ Running(s.m) /\ s.m.ops <= Tr[tid].bound
        /\ s' = DStep(s, Tr[tid].script)
        /\ UNCHANGED tid
Spec == Init /\ [][Next]_vars

Obs == Tr[tid].obs
LastK(q, k) == IF Len(q) <= k THEN q ELSE SubSeq(q, Len(q) - k + 1, Len(q))
Clauses ==
    [ cause  |-> s.m.status = Obs.cause,
      ops    |-> s.m.ops = Obs.ops,
      out    |-> s.m.out = Obs.out,
      ncalls |-> s.ncalls = Obs.ncalls,
      vals   |-> s.vals = Obs.vals,
      hist   |-> IF Obs.hashist THEN Obs.hist = LastK(s.m.hist, Obs.ringlen) ELSE TRUE,
      mem    |-> \A k \in 1..Len(Obs.mem) : DevWord(s, Ext(Obs.mem[k][1], AW)) = Obs.mem[k][2] ]
Failing == {c \in DOMAIN Clauses : ~Clauses[c]}
Done == ~Running(s.m) \/ s.m.ops > Tr[tid].bound
Verdict ==
    IF Done
    THEN PrintT("@@V" \o ToJson([tid |-> tid, fail |-> IF Running(s.m) THEN {"spec-still-running"} ELSE Failing,
                                  spec |-> [cause |-> s.m.status, ops |-> s.m.ops, out |-> s.m.out, vals |-> s.vals,
                                            ncalls |-> s.ncalls, topop |-> TopOp(s.m),
                                            badmem |-> {<<Obs.mem[k][1], DevWord(s, Ext(Obs.mem[k][1], AW))>> : k \in {q \in 1..Len(Obs.mem) : DevWord(s, Ext(Obs.mem[q][1], AW)) # Obs.mem[q][2]}}]]))
    ELSE TRUE
=============================================================================
