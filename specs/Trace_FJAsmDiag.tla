--------------------------- MODULE Trace_FJAsmDiag ---------------------------
(* batch validation of recorded assembly outcomes against FJAsmDiag!Clauses *)
EXTENDS Naturals, Sequences, FiniteSets, TLC, Json, IOUtils
D == INSTANCE FJAsmDiag WITH Widths <- {64}, Versions <- {1}, EmitOn <- FALSE, kind <- "none", site <- "text", w <- 64, ver <- 1
Tr == JsonDeserialize(IOEnv.TRACE_FILE)
VARIABLES tid
Init == tid \in 1..Len(Tr)
Next == FALSE /\ UNCHANGED tid
Spec == Init /\ [][Next]_tid
Verdict == LET c == D!Clauses(Tr[tid].kind, Tr[tid].obs)
           IN PrintT("@@V" \o ToJson([tid |-> tid, fail |-> {x \in DOMAIN c : ~c[x]}]))
=============================================================================
