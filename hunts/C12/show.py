import sys, random
import rand
from rand import gen, render
rnd=random.Random(7)
for _ in range(12):
    t=gen(rnd,4,['a','b'])
    print(render(t,rnd)[0])
