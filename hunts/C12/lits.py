import sys
from h import fj_values
esc={'0':0,'a':7,'b':8,'e':0x1b,'f':0xc,'n':0xa,'r':0xd,'t':9,'v':0xb,'\\':0x5c,"'":0x27,'"':0x22,'?':0x3f}
bad=[]
def chk(src,exp):
    r=fj_values(src)
    if r[0]=='ERR' or r[0]!=exp: bad.append((src,r,exp))
for c in range(0x20,0x7f):
    if c==0x5c: continue
    ch=chr(c)
    chk(f";'{ch}'",(0,c))
    chk(f'"{ch}";',(c,128))
    chk(f'"a{ch}b";',(0x61|(c<<8)|(0x62<<16),128))
    chk(f'"{ch}{ch}";',(c|(c<<8),128))
for k,v in esc.items():
    chk(f";'\\{k}'",(0,v))
    chk(f'"\\{k}";',(v,128))
    chk(f'"x\\{k}y";',(0x78|(v<<8)|(0x79<<16),128))
    chk(f'"\\{k}\\{k}";',(v|(v<<8),128))
for c in range(256):
    for f in ('\\x%02x','\\X%02X','\\x%02X'):
        e=f%c
        chk(f";'{e}'",(0,c))
        chk(f'"{e}";',(c,128))
        chk(f'"{e}0";',(c|(0x30<<8),128))
# numbers
for v in [0,1,9,10,255,256,2**63,2**64-1,2**64,2**200+12345]:
    chk(f';{v}',(0,v)); chk(f';0x{v:x}',(0,v)); chk(f';0X{v:X}',(0,v)); chk(f';0b{v:b}',(0,v)); chk(f';0B{v:b}',(0,v)); chk(f';000{v}',(0,v))
print(len(bad))
for b in bad[:40]: print(b)
