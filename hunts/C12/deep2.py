import sys, tempfile, io, contextlib
from pathlib import Path
sys.path.insert(0,'/tmp/wt_C12_H')
import flipjump
from flipjump.assembler.assembler import assemble
from flipjump.fjm.fjm_writer import Writer
from flipjump.fjm.fjm_consts import FJMVersion
d=Path(tempfile.mkdtemp())
def asm(src,w=64):
    p=d/'a.fj'; p.write_text(src)
    wr=Writer(d/'a.fjm', w, FJMVersion.NormalVersion)
    buf=io.StringIO()
    with contextlib.redirect_stdout(buf):
        assemble([('f1',p)], w, wr, print_time=False)
    return wr.data
def thr(mk):
    lo,hi=1,3000
    while lo<hi:
        mid=(lo+hi)//2
        try:
            asm(mk(mid)); lo=mid+1
        except Exception as e:
            hi=mid; last=e
    return lo,last
for name,mk in [('label chain top-level', lambda n: 'x:\n;x'+'+1'*n+'\n'),
                ('param chain in macro', lambda n: 'def m x {\n;x'+'+1'*n+'\n}\nm 5\n'),
                ('right nested parens', lambda n: 'x:\n;'+'1+('*n+'x'+')'*n+'\n'),
                ('pow chain', lambda n: 'x:\n;x'+'**1'*n+'\n'),
                ]:
    n,e=thr(mk)
    print(name, 'first failing n =', n, '|', type(e).__name__, str(e)[:90], '| cause:', type(e.__cause__).__name__)
print(asm('x:\n;x'+'+1'*300+'\n')[:2])
