import sys, itertools, random
from h import fj_values
from pairs_tbl import prec, fn, binops
U={'-':lambda v:-v,'~':lambda v:~v,'#':lambda v:v.bit_length()}
rnd=random.Random(3)
vals=[(rnd.randrange(0,12),rnd.randrange(0,12),rnd.randrange(0,12),rnd.randrange(0,12)) for _ in range(25)]+[(0,0,0,0),(1,1,1,1),(0,1,0,1),(1,0,1,0),(2,3,2,3),(7,2,1,0)]
bad=[]; n=0
def safe(f):
    try: return f()
    except ZeroDivisionError: return None
def chk(src,exp):
    global n
    if exp is None: return
    n+=1
    r=fj_values(src)
    if r[0]=='ERR' or r[0][1]!=exp: bad.append((src,r,exp))
for u in U:
  for op in binops:
    for a,b,c,d in vals:
        if op=='**': e=safe(lambda:U[u](fn(op)(a,b)))
        else: e=safe(lambda:fn(op)(U[u](a),b))
        for s in (f';{u}{a}{op}{b}', f';{u} {a} {op} {b}'): chk(s,e)
        e=safe(lambda:fn(op)(a,U[u](b)))
        for s in (f';{a}{op}{u}{b}', f';{a} {op} {u} {b}'): chk(s,e)
  for u2 in U:
    for a,b,c,d in vals[:8]:
        chk(f';{u}{u2}{a}' if not (u=='-' and u2=='-' and False) else '', U[u](U[u2](a)))
  for a,b,c,d in vals:
    chk(f';{u}{a}?{b}:{c}', b if U[u](a) else c)
    chk(f';{a}?{u}{b}:{u}{c}', U[u](b) if a else U[u](c))
for op in binops:
    for a,b,c,d in vals:
        chk(f';{a}{op}{b}?{c}:{d}', safe(lambda:(c if fn(op)(a,b) else d)))
        chk(f';{a}?{b}:{c}{op}{d}', safe(lambda:(b if a else fn(op)(c,d)) if fn(op)(c,d) is not None else None))
        chk(f';{a}?{b}{op}{c}:{d}', safe(lambda:(fn(op)(b,c) if a else d) if fn(op)(b,c) is not None else None))
for a,b,c,d in vals:
    for e in (0,1,5):
        chk(f';{a}?{b}:{c}?{d}:{e}', b if a else (d if c else e))
        chk(f';{a}?{b}?{c}:{d}:{e}', (c if b else d) if a else e)
print('checked',n,'bad',len(bad))
for b in bad[:30]: print(b)
