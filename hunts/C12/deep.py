import sys
from h import fj_values
sys.path.insert(0,'/tmp/wt_C12_H')
for n in (100, 400, 900, 1000, 1500, 3000, 10000):
    src = 'x:\n;x' + '+1'*n + '\n'
    try:
        r = fj_values(src)
        print(n, r if r[0]=='ERR' else r[0][1])
    except BaseException as e:
        print(n, 'EXC', type(e).__name__, str(e)[:100])
for n in (100, 400, 900, 1000):
    src = 'def m x {\n;x' + '+1'*n + '\n}\nm 5\n'
    try:
        r = fj_values(src)
        print('macro', n, r if r[0]=='ERR' else r[0][1])
    except BaseException as e:
        print('macro', n, 'EXC', type(e).__name__, str(e)[:100])
