#!/usr/bin/env python
"""C12 / finding 2: an identifier's value depends on WHEN it is resolved - constants are
substituted by name at parse time with no scoping, and the collision is only diagnosed for
macro parameters and main-level labels. A rep iterator (or an extern label declared in a
macro) that is also a constant silently gets the constant's value for every use that is
parsed after the `name = value` line, and its own value for every use parsed before.
usage: /venv/bin/python repro_2.py <path-to-checkout>
exit 1 = violation present, 0 = not present. Only assembles (no FlipJump program is run)."""
import contextlib
import io
import sys
import tempfile
from pathlib import Path

checkout = str(Path(sys.argv[1]).resolve())
sys.path.insert(0, checkout)
import flipjump  # noqa: E402

assert flipjump.__file__.startswith(checkout), flipjump.__file__
from flipjump.assembler.assembler import assemble  # noqa: E402
from flipjump.fjm.fjm_consts import FJMVersion  # noqa: E402
from flipjump.fjm.fjm_writer import Writer  # noqa: E402
from flipjump.utils.exceptions import FlipJumpException  # noqa: E402

W = 64
tmp = Path(tempfile.mkdtemp(prefix='c12_r2_'))


def image_words(source: str):
    src = tmp / 'p.fj'
    src.write_text(source)
    writer = Writer(tmp / 'p.fjm', W, FJMVersion.NormalVersion)
    out = io.StringIO()
    try:
        with contextlib.redirect_stdout(out):
            assemble([('f1', src)], W, writer, print_time=False)
    except FlipJumpException as e:
        return 'ERROR: ' + (out.getvalue() + str(e)).strip().splitlines()[0]
    return list(writer.data)


MACRO = 'def m x {\n  ; x * 100 + 7\n}\n'
# (a) the rep iterator `i`, with an unrelated constant that happens to be called `i` too
const_first = MACRO + 'i = 5\n' + 'rep(3, i) m i\n'
const_last = MACRO + 'rep(3, i) m i\n' + 'i = 5\n'
renamed = MACRO + 'k = 5\n' + 'rep(3, i) m i\n'
expected_rep = [0, 7, 0, 107, 0, 207]  # m 0 ; m 1 ; m 2

# (b) an extern label `c` declared by a macro + a constant `c`: both meanings in one image
dual = (
    'def use < c {\n  ; c\n}\n'      # parsed before the constant: c is the label
    'def decl > c {\n  c:\n}\n'
    'c = 5\n'
    'use\n'                          # op 0: jump word = label c
    '; c\n'                          # op 1: jump word = ??? (same identifier, same program)
    'decl\n'                         # label c = 2 ops * 2w = 256
)

failed = 0
for name, source in (('const before rep', const_first), ('const after rep', const_last), ('const renamed', renamed)):
    got = image_words(source)
    ok = got == expected_rep or isinstance(got, str)  # the right words, or a diagnosed name collision
    print(f"{'ok  ' if ok else 'BAD '} rep(3, i) m i   [{name:16}] expected {expected_rep} (or a diagnostic) got {got}")
    failed += not ok

got = image_words(dual)
if isinstance(got, str):
    print('ok   label/constant collision is diagnosed:', got)
else:
    jump_in_macro, jump_top_level = got[1], got[3]
    ok = jump_in_macro == jump_top_level
    print(f"{'ok  ' if ok else 'BAD '} `;c` inside macro `use` -> {jump_in_macro} ; `;c` at top level -> {jump_top_level} "
          f'(same identifier c, one program)')
    failed += not ok

if failed:
    print('\nVIOLATION: the value of an identifier depends on the stage at which it was substituted '
          '(parse-time constant table vs. rep-iterator / label resolution), and nothing is diagnosed.')
    sys.exit(1)
print('no violation')
sys.exit(0)
