import operator
levels = [
 ('right', ['?:']),
 ('left', ['||']), ('left', ['&&']), ('left', ['|']), ('left', ['^']),
 ('nonassoc', ['<','>','<=','>=']), ('left', ['==','!=']), ('left', ['&']),
 ('left', ['<<','>>']), ('left', ['+','-']), ('left', ['*','/','%']),
 ('right', ['#u','-u','~u']), ('right', ['**']),
]
prec = {}; assoc = {}
for i,(a,ops) in enumerate(levels):
    for o in ops: prec[o]=i; assoc[o]=a
def _err(): raise ZeroDivisionError()
def fn(op):
    return {
     '+':operator.add,'-':operator.sub,'*':operator.mul,'/':operator.floordiv,'%':operator.mod,
     '**':lambda a,b: _err() if b<0 or b>40 else a**b,
     '<<':lambda a,b: _err() if b<0 or b>256 else a<<b,
     '>>':lambda a,b: _err() if b<0 else a>>b,
     '^':operator.xor,'|':operator.or_,'&':operator.and_,
     '&&':lambda a,b:int(bool(a and b)),'||':lambda a,b:int(bool(a or b)),
     '<':lambda a,b:int(a<b),'>':lambda a,b:int(a>b),'<=':lambda a,b:int(a<=b),'>=':lambda a,b:int(a>=b),
     '==':lambda a,b:int(a==b),'!=':lambda a,b:int(a!=b)}[op]
binops = [o for o in prec if not o.endswith('u') and o!='?:']
