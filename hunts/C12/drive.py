import sys, random
from h import fj_values
from rand import gen, render, ev, Bad
import rand
seed=int(sys.argv[2]) if len(sys.argv)>2 else 0
N=int(sys.argv[3]) if len(sys.argv)>3 else 2000
rnd=random.Random(seed)
# patch lit_text to avoid multiple strings / '"' (known bug 1)
state={'str':False}
orig=rand.lit_text
def lit_text(v, r):
    for _ in range(20):
        t=orig(v,r)
        if t.startswith('"'):
            if state['str']: continue
            state['str']=True; return t
        if t=="'\"'": continue
        return t
    return str(v)
rand.lit_text=lit_text
def used_ids(t,acc):
    if t[0]=='id': acc.add(t[1])
    elif t[0]!='lit':
        for c in t[1:]:
            if isinstance(c,tuple): used_ids(c,acc)
    return acc
bad=0; done=0; errs=0
while done<N:
    nid=rnd.randrange(0,5)
    ids=[f'v{i}' for i in range(nid)]
    tree=gen(rnd, rnd.randrange(1,6), ids)
    ids=sorted(used_ids(tree,set()))
    mode=rnd.choice(['const','param','label','mix','mix'])
    kinds={i:(mode if mode!='mix' else rnd.choice(['const','param','label'])) for i in ids}
    env={}
    for i in ids:
        if kinds[i]=='label': env[i]=64*rnd.choice([0,1,2,3,5,rnd.randrange(0,1<<20),rnd.randrange(0,1<<57)])
        else:
            v=rnd.choice([0,1,2,3,rnd.randrange(0,70),rnd.randrange(0,1<<16),rnd.getrandbits(70)])
            if rnd.random()<.3: v=-v
            env[i]=v
    try: exp=ev(tree,env)
    except Bad: continue
    state['str']=False
    txt,_=render(tree,rnd,sp=rnd.random()<.7)
    consts=[i for i in ids if kinds[i]=='const']; params=[i for i in ids if kinds[i]=='param']; labels=[i for i in ids if kinds[i]=='label']
    def vt(v):
        if v<0: return rnd.choice([f'(0-{-v})', f'(-{-v})', f'0-{-v}'])
        return str(v)
    src=''
    for c in consts: src+=f'{c} = {vt(env[c])}\n'
    helper=[]  # helper labels (name,value)
    tail=''
    for l in labels: tail+=f'segment {env[l]}\n{l}:\n'
    if params or rnd.random()<.5:
        gl=list(labels)
        src+=f'def inner {", ".join(params)}' + (f' < {", ".join(gl)}' if gl else '') + ' {\n  12345;'+txt+'\n}\n'
        # args
        args=[]
        for p in params:
            v=env[p]; r=rnd.random()
            if r<.4: args.append(vt(v) if v>=0 else f'(0-{-v})')
            elif r<.7:
                hv=64*rnd.randrange(0,1000); hn=f'H{len(helper)}'; helper.append((hn,hv))
                d=v-hv
                args.append(f'{hn} + {d}' if d>=0 else f'{hn} - {-d}')
            else:
                cn=f'K{len(args)}'; src=f'{cn} = {vt(v-7)}\n'+src
                args.append(f'{cn} + 7')
        lvl=rnd.randrange(0,3)
        if lvl==0 or not params:
            call='inner '+', '.join(args) if params else 'inner'
            src+=call+'\n'
        elif lvl==1:
            qs=[f'q{i}' for i in range(len(params))]
            src+=f'def outer {", ".join(qs)} {{\n  inner {", ".join(qs)}\n}}\nouter {", ".join(args)}\n'
        else:
            qs=[f'q{i}' for i in range(len(params))]
            src+=f'def outer {", ".join(qs)} {{\n  rep(2, i) inner {", ".join(q+" + i*0" for q in qs)}\n}}\nouter {", ".join(args)}\n'
    else:
        src+='12345;'+txt+'\n'
    for hn,hv in helper: tail+=f'segment {hv}\n{hn}:\n'
    src+=tail
    res=fj_values(src)
    done+=1
    if res[0]=='ERR':
        errs+=1; bad+=1
        print('ERRCASE\n'+src+'\n',res[1][:300],'\nexpected',exp); 
    else:
        got=[j for f,j in res if f==12345]
        if not got or any(g!=exp for g in got):
            bad+=1
            print('MISMATCH\n'+src+'\n got',got,'expected',exp)
    if bad>=5: break
print('done',done,'bad',bad)
