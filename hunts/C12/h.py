import sys, tempfile, io, contextlib
from pathlib import Path
sys.path.insert(0, sys.argv[1] if len(sys.argv) > 1 and sys.argv[1].startswith('/') else '/tmp/wt_C12_H')
import flipjump
assert flipjump.__file__.startswith('/tmp/wt_C12_H'), flipjump.__file__
from flipjump.assembler.fj_parser import parse_macro_tree
from flipjump.assembler.preprocessor import resolve_macros
from flipjump.assembler.inner_classes.ops import FlipJump
from flipjump.utils.exceptions import FlipJumpException

_tmp = Path(tempfile.mkdtemp(prefix='c12_'))
_n = [0]
def fj_values(src, w=64, quiet=True):
    """returns list of (flip, jump) raw ints for all FlipJump ops, or ('ERR', msg)"""
    _n[0] += 1
    p = _tmp / f'p{_n[0]}.fj'
    p.write_text(src)
    buf = io.StringIO()
    try:
        with contextlib.redirect_stdout(buf):
            macros = parse_macro_tree([('f1', p)], w, True)
            ops, labels = resolve_macros(w, macros)
        res = []
        for op in ops:
            if isinstance(op, FlipJump):
                res.append((op.get_flip(labels), op.get_jump(labels)))
        return res
    except FlipJumpException as e:
        return ('ERR', (buf.getvalue() + str(e))[:400])
    finally:
        p.unlink()
if __name__ == '__main__':
    for s in sys.argv[2:]:
        print(repr(s), '->', fj_values(s.encode().decode('unicode_escape')))
