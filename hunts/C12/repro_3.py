#!/usr/bin/env python
"""C12 / finding 3: an expression with ~500+ nested operators that cannot be folded by the
parser (it contains a label / parameter) does not evaluate at all: the recursive
Expr.eval_new / exact_eval / all_unknown_labels overflow python's stack and the assembler dies with
"Unknown exception during assembling the .fj files, please report this bug" (RecursionError).
usage: /venv/bin/python repro_3.py <path-to-checkout>
exit 1 = violation present, 0 = not present. Only assembles (no FlipJump program is run)."""
import contextlib
import io
import sys
import tempfile
from pathlib import Path

checkout = str(Path(sys.argv[1]).resolve())
sys.path.insert(0, checkout)
import flipjump  # noqa: E402

assert flipjump.__file__.startswith(checkout), flipjump.__file__
from flipjump.assembler.assembler import assemble  # noqa: E402
from flipjump.fjm.fjm_consts import FJMVersion  # noqa: E402
from flipjump.fjm.fjm_writer import Writer  # noqa: E402
from flipjump.utils.exceptions import FlipJumpException  # noqa: E402

W = 64
tmp = Path(tempfile.mkdtemp(prefix='c12_r3_'))


def image_words(source: str):
    src = tmp / 'p.fj'
    src.write_text(source)
    writer = Writer(tmp / 'p.fjm', W, FJMVersion.NormalVersion)
    out = io.StringIO()
    try:
        with contextlib.redirect_stdout(out):
            assemble([('f1', src)], W, writer, print_time=False)
    except FlipJumpException as e:
        return f'ERROR: {str(e).strip().splitlines()[0]} (cause: {type(e.__cause__).__name__})'
    return list(writer.data)


N = 600
cases = [
    # all-literal chain: folded token by token by the parser - fine at any length
    ('literal chain', ';0' + ' + 1' * N + '\n', [0, N]),
    # the same sum starting from a label (value 0): left-deep tree of depth N
    ('label chain', 'x:\n;x' + ' + 1' * N + '\n', [0, N]),
    # the same sum on a macro parameter
    ('parameter chain', 'def m p {\n;p' + ' + 1' * N + '\n}\nm 0\n', [0, N]),
    # right-deep tree
    ('nested parens', 'x:\n;' + '1 + (' * N + 'x' + ')' * N + '\n', [0, N]),
    # a checksum-like sum of 601 label-relative terms
    ('sum of terms', 'x:\n;' + ' + '.join(f'(x + {k})' for k in range(N + 1)) + '\n', [0, N * (N + 1) // 2]),
]

failed = 0
for name, source, expected in cases:
    got = image_words(source)
    ok = got == expected
    print(f"{'ok  ' if ok else 'BAD '} {name:16} ({N} operators) expected {expected} got {got}")
    failed += not ok
if failed:
    print(f'\nVIOLATION: {failed} expression(s) of {N} operators have a well defined integer value but do not evaluate.')
    sys.exit(1)
print('no violation')
sys.exit(0)
