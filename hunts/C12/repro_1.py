#!/usr/bin/env python
"""C12 / finding 1: two string literals on one source line are lexed as ONE string
(STRING regex is greedy and lets an unescaped '"' be a string character).
usage: /venv/bin/python repro_1.py <path-to-checkout>
exit 1 = violation present, 0 = not present. Only assembles (no FlipJump program is run)."""
import contextlib
import io
import sys
import tempfile
from pathlib import Path

checkout = str(Path(sys.argv[1]).resolve())
sys.path.insert(0, checkout)
import flipjump  # noqa: E402

assert flipjump.__file__.startswith(checkout), flipjump.__file__
from flipjump.assembler.assembler import assemble  # noqa: E402
from flipjump.fjm.fjm_consts import FJMVersion  # noqa: E402
from flipjump.fjm.fjm_writer import Writer  # noqa: E402
from flipjump.utils.exceptions import FlipJumpException  # noqa: E402

W = 64
tmp = Path(tempfile.mkdtemp(prefix='c12_r1_'))


def image_words(source: str):
    src = tmp / 'p.fj'
    src.write_text(source)
    writer = Writer(tmp / 'p.fjm', W, FJMVersion.NormalVersion)
    out = io.StringIO()
    try:
        with contextlib.redirect_stdout(out):
            assemble([('f1', src)], W, writer, print_time=False)
    except FlipJumpException as e:
        return 'ERROR: ' + (out.getvalue() + str(e)).strip().splitlines()[0]
    return list(writer.data)


A, B, C = 0x61, 0x62, 0x63
cases = [
    # (source, expected image words [flip, jump] of the first op)
    ('"a" + "b";\n', [A + B, 2 * W]),
    ('("a") + ("b");\n', [A + B, 2 * W]),
    ('"a" ? "b" : "c";\n', [B, 2 * W]),
    ('"a";"b"\n', [A, B]),
    ('"a" ; 0   // jump to "zero"\n', [A, 0]),
    # control: the same with character literals / a single string behaves
    ("'a' + 'b';\n", [A + B, 2 * W]),
    ('"a";\n', [A, 2 * W]),
]
failed = 0
for source, expected in cases:
    got = image_words(source)
    ok = got == expected
    print(f"{'ok  ' if ok else 'BAD '} {source.strip()!r:34} expected {expected}  got {got}")
    failed += not ok
if failed:
    print(f'\nVIOLATION: {failed} case(s): string literals sharing a line are merged into one literal '
          f'(e.g. "a" + "b" is decoded as the 5-character string  a" + "b ).')
    sys.exit(1)
print('no violation')
sys.exit(0)
