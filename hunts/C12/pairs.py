import sys, itertools, random
from h import fj_values
# documented table (low -> high)
levels = [
 ('right', ['?:']),
 ('left', ['||']), ('left', ['&&']), ('left', ['|']), ('left', ['^']),
 ('nonassoc', ['<','>','<=','>=']), ('left', ['==','!=']), ('left', ['&']),
 ('left', ['<<','>>']), ('left', ['+','-']), ('left', ['*','/','%']),
 ('right', ['#u','-u','~u']), ('right', ['**']),
]
prec = {}; assoc = {}
for i,(a,ops) in enumerate(levels):
    for o in ops: prec[o]=i; assoc[o]=a
import operator
def fn(op):
    return {
     '+':operator.add,'-':operator.sub,'*':operator.mul,'/':operator.floordiv,'%':operator.mod,
     '**':lambda a,b: (_ for _ in ()).throw(ZeroDivisionError()) if b<0 or b>64 else a**b,
     '<<':lambda a,b: (_ for _ in ()).throw(ZeroDivisionError()) if b<0 or b>256 else a<<b,
     '>>':lambda a,b: (_ for _ in ()).throw(ZeroDivisionError()) if b<0 else a>>b,
     '^':operator.xor,'|':operator.or_,'&':operator.and_,
     '&&':lambda a,b:int(bool(a and b)),'||':lambda a,b:int(bool(a or b)),
     '<':lambda a,b:int(a<b),'>':lambda a,b:int(a>b),'<=':lambda a,b:int(a<=b),'>=':lambda a,b:int(a>=b),
     '==':lambda a,b:int(a==b),'!=':lambda a,b:int(a!=b)}[op]
binops = [o for o in prec if not o.endswith('u') and o!='?:']
bad = []
triples = [(7,3,2),(2,3,2),(1,0,5),(12,5,3),(100,7,3),(5,5,1),(0,1,1),(9,2,4),(3,1,0),(6,6,6),(2,1,3),(64,2,1),(13,6,11)]
rnd = random.Random(1)
triples += [tuple(rnd.randrange(0,20) for _ in range(3)) for _ in range(30)]
for o1,o2 in itertools.product(binops, binops):
    if prec[o1]>prec[o2]: g='L'
    elif prec[o1]<prec[o2]: g='R'
    else: g={'left':'L','right':'R','nonassoc':'E'}[assoc[o1]]
    distinguished=False
    for a,b,c in triples:
        try:
            L = fn(o2)(fn(o1)(a,b),c)
        except ZeroDivisionError: L=None
        try:
            R = fn(o1)(a,fn(o2)(b,c))
        except ZeroDivisionError: R=None
        if L is None or R is None: continue
        if L!=R: distinguished=True
        for src in (f';{a} {o1} {b} {o2} {c}', f';{a}{o1}{b}{o2}{c}'):
            res = fj_values(src)
            if g=='E':
                if res[0]!='ERR': bad.append((src,res,'expected error'))
            else:
                exp = L if g=='L' else R
                if res[0]=='ERR' or res[0][1]!=exp: bad.append((src,res,exp))
    if not distinguished and g!='E': print('not distinguished', o1,o2)
print('pairs bad:', len(bad))
for b in bad[:40]: print(b)
