import sys, random
from h import fj_values
from pairs_tbl import prec, assoc, fn, binops
W=64
class Bad(Exception): pass
def ev(t, env):
    k=t[0]
    if k=='lit': return t[1]
    if k=='id': return env[t[1]]
    if k=='un':
        v=ev(t[2],env)
        return {'-u':-v,'~u':~v,'#u':v.bit_length()}[t[1]]
    if k=='bin':
        a=ev(t[2],env); b=ev(t[3],env)
        try:
            r=fn(t[1])(a,b)
        except ZeroDivisionError: raise Bad()
        if abs(r).bit_length()>2000: raise Bad()
        return r
    if k=='tern':
        c=ev(t[1],env); a=ev(t[2],env); b=ev(t[3],env)
        return a if c else b
def lit_text(v, rnd):
    forms=['d','h','b']
    if 0x20<=v<=0x7e and v!=0x5c: forms.append('c')
    if v<256: forms.append('ce')
    if v>0: forms.append('s')
    f=rnd.choice(forms)
    if f=='d': return str(v) if rnd.random()<.8 else '00'+str(v)
    if f=='h': return rnd.choice(['0x','0X'])+('%x'%v if rnd.random()<.5 else '%X'%v)
    if f=='b': return rnd.choice(['0b','0B'])+bin(v)[2:]
    if f=='c': return "'"+chr(v)+"'"
    if f=='ce': return "'\\x%02x'"%v
    if f=='s':
        bs=v.to_bytes((v.bit_length()+7)//8,'little')
        out=''
        for c in bs:
            if 0x20<=c<=0x7e and c not in (0x5c,0x22) and rnd.random()<.7: out+=chr(c)
            else: out+='\\x%02X'%c
        return '"'+out+'"'
def render(t, rnd, sp=True):
    """returns (text, prec_of_top) ; minimal parens per documented table"""
    k=t[0]
    s=' ' if sp else ''
    if k=='lit': return lit_text(t[1], rnd), 99
    if k=='id': return t[1], 99
    def wrap(child, need):  # need(p) -> bool whether OK without parens
        txt,p=render(child,rnd,sp)
        if rnd.random()<.1 or not need(p, child): return '('+txt+')'
        return txt
    if k=='un':
        op=t[1][0]; P=prec[t[1]]
        # operand may be anything of prec>=P (unary right assoc, POW higher) ; binary of lower prec needs parens
        txt=wrap(t[2], lambda p,c: p>=P)
        return op+(s if rnd.random()<.3 else '')+txt, P
    if k=='bin':
        op=t[1]; P=prec[op]; A=assoc[op]
        def okL(p,c):
            if p>P: return True
            if p==P and A=='left' and c[0]=='bin': return True
            return False
        def okR(p,c):
            if c[0]=='un': return True   # prefix operator at operand position is unambiguous
            if p>P: return True
            if p==P and A=='right': return True
            return False
        l=wrap(t[2],okL)
        # left child which *ends* in a unary/ternary tail that would swallow? e.g. (a ** -b) as left of higher op - impossible since p>P check
        r=wrap(t[3],okR)
        # but a right child unary whose operand is followed... handled by yacc prec: '-b' then next token belongs to outer. ok
        return l+s+op+s+r, P
    if k=='tern':
        P=prec['?:']
        c=wrap(t[1], lambda p,ch: p>P)
        a=wrap(t[2], lambda p,ch: True)
        b=wrap(t[3], lambda p,ch: True)
        return c+s+'?'+s+a+s+':'+s+b, P
def ends_open(t):
    return False
def gen(rnd, depth, ids):
    if depth==0 or rnd.random()<.25:
        if ids and rnd.random()<.6: return ('id', rnd.choice(ids))
        r=rnd.random()
        if r<.5: return ('lit', rnd.randrange(0,20))
        if r<.8: return ('lit', rnd.randrange(0,300))
        return ('lit', rnd.getrandbits(rnd.choice([16,40,64,70,130])))
    r=rnd.random()
    if r<.15: return ('un', rnd.choice(['-u','~u','#u']), gen(rnd,depth-1,ids))
    if r<.25: return ('tern', gen(rnd,depth-1,ids),gen(rnd,depth-1,ids),gen(rnd,depth-1,ids))
    return ('bin', rnd.choice(binops), gen(rnd,depth-1,ids), gen(rnd,depth-1,ids))

# a unary on the right whose result is then the LEFT part for a higher-prec op:  a * -b ** c  => a * -(b**c). rendering of tree bin(*, a, un(-, b)) ** ... can't happen w/o parens. ok.

def build(rnd, tree, env, kinds):
    """kinds: id -> 'const'|'param'|'label'|'lit'. returns source with the expr as the jump word of first fj op... we collect all ops; the target is the op with flip==12345"""
    txt,_=render(tree, rnd, sp=rnd.random()<.7)
    consts=[i for i in env if kinds[i]=='const']
    params=[i for i in env if kinds[i]=='param']
    labels=[i for i in env if kinds[i]=='label']
    src=''
    def val_text(v):
        if v<0: return rnd.choice([f'(0-{-v})', f'(-{-v})', f'-{-v}'])
        return str(v)
    for c in consts:
        v=env[c]
        src+=f'{c} = {val_text(v) if rnd.random()<.5 else f"{v+3} - 3" if v>=-3 else val_text(v)}\n'
    return txt, src, consts, params, labels
