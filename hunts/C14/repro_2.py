"""C14 finding 2: integers of more than 4300 decimal digits (python's int<->str limit) end in ValueError ->
the generic failure; with a debugging file the failure comes AFTER the .fjm was written, which is left behind.
usage: python repro_2.py <path-to-checkout>     exit 1 = violation present, 0 = not present."""
import os
import shutil
import subprocess
import sys
import tempfile

CHILD = r'''
import sys, io, os, contextlib, resource
checkout, src, out, w, ver, dbg, mem_mb = sys.argv[1:8]
if int(mem_mb):
    lim = int(mem_mb) << 20
    resource.setrlimit(resource.RLIMIT_AS, (lim, lim))
sys.path.insert(0, checkout)
import flipjump
from pathlib import Path
from flipjump.utils.exceptions import FlipJumpException
from flipjump.fjm.fjm_consts import FJMVersion
from flipjump.fjm.fjm_reader import Reader
assert os.path.realpath(flipjump.__file__).startswith(os.path.realpath(checkout)), flipjump.__file__
kind, detail = None, ''
try:
    with contextlib.redirect_stdout(io.StringIO()):
        flipjump.assemble([Path(src)], Path(out), memory_width=int(w), use_stl=False,
                          fjm_version=FJMVersion(int(ver)), print_time=False,
                          debugging_file_path=Path(dbg) if dbg != '-' else None)
    kind = 'OK'
except FlipJumpException as e:
    msg = str(e)
    if 'Unknown exception' in msg and 'report this bug' in msg:
        kind, detail = 'GENERIC', 'caused by ' + repr(e.__cause__)[:160]
    else:
        kind, detail = 'SPECIFIC', type(e).__name__ + ': ' + msg[:160].replace('\n', ' / ')
except BaseException as e:
    kind, detail = 'RAW', repr(e)[:200]
loads = False
if os.path.exists(out):
    try:
        Reader(Path(out))
        loads = True
    except BaseException:
        loads = False
print('RESULT', kind, 'LOADS' if loads else 'NOLOAD', detail)
'''


def assemble_bounded(checkout, text, *, w=64, ver=3, debug_file=False, timeout=30, mem_mb=0):
    """returns (kind, output_loads, detail). kind in OK / SPECIFIC / GENERIC / RAW / TIMEOUT / CRASH."""
    d = tempfile.mkdtemp(prefix='c14_')
    src, out, dbg = os.path.join(d, 'a.fj'), os.path.join(d, 'a.fjm'), os.path.join(d, 'a.fjd')
    with open(src, 'wb') as f:
        f.write(text if isinstance(text, bytes) else text.encode('utf-8'))
    try:
        r = subprocess.run(
            [sys.executable, '-c', CHILD, checkout, src, out, str(w), str(ver), dbg if debug_file else '-', str(mem_mb)],
            capture_output=True, text=True, timeout=timeout,
        )
    except subprocess.TimeoutExpired:
        return 'TIMEOUT', False, f'no result within {timeout}s'
    finally:
        shutil.rmtree(d, ignore_errors=True)
    for line in r.stdout.splitlines():
        if line.startswith('RESULT '):
            _, kind, loads, *rest = line.split(' ', 3)
            return kind, loads == 'LOADS', rest[0] if rest else ''
    return 'CRASH', False, (r.stderr or r.stdout)[-300:]

checkout = os.path.abspath(sys.argv[1])
bad = 0

cases = {
    'decimal literal of 4301 digits': (';' + '1' * 4301 + '\n', {}),
    'string literal of 1800 chars used as a jump address': (';"' + 'a' * 1800 + '"\n', {}),
    'jump address 1<<20000 (w=64)': (';1<<20000\n', {}),
    'constant 1<<20000 divided by zero': ('x = 1<<20000\ny = x/0\n;\n', {}),
}
for name, (text, kw) in cases.items():
    kind, loads, detail = assemble_bounded(checkout, text, **kw)
    violation = kind not in ('OK', 'SPECIFIC')
    bad += violation
    print(f"[{'VIOLATION' if violation else 'ok'}] {name}: {kind} {detail}")

# control: the very same mistakes with smaller numbers get specific diagnostics
for name, text in {'jump address 1<<100': ';1<<100\n', 'string of 1700 chars': ';"' + 'a' * 1700 + '"\n'}.items():
    kind, _, detail = assemble_bounded(checkout, text)
    print(f'[control] {name}: {kind} {detail[:110]}')

# the leftover-output clause: a valid self-loop program, a trailing (empty) segment far away holding one label.
text = 'loop: ;loop\nsegment (1<<14400)*w\nfar:\n'
kind_nodebug, _, d0 = assemble_bounded(checkout, text)
kind, loads, detail = assemble_bounded(checkout, text, debug_file=True)
print(f'[info] far label, no debugging file: {kind_nodebug} {d0}')
violation = kind != 'OK' and (loads or kind != 'SPECIFIC')
bad += violation
print(f"[{'VIOLATION' if violation else 'ok'}] far label, with debugging file: {kind} {detail}; "
      f"output .fjm left behind and loads: {loads}")
if bad:
    print(f'{bad} case(s): generic "unknown exception" failure and/or a loadable output file left by a failed assembly')
sys.exit(1 if bad else 0)
