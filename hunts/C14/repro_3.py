"""C14 finding 3: 'pad <huge>' never terminates (or dies of memory exhaustion -> generic failure), although the
request cannot fit the address space and a specific "Not enough space" diagnostic exists for it.
usage: python repro_3.py <path-to-checkout>     exit 1 = violation present, 0 = not present."""
import os
import shutil
import subprocess
import sys
import tempfile

CHILD = r'''
import sys, io, os, contextlib, resource
checkout, src, out, w, ver, dbg, mem_mb = sys.argv[1:8]
if int(mem_mb):
    lim = int(mem_mb) << 20
    resource.setrlimit(resource.RLIMIT_AS, (lim, lim))
sys.path.insert(0, checkout)
import flipjump
from pathlib import Path
from flipjump.utils.exceptions import FlipJumpException
from flipjump.fjm.fjm_consts import FJMVersion
from flipjump.fjm.fjm_reader import Reader
assert os.path.realpath(flipjump.__file__).startswith(os.path.realpath(checkout)), flipjump.__file__
kind, detail = None, ''
try:
    with contextlib.redirect_stdout(io.StringIO()):
        flipjump.assemble([Path(src)], Path(out), memory_width=int(w), use_stl=False,
                          fjm_version=FJMVersion(int(ver)), print_time=False,
                          debugging_file_path=Path(dbg) if dbg != '-' else None)
    kind = 'OK'
except FlipJumpException as e:
    msg = str(e)
    if 'Unknown exception' in msg and 'report this bug' in msg:
        kind, detail = 'GENERIC', 'caused by ' + repr(e.__cause__)[:160]
    else:
        kind, detail = 'SPECIFIC', type(e).__name__ + ': ' + msg[:160].replace('\n', ' / ')
except BaseException as e:
    kind, detail = 'RAW', repr(e)[:200]
loads = False
if os.path.exists(out):
    try:
        Reader(Path(out))
        loads = True
    except BaseException:
        loads = False
print('RESULT', kind, 'LOADS' if loads else 'NOLOAD', detail)
'''


def assemble_bounded(checkout, text, *, w=64, ver=3, debug_file=False, timeout=30, mem_mb=0):
    """returns (kind, output_loads, detail). kind in OK / SPECIFIC / GENERIC / RAW / TIMEOUT / CRASH."""
    d = tempfile.mkdtemp(prefix='c14_')
    src, out, dbg = os.path.join(d, 'a.fj'), os.path.join(d, 'a.fjm'), os.path.join(d, 'a.fjd')
    with open(src, 'wb') as f:
        f.write(text if isinstance(text, bytes) else text.encode('utf-8'))
    try:
        r = subprocess.run(
            [sys.executable, '-c', CHILD, checkout, src, out, str(w), str(ver), dbg if debug_file else '-', str(mem_mb)],
            capture_output=True, text=True, timeout=timeout,
        )
    except subprocess.TimeoutExpired:
        return 'TIMEOUT', False, f'no result within {timeout}s'
    finally:
        shutil.rmtree(d, ignore_errors=True)
    for line in r.stdout.splitlines():
        if line.startswith('RESULT '):
            _, kind, loads, *rest = line.split(' ', 3)
            return kind, loads == 'LOADS', rest[0] if rest else ''
    return 'CRASH', False, (r.stderr or r.stdout)[-300:]

import time


checkout = os.path.abspath(sys.argv[1])
bad = 0
# control: too big for an 8-bit address space (256 bits = 2 ops), small enough to be looped over
t = time.time()
kind, _, detail = assemble_bounded(checkout, ';\npad 1<<16\n', w=8, timeout=60)
print(f'[control] w=8  pad 1<<16: {kind} {detail}  ({time.time() - t:.1f}s)')

for w in (8, 16, 32):
    t = time.time()
    # memory-capped (1.5GiB) and time-capped (20s) child
    kind, _, detail = assemble_bounded(checkout, ';\npad 1<<40\n', w=w, timeout=20, mem_mb=1536)
    violation = kind not in ('OK', 'SPECIFIC')
    bad += violation
    print(f"[{'VIOLATION' if violation else 'ok'}] w={w} pad 1<<40: {kind} {detail}  ({time.time() - t:.1f}s)")
if bad:
    print('pad with a huge alignment hangs / exhausts memory instead of raising the range diagnostic')
sys.exit(1 if bad else 0)
