"""C14 finding 1: a long / deeply nested expression ends in RecursionError -> the generic "unknown exception" failure.
usage: python repro_1.py <path-to-checkout>     exit 1 = violation present, 0 = not present."""
import os
import shutil
import subprocess
import sys
import tempfile

CHILD = r'''
import sys, io, os, contextlib, resource
checkout, src, out, w, ver, dbg, mem_mb = sys.argv[1:8]
if int(mem_mb):
    lim = int(mem_mb) << 20
    resource.setrlimit(resource.RLIMIT_AS, (lim, lim))
sys.path.insert(0, checkout)
import flipjump
from pathlib import Path
from flipjump.utils.exceptions import FlipJumpException
from flipjump.fjm.fjm_consts import FJMVersion
from flipjump.fjm.fjm_reader import Reader
assert os.path.realpath(flipjump.__file__).startswith(os.path.realpath(checkout)), flipjump.__file__
kind, detail = None, ''
try:
    with contextlib.redirect_stdout(io.StringIO()):
        flipjump.assemble([Path(src)], Path(out), memory_width=int(w), use_stl=False,
                          fjm_version=FJMVersion(int(ver)), print_time=False,
                          debugging_file_path=Path(dbg) if dbg != '-' else None)
    kind = 'OK'
except FlipJumpException as e:
    msg = str(e)
    if 'Unknown exception' in msg and 'report this bug' in msg:
        kind, detail = 'GENERIC', 'caused by ' + repr(e.__cause__)[:160]
    else:
        kind, detail = 'SPECIFIC', type(e).__name__ + ': ' + msg[:160].replace('\n', ' / ')
except BaseException as e:
    kind, detail = 'RAW', repr(e)[:200]
loads = False
if os.path.exists(out):
    try:
        Reader(Path(out))
        loads = True
    except BaseException:
        loads = False
print('RESULT', kind, 'LOADS' if loads else 'NOLOAD', detail)
'''


def assemble_bounded(checkout, text, *, w=64, ver=3, debug_file=False, timeout=30, mem_mb=0):
    """returns (kind, output_loads, detail). kind in OK / SPECIFIC / GENERIC / RAW / TIMEOUT / CRASH."""
    d = tempfile.mkdtemp(prefix='c14_')
    src, out, dbg = os.path.join(d, 'a.fj'), os.path.join(d, 'a.fjm'), os.path.join(d, 'a.fjd')
    with open(src, 'wb') as f:
        f.write(text if isinstance(text, bytes) else text.encode('utf-8'))
    try:
        r = subprocess.run(
            [sys.executable, '-c', CHILD, checkout, src, out, str(w), str(ver), dbg if debug_file else '-', str(mem_mb)],
            capture_output=True, text=True, timeout=timeout,
        )
    except subprocess.TimeoutExpired:
        return 'TIMEOUT', False, f'no result within {timeout}s'
    finally:
        shutil.rmtree(d, ignore_errors=True)
    for line in r.stdout.splitlines():
        if line.startswith('RESULT '):
            _, kind, loads, *rest = line.split(' ', 3)
            return kind, loads == 'LOADS', rest[0] if rest else ''
    return 'CRASH', False, (r.stderr or r.stdout)[-300:]

checkout = os.path.abspath(sys.argv[1])
cases = {
    # 499 operands, all valid: label a is defined. fails in labels_resolve (exact_eval, then str(op) in the handler)
    'top-level op, 499-term sum': ';' + '+'.join(['a'] * 499) + '\na:\n',
    # fails already in the preprocessor (Expr.eval_new)
    'top-level op, 1200-term sum': ';' + '+'.join(['a'] * 1200) + '\na:\n',
    # fails already in the parser (Expr.all_unknown_labels, from validate_macro_declaration)
    'macro body, 1200-term sum': 'def m < a {\n;' + '+'.join(['a'] * 1200) + '\n}\na:;\n',
    # right-nested shape
    'top-level op, 1200 nested ?:': ';' + 'a?1:' * 1200 + '0\na:\n',
}
bad = 0
for name, text in cases.items():
    kind, loads, detail = assemble_bounded(checkout, text, timeout=60)
    violation = kind not in ('OK', 'SPECIFIC')
    bad += violation
    print(f"[{'VIOLATION' if violation else 'ok'}] {name}: {kind} {detail}")
# control: the same program with fewer terms assembles
kind, _, detail = assemble_bounded(checkout, ';' + '+'.join(['a'] * 100) + '\na:\n')
print(f'[control] 100-term sum: {kind} {detail}')
if bad:
    print(f'{bad} source text(s) fell into the generic catch-all (RecursionError) instead of assembling or '
          f'raising a specific diagnostic')
sys.exit(1 if bad else 0)
