"""shared harness for the C15 hunt (not a deliverable)."""
import sys, os, io, contextlib, tempfile, random
from pathlib import Path

CHECKOUT = os.environ.get('FJ_CHECKOUT', '/tmp/wt_C15_H')
sys.path.insert(0, CHECKOUT)
import flipjump  # noqa
assert flipjump.__file__.startswith(CHECKOUT), flipjump.__file__

from flipjump.fjm.fjm_writer import Writer
from flipjump.fjm.fjm_consts import FJMVersion
from flipjump.interpreter import fjm_run
from flipjump.interpreter.debugging import breakpoints as bp_mod
from flipjump.interpreter.debugging.breakpoints import BreakpointHandler
from flipjump.interpreter.io_devices.FixedIO import FixedIO
from flipjump.utils.exceptions import IODeviceException, IOReadOnEOF
from flipjump.utils.classes import TerminationCause


class Budget(IODeviceException):
    pass


class BudgetIO(FixedIO):
    def __init__(self, inp, budget=100000):
        super().__init__(inp)
        self.budget = budget

    def _tick(self):
        self.budget -= 1
        if self.budget < 0:
            raise Budget('io budget')

    def read_bit(self):
        self._tick()
        return super().read_bit()

    def write_bit(self, bit):
        self._tick()
        return super().write_bit(bit)


def make_fjm(path, w, segments, version=FJMVersion.BaseVersion):
    """segments: list of (start_word, data_words, seg_len or None)"""
    wr = Writer(Path(path), w, version)
    for start, data, seg_len in segments:
        ds = wr.add_data(list(data))
        wr.add_segment(start, seg_len if seg_len is not None else len(data), ds, len(data))
    wr.write_to_file()


# ---------- reference model ----------
class Model:
    def __init__(self, w, segments, inp=b''):
        self.w = w
        self.lw = w.bit_length() - 1
        self.mem = {}
        self.segs = []
        for start, data, seg_len in segments:
            n = seg_len if seg_len is not None else len(data)
            self.segs.append((start, start + n))
            for i, d in enumerate(data):
                self.mem[start + i] = d
        self.inp_bits = []
        for b in inp:
            for i in range(8):
                self.inp_bits.append((b >> i) & 1)
        self.out_bits = []
        self.ip = 0
        self.ops = 0
        self.cause = None
        self.err = None

    def valid(self, wa):
        return any(s <= wa < e for s, e in self.segs)

    class MemErr(Exception):
        def __init__(self, addr):
            self.addr = addr

    def rw(self, wa):
        if wa in self.mem:
            return self.mem[wa]
        if self.valid(wa):
            return 0
        raise Model.MemErr(wa << self.lw)

    def get_word(self, ba):
        wa, off = ba >> self.lw, ba & (self.w - 1)
        if off == 0:
            return self.rw(wa)
        lo = self.rw(wa)
        hi = self.rw(wa + 1)
        return ((lo >> off) | (hi << (self.w - off))) & ((1 << self.w) - 1)

    def peek_word(self, ba):
        try:
            return self.get_word(ba)
        except Model.MemErr:
            return None

    def step(self):
        """execute one op; returns False when terminated"""
        w = self.w
        ip = self.ip
        try:
            f = self.get_word(ip)
            if 2 * w <= f <= 2 * w + 1:
                self.out_bits.append(f - 2 * w)
            in_addr = 3 * w + w.bit_length()
            if ip <= in_addr < ip + 2 * w:
                if not self.inp_bits:
                    self.cause = TerminationCause.EOF
                    return False
                b = self.inp_bits.pop(0)
                wa = in_addr >> self.lw
                v = self.rw(wa)
                off = in_addr & (w - 1)
                v = (v | (1 << off)) if b else (v & ~(1 << off))
                self.mem[wa] = v
            wa = f >> self.lw
            v = self.rw(wa)
            self.mem[wa] = v ^ (1 << (f & (w - 1)))
            j = self.get_word(ip + w)
        except Model.MemErr as e:
            self.cause = TerminationCause.RuntimeMemoryError
            self.err = e.addr
            return False
        self.ops += 1
        if j == ip and not ip <= f < ip + 2 * w:
            self.cause = TerminationCause.Looping
            return False
        if j < 2 * w:
            self.cause = TerminationCause.NullIP
            return False
        self.ip = j
        return True

    def output(self):
        out = bytearray()
        for i in range(0, len(self.out_bits) - 7, 8):
            out.append(sum(self.out_bits[i + k] << k for k in range(8)))
        return bytes(out)


def run_plain(fjm, inp=b'', native=True):
    old = os.environ.get('FLIPJUMP_NO_NATIVE')
    if not native:
        os.environ['FLIPJUMP_NO_NATIVE'] = '1'
    else:
        os.environ.pop('FLIPJUMP_NO_NATIVE', None)
    try:
        io_dev = BudgetIO(inp)
        with contextlib.redirect_stdout(io.StringIO()):
            ts = fjm_run.run(Path(fjm), io_device=io_dev, last_ops_debugging_list_length=None)
        return ts.termination_cause, ts.op_counter, io_dev.get_output(allow_incomplete_output=True), ts.memory_error_address
    finally:
        if old is None:
            os.environ.pop('FLIPJUMP_NO_NATIVE', None)
        else:
            os.environ['FLIPJUMP_NO_NATIVE'] = old


class ScriptEnd(IODeviceException):
    pass


def run_debug(fjm, inp, breakpoints, script, labels=None, max_prompts=10000):
    """script: list of command strings (or callable(pause_index)->str). After it is exhausted -> EOF (None).
    returns (cause, ops, output, err, transcript) where transcript is a list of ('msg', title, body) / ('cmd', line)"""
    transcript = []
    it = iter(script)
    count = [0]

    def fake_ask(prompt):
        count[0] += 1
        if count[0] > max_prompts:
            raise Budget('prompt budget')
        try:
            line = next(it)
        except StopIteration:
            line = None
        transcript.append(('cmd', line))
        return None if line is None else line.strip()

    def fake_show(body_message, title_message):
        transcript.append(('msg', title_message, body_message))

    labels = labels or {}
    a2l = {}
    for l, a in labels.items():
        a2l.setdefault(a, l)
    handler = BreakpointHandler(dict(breakpoints), a2l, dict(labels))
    old_ask, old_show = bp_mod.ask_for_command, bp_mod.show_message
    bp_mod.ask_for_command, bp_mod.show_message = fake_ask, fake_show
    try:
        io_dev = BudgetIO(inp)
        buf = io.StringIO()
        with contextlib.redirect_stdout(buf):
            ts = fjm_run.run(Path(fjm), io_device=io_dev, last_ops_debugging_list_length=None, breakpoint_handler=handler)
        return ts.termination_cause, ts.op_counter, io_dev.get_output(allow_incomplete_output=True), ts.memory_error_address, transcript, buf.getvalue()
    finally:
        bp_mod.ask_for_command, bp_mod.show_message = old_ask, old_show
