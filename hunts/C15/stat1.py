import sys
sys.path.insert(0,'/tmp/hunt_C15')
import collections
src=open('/tmp/hunt_C15/fuzz1.py').read()
# reuse gen_program
import random
from hlib import *
rnd=random.Random(5)
exec(src[src.index("def gen_program"):src.index('def expected_session')])
c=collections.Counter(); ops=collections.Counter()
for _ in range(3000):
    w=rnd.choice([8,16,16,32,64]); segs=gen_program(w); inp=bytes(rnd.randrange(256) for _ in range(rnd.randrange(0,3)))
    M=Model(w,segs,inp)
    while M.step() and M.ops<=400: pass
    c[(w,str(M.cause))]+=1; ops[min(M.ops//5,10)]+=1
print(c); print(sorted(ops.items()))
