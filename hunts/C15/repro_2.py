"""C15 finding 2: the debugger's help documents the read target ':f/j:n:label:N' ("to step n*N ops forward"), but
the code never parses a trailing ':N' - everything after the label is silently dropped (re.match, no end anchor).
'read :f:2:lbl:3' therefore reports the word 2 ops past lbl (same as ':f:2:lbl') and not the documented 6 ops past;
the same goes for any trailing garbage (':h2:lbl:whatever').

usage: /venv/bin/python repro_2.py <path-to-checkout>      exit 1 = violation present, 0 = not present
"""
import contextlib
import io
import re
import signal
import sys
import tempfile
from pathlib import Path

checkout = str(Path(sys.argv[1]).resolve()) if len(sys.argv) > 1 else '/tmp/wt_C15_H'
sys.path.insert(0, checkout)
signal.alarm(120)  # outer bound

import flipjump  # noqa: E402

assert str(Path(flipjump.__file__).resolve()).startswith(checkout), flipjump.__file__

from flipjump.fjm.fjm_consts import FJMVersion  # noqa: E402
from flipjump.fjm.fjm_writer import Writer  # noqa: E402
from flipjump.interpreter import fjm_run  # noqa: E402
from flipjump.interpreter.debugging import breakpoints as bp  # noqa: E402
from flipjump.interpreter.io_devices.FixedIO import FixedIO  # noqa: E402
from flipjump.utils.exceptions import IODeviceException  # noqa: E402


class Budget(IODeviceException):
    pass


class BudgetIO(FixedIO):
    budget = 10000

    def read_bit(self):
        self.budget -= 1
        if self.budget < 0:
            raise Budget('io budget exhausted')
        return super().read_bit()

    def write_bit(self, bit):
        self.budget -= 1
        if self.budget < 0:
            raise Budget('io budget exhausted')
        super().write_bit(bit)


W = 64
DW = 2 * W
N_OPS = 10


def main() -> int:
    # op k (k=0..9) at address k*dw:  flip word = 1000+k (a harmless bit inside the program), jump word: see below
    # op0 jumps to op2 (skips the IO op), op2 is a self-loop (the normal way to finish).
    words = []
    for k in range(N_OPS):
        words += [9 * DW + k, (k + 1) * DW]  # flip bit k of op9's flip word; jump to the next op
    words[1] = 2 * DW
    words[5] = 2 * DW
    flip_word = {k: words[2 * k] for k in range(N_OPS)}

    with tempfile.TemporaryDirectory() as d:
        fjm = Path(d) / 'p.fjm'
        writer = Writer(fjm, W, FJMVersion.BaseVersion)
        writer.add_simple_segment_with_data(0, words)
        writer.write_to_file()

        script = iter(['read :f:2:lbl', 'read :f3:2:lbl', 'read :f:2:lbl:3', 'read :f:2:lbl:this-is-ignored', 'ca'])
        messages = []
        prompts = [0]

        def fake_ask(prompt):
            prompts[0] += 1
            if prompts[0] > 100:
                raise Budget('prompt budget exhausted')
            return next(script, None)

        def fake_show(body_message, title_message):
            messages.append((title_message, body_message))

        bp.ask_for_command, bp.show_message = fake_ask, fake_show
        labels = {'lbl': 0}
        handler = bp.BreakpointHandler({0: 'lbl'}, {0: 'lbl'}, labels)
        with contextlib.redirect_stdout(io.StringIO()):
            stats = fjm_run.run(fjm, io_device=BudgetIO(b''), breakpoint_handler=handler)

    reads = [m for m in messages if m[0] not in ('Breakpoint', 'Debug Step')]
    for title, body in reads:
        print(f'--- [{title}]\n{body}')
    print(f'--- run finished by {stats.termination_cause} after {stats.op_counter} ops')

    def value_of(message):
        found = re.search(r'memory\[(0x[0-9a-f]+)\] = (\d+)', message[1])
        return (int(found.group(1), 16), int(found.group(2))) if message[0] == 'Read Memory' and found else None

    two_ops, six_ops, documented, garbage = [value_of(m) for m in reads[:4]]
    assert two_ops == (2 * DW, flip_word[2]) and six_ops == (6 * DW, flip_word[6]), (two_ops, six_ops)

    documents_suffix_form = ':label:N' in bp.DEBUGGER_HELP
    print(f"\nthe help documents ':f/j:n:label:N' (n*N ops forward): {documents_suffix_form}")
    print(f"'read :f:2:lbl:3' reported {documented}; 6 ops past lbl is {(6 * DW, flip_word[6])}, "
          f"2 ops past lbl is {(2 * DW, flip_word[2])}")
    bad = False
    if documents_suffix_form and documented != (6 * DW, flip_word[6]):
        print("VIOLATION: the documented ':f:n:label:N' form does not read the word n*N ops past the label - "
              "the ':N' is silently ignored.")
        bad = True
    if garbage is not None:
        print("VIOLATION: 'read :f:2:lbl:this-is-ignored' reports a value - trailing text after the label is "
              "silently dropped instead of being rejected.")
        bad = True
    if not bad:
        print('ok')
    return 1 if bad else 0


if __name__ == '__main__':
    sys.exit(main())
