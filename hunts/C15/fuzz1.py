import sys, random, re, tempfile, os, signal
sys.path.insert(0, '/tmp/hunt_C15')
from hlib import *

signal.alarm(int(os.environ.get('FUZZ_SECS', '120')) + 30)
seed = int(sys.argv[1]) if len(sys.argv) > 1 else 0
rnd = random.Random(seed)
tmp = tempfile.mkdtemp(prefix='c15fz')
MAXOPS = 400


def gen_program(w):
    if rnd.random() < 0.3:
        return gen_program_random(w)
    dw = 2 * w
    maxops = (1 << w) // dw
    n = rnd.choice([4, 8, 12, 16]) if w == 8 else rnd.choice([8, 16, 32, 48])
    n = min(n, maxops)
    data = []
    for i in range(n):
        r = rnd.random()
        if r < 0.12:
            f = rnd.choice([dw, dw + 1])
        elif r < 0.5:
            # flip inside some jump word at an op-select bit
            tgt = rnd.randrange(n)
            bit = rnd.randrange(w.bit_length(), min(w, w.bit_length() + 4)) if w > 8 else rnd.randrange(4, 8)
            f = tgt * dw + w + bit
        elif r < 0.96:
            f = rnd.randrange(n * dw)
        else:
            f = rnd.randrange(n * dw + 4 * w)
        r = rnd.random()
        if r < 0.7:
            j = ((i + 1) % n) * dw
        elif r < 0.9:
            j = rnd.randrange(n) * dw
        elif r < 0.95:
            j = i * dw
        else:
            j = rnd.randrange(n * dw)
        if j < dw and rnd.random() < 0.8:
            j = dw * rnd.randrange(1, n)
        data += [f & ((1 << w) - 1), j & ((1 << w) - 1)]
    # IO op at index 1 is common
    if rnd.random() < 0.5 and n > 2:
        data[2] = rnd.randrange(n * dw)
        data[3] = 2 * dw if n > 2 else 0
    extra = rnd.choice([0, 0, 2, 8, 2000]) if w > 8 else 0
    return [(0, data, len(data) + extra)]


def gen_program_random(w):
    nwords_space = (1 << w) // w if w == 8 else None
    if w == 8:
        n = 32
        data = [rnd.randrange(256) for _ in range(n)]
        # bias: some words to op-aligned addresses
        for i in range(n):
            r = rnd.random()
            if r < 0.5:
                data[i] = rnd.randrange(16) * 16
            elif r < 0.6:
                data[i] = rnd.choice([16, 17])
        segs = [(0, data, None)]
    else:
        n = rnd.choice([8, 16, 32, 64])
        dw = 2 * w
        data = []
        for i in range(n):
            r = rnd.random()
            if r < 0.55:
                data.append(rnd.randrange(n // 2) * dw)
            elif r < 0.65:
                data.append(rnd.choice([dw, dw + 1]))
            elif r < 0.9:
                data.append(rnd.randrange(n * w))
            else:
                data.append(rnd.randrange(1 << w))
        extra = rnd.choice([0, 0, 2, 8, 2000])
        segs = [(0, data, n + extra)]
    return segs


def expected_session(w, segs, inp, bps, script):
    M = Model(w, segs, inp)
    exp = []
    nb = None
    active = True
    it = iter(script)
    while True:
        if active and (nb == M.ops or M.ip in bps):
            exp.append(('pause', M.ip, M.ops, M.ip in bps))
            while True:
                try:
                    line = next(it)
                except StopIteration:
                    line = None
                if line is None or line in ('q',):
                    return exp, (TerminationCause.KeyboardInterrupt, M.ops, M.output())
                toks = line.split()
                if toks[0] == 'r':
                    t = toks[1]
                    m = re.match(r':([bhfj])(\d*):(?:(\d+):)?(\d+)$', t)
                    if m:
                        ty, ln, idx, addr = m.groups()
                        ln = int(ln) if ln else 1
                        idx = int(idx) if idx else 0
                        addr = int(addr)
                        if addr % w or addr >= (1 << w):
                            exp.append(('bad',))
                            continue
                        if ty in 'fj':
                            a = addr + w * (2 * ln * idx + (ty == 'j'))
                            v = M.peek_word(a) if a < (1 << w) else None
                            exp.append(('word', a, v))
                        else:
                            bits = {'b': 1, 'h': 4}[ty]
                            first = addr + 2 * ln * idx * w
                            val = 0
                            ok = True
                            for k in range(ln):
                                a = first + w + 2 * w * k
                                wv = M.peek_word(a) if a < (1 << w) else None
                                if wv is None:
                                    ok = False
                                    break
                                val |= ((wv >> w.bit_length()) & ((1 << bits) - 1)) << (bits * k)
                            exp.append(('var', first, val if ok else None))
                    else:
                        addr = int(t)
                        if addr % w or addr >= (1 << w):
                            exp.append(('bad',))
                        else:
                            exp.append(('word', addr, M.peek_word(addr)))
                    continue
                if line in ('h', 'bogus cmd'):
                    exp.append(('info',))
                    continue
                if line == 's':
                    nb = M.ops + 1
                elif toks[0] == 'skip':
                    nb = M.ops + int(toks[1], 0)
                elif line == 'c':
                    nb = None
                elif line == 'ca':
                    active = False
                break
        if not M.step():
            return exp, (M.cause, M.ops, M.output())
        if M.ops > MAXOPS:
            return None, None


def parse_transcript(tr):
    got = []
    for e in tr:
        if e[0] != 'msg':
            continue
        _, title, body = e
        if title in ('Breakpoint', 'Debug Step'):
            m = re.match(r'Address (0x[0-9a-f]+)', body)
            ops = int(re.search(r'(\d+) ops executed', body).group(1))
            got.append(('pause', int(m.group(1), 16), ops, title == 'Breakpoint'))
        elif title == 'Read Memory':
            m = re.search(r'memory\[(0x[0-9a-f]+)\] = (\d+)', body)
            got.append(('word', int(m.group(1), 16), int(m.group(2))))
        elif title == 'Reading FlipJump Variable':
            m = re.search(r'memory\[(0x[0-9a-f]+), 0x[0-9a-f]+\) = (\d+)', body)
            got.append(('var', int(m.group(1), 16), int(m.group(2))))
        elif title == 'Read Memory Failure':
            got.append(('fail',))
        elif title == 'Bad memory address':
            got.append(('bad',))
        else:
            got.append(('info',))
    return got


def gen_script(w, trace_ips, nwords):
    n = rnd.randrange(0, 12)
    s = []
    for _ in range(n):
        r = rnd.random()
        if r < 0.2:
            s.append('s')
        elif r < 0.4:
            s.append(f'skip {rnd.choice([1, 1, 2, 3, 5, 10, 50])}' if rnd.random() < .7 else f'skip {hex(rnd.randrange(1, 20))}')
        elif r < 0.55:
            s.append('c')
        elif r < 0.6:
            s.append('ca')
        elif r < 0.63:
            s.append('q')
        elif r < 0.68:
            s.append(rnd.choice(['h', 'bogus cmd']))
        else:
            a = rnd.randrange(nwords + 3) * w
            if rnd.random() < 0.05:
                a += 1
            k = rnd.random()
            if k < 0.4:
                s.append(f'r {a}')
            elif k < 0.6:
                s.append(f'r :{rnd.choice("fj")}{rnd.choice(["", "1", "2"])}:{rnd.choice(["", "1:", "2:", "0:"])}{a}')
            else:
                s.append(f'r :{rnd.choice("bh")}{rnd.choice(["", "1", "2", "3", "4"])}:{rnd.choice(["", "1:", "2:", "0:"])}{a}')
    return s


def norm(exp):
    out = []
    for e in exp:
        if e[0] in ('word', 'var') and e[2] is None:
            out.append(('fail',))
        else:
            out.append(e)
    return out


import time
t0 = time.time()
secs = int(os.environ.get('FUZZ_SECS', '120'))
nprog = nterm = nsess = 0
fails = 0
while time.time() - t0 < secs:
    w = rnd.choice([8, 16, 16, 32, 64])
    segs = gen_program(w)
    inp = bytes(rnd.randrange(256) for _ in range(rnd.randrange(0, 7)))
    nprog += 1
    M = Model(w, segs, inp)
    trace = []
    while True:
        trace.append(M.ip)
        if not M.step():
            break
        if M.ops > MAXOPS:
            break
    if M.cause is None:
        continue
    nterm += 1
    ref = (M.cause, M.ops, M.output())
    fjm = os.path.join(tmp, 'p.fjm')
    make_fjm(fjm, w, segs)
    for native in (True, False):
        r = run_plain(fjm, inp, native=native)
        if r[:3] != ref or (ref[0] == TerminationCause.RuntimeMemoryError and r[3] != M.err):
            fails += 1
            print('PLAIN MISMATCH native=%s' % native, w, segs, inp, 'ref', ref, M.err, 'got', r)
    nwords = segs[0][2] if segs[0][2] else len(segs[0][1])
    nwords = min(nwords, 80)
    for _ in range(4):
        bps = set(rnd.sample(trace, min(len(trace), rnd.randrange(1, 4))))
        if rnd.random() < 0.3:
            bps.add(rnd.randrange(nwords) * w)
        script = gen_script(w, trace, nwords)
        exp, final = expected_session(w, segs, inp, bps, script)
        if exp is None:
            continue
        nsess += 1
        try:
            r = run_debug(fjm, inp, {a: None for a in bps}, script)
        except Exception as e:
            fails += 1
            print('DEBUG EXC', repr(e), repr(e.__cause__), w, segs, inp, bps, script)
            continue
        got = parse_transcript(r[4])
        if got != norm(exp) or r[:3] != final:
            fails += 1
            print('DEBUG MISMATCH', 'w', w, 'segs', segs, 'inp', inp, 'bps', bps, 'script', script)
            print('  exp', norm(exp), final)
            print('  got', got, r[:4])
            if fails > 10:
                sys.exit(1)
print('seed', seed, 'programs', nprog, 'terminating', nterm, 'sessions', nsess, 'fails', fails)
