"""C15 finding 1: a typed variable read (':h2:LABEL', ':b8:LABEL', ':f:LABEL' ...) cannot address any label whose
full name contains ':' - i.e. every label defined inside a macro ("f1:l4:foo---loc") and the ':wflips:N' labels.
The target is cut at the first ':' and the read reports a bogus "Bad memory address" / "can't resolve" (or, when the
cut-off prefix happens to resolve, another variable's value) instead of the variable's true value.

usage: /venv/bin/python repro_1.py <path-to-checkout>      exit 1 = violation present, 0 = not present
"""
import contextlib
import io
import signal
import sys
import tempfile
from pathlib import Path

checkout = str(Path(sys.argv[1]).resolve()) if len(sys.argv) > 1 else '/tmp/wt_C15_H'
sys.path.insert(0, checkout)
signal.alarm(120)  # outer bound

import flipjump  # noqa: E402

assert str(Path(flipjump.__file__).resolve()).startswith(checkout), flipjump.__file__

from flipjump.interpreter import fjm_run  # noqa: E402
from flipjump.interpreter.debugging import breakpoints as bp  # noqa: E402
from flipjump.interpreter.io_devices.FixedIO import FixedIO  # noqa: E402
from flipjump.utils.exceptions import IODeviceException  # noqa: E402
from flipjump.utils.functions import load_debugging_labels  # noqa: E402


class Budget(IODeviceException):
    pass


class BudgetIO(FixedIO):
    budget = 10000

    def _tick(self):
        self.budget -= 1
        if self.budget < 0:
            raise Budget('io budget exhausted')

    def read_bit(self):
        self._tick()
        return super().read_bit()

    def write_bit(self, bit):
        self._tick()
        super().write_bit(bit)


PROGRAM = """
;code_start
;0
code_start:
    foo
end_loop:
    ;end_loop

def foo @ loc, after {
    ;after
  loc:              // a 2-hex variable (hex.vec 2, 0x35), local to the macro
    ;5*2*w
    ;3*2*w
  after:
}
"""


def main() -> int:
    with tempfile.TemporaryDirectory() as d:
        d = Path(d)
        (d / 'p.fj').write_text(PROGRAM)
        with contextlib.redirect_stdout(io.StringIO()):
            flipjump.assemble([d / 'p.fj'], d / 'p.fjm', memory_width=64, use_stl=False,
                              debugging_file_path=d / 'p.fjd', print_time=False)
        labels = load_debugging_labels(d / 'p.fjd')
        local = [name for name in labels if name.endswith('---loc')]
        assert len(local) == 1, labels
        local = local[0]
        address = labels[local]

        script = iter([f'read {local}', f'read :h2:{local}', f'read :h2:{address}', 'continue all'])
        messages = []
        prompts = [0]

        def fake_ask(prompt):
            prompts[0] += 1
            if prompts[0] > 100:
                raise Budget('prompt budget exhausted')
            return next(script, None)

        def fake_show(body_message, title_message):
            messages.append((title_message, body_message))

        bp.ask_for_command, bp.show_message = fake_ask, fake_show
        handler = bp.get_breakpoint_handler(d / 'p.fjd', None, {'code_start'}, None)
        assert handler.breakpoints == {labels['code_start']: 'code_start'}
        with contextlib.redirect_stdout(io.StringIO()):
            stats = fjm_run.run(d / 'p.fjm', io_device=BudgetIO(b''), breakpoint_handler=handler)

    reads = [m for m in messages if m[0] not in ('Breakpoint', 'Debug Step')]
    print(f'label of the macro-local variable: {local!r} at {hex(address)}')
    for title, body in reads:
        print(f'--- [{title}]\n{body}')
    print(f'--- run finished by {stats.termination_cause} after {stats.op_counter} ops')

    plain, typed_by_label, typed_by_address = reads[:3]
    ok_plain = plain[0] == 'Read Memory' and f'memory[{hex(address)}]' in plain[1]
    ok_addr = typed_by_address[0] == 'Reading FlipJump Variable' and '= 53 ' in typed_by_address[1]
    ok_label = typed_by_label[0] == 'Reading FlipJump Variable' and '= 53 ' in typed_by_label[1]
    if not (ok_plain and ok_addr):
        print('UNEXPECTED: the control reads (plain label / typed by address) did not behave as expected')
        return 1
    if not ok_label:
        print(f"\nVIOLATION: 'read {local}' resolves the label and 'read :h2:{address}' reports 0x35, but\n"
              f"'read :h2:{local}' does not report the variable's value (the label is cut at its first ':').")
        return 1
    print('\nok: the typed read by the macro-local label reports 0x35')
    return 0


if __name__ == '__main__':
    sys.exit(main())
