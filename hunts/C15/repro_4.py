"""C15 finding 4: a typed read whose index / op-offset carries it past the end of the address space is not rejected -
only the BASE address is range-checked. The computed bit-address is handed to Reader.get_word(), which masks the
word-address to w bits, so it wraps modulo 2^(w+log2 w) bits and the debugger prints
"memory[0x100000] = <value of word 0>" for an address that does not exist (w=16: the memory ends at 0xffff).
A plain 'read 0x100000' of the same address is (correctly) refused as a bad memory address.

usage: /venv/bin/python repro_4.py <path-to-checkout>      exit 1 = violation present, 0 = not present
"""
import contextlib
import io
import signal
import sys
import tempfile
from pathlib import Path

checkout = str(Path(sys.argv[1]).resolve()) if len(sys.argv) > 1 else '/tmp/wt_C15_H'
sys.path.insert(0, checkout)
signal.alarm(120)  # outer bound

import flipjump  # noqa: E402

assert str(Path(flipjump.__file__).resolve()).startswith(checkout), flipjump.__file__

from flipjump.fjm.fjm_consts import FJMVersion  # noqa: E402
from flipjump.fjm.fjm_writer import Writer  # noqa: E402
from flipjump.interpreter import fjm_run  # noqa: E402
from flipjump.interpreter.debugging import breakpoints as bp  # noqa: E402
from flipjump.interpreter.io_devices.FixedIO import FixedIO  # noqa: E402
from flipjump.utils.exceptions import IODeviceException  # noqa: E402


class Budget(IODeviceException):
    pass


class BudgetIO(FixedIO):
    budget = 10000

    def read_bit(self):
        self.budget -= 1
        if self.budget < 0:
            raise Budget('io budget exhausted')
        return super().read_bit()

    def write_bit(self, bit):
        self.budget -= 1
        if self.budget < 0:
            raise Budget('io budget exhausted')
        super().write_bit(bit)


W = 16
DW = 2 * W
TOP = 1 << W  # the first bit-address past the memory


def main() -> int:
    # op0: flip a harmless bit (in the unused IO op's flip word), jump to op2;  op2: self-loop.
    # op0's jump word (word 1) = 2*dw = 0x40 -> as a hex variable its data nibble is (0x40 >> 5) & 0xf = 2.
    words = [DW + 8, 2 * DW, 0, 0, DW + 9, 2 * DW]

    with tempfile.TemporaryDirectory() as d:
        fjm = Path(d) / 'p.fjm'
        writer = Writer(fjm, W, FJMVersion.BaseVersion)
        writer.add_simple_segment_with_data(0, words)
        writer.write_to_file()

        wrap_ops = (TOP * W) // DW  # this many ops forward == 2^(w + log2 w) bits == a full wrap of Reader's masking
        commands = [
            f'read {hex(TOP * W)}',  # control: refused (bad memory address)
            f'read :f:{wrap_ops}:0',  # flip word "wrap_ops ops past address 0"
            f'read :h1:{wrap_ops}:0',  # hex variable, cell number wrap_ops of an array at address 0
            f'read :f:{TOP // DW}:0',  # control: one op past the top, no wrap -> a read failure
        ]
        script = iter(commands + ['ca'])
        messages = []
        prompts = [0]

        def fake_ask(prompt):
            prompts[0] += 1
            if prompts[0] > 100:
                raise Budget('prompt budget exhausted')
            return next(script, None)

        bp.ask_for_command = fake_ask
        bp.show_message = lambda body_message, title_message: messages.append((title_message, body_message))
        handler = bp.BreakpointHandler({0: None}, {}, {})
        with contextlib.redirect_stdout(io.StringIO()):
            stats = fjm_run.run(fjm, io_device=BudgetIO(b''), breakpoint_handler=handler)

    reads = messages[1:1 + len(commands)]
    bad = False
    for command, (title, body) in zip(commands, reads):
        print(f'--- {command}\n[{title}]\n{body}')
        reports_value = title in ('Read Memory', 'Reading FlipJump Variable')
        if reports_value:
            print(f'VIOLATION: a value is reported for an address beyond the memory (the last bit is {hex(TOP - 1)}).')
            bad = True
    print(f'--- run finished by {stats.termination_cause} after {stats.op_counter} ops')
    return 1 if bad else 0


if __name__ == '__main__':
    sys.exit(main())
