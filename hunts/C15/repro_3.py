"""C15 finding 3: a read command can abort the whole run. The length / index numbers of a typed read target
(':bN:', ':hN:i:' ...) are converted with a bare int(); python refuses to convert more than 4300 digits
(ValueError), nothing catches it, and fjm_run.run() turns it into
FlipJumpRuntimeException("Unknown exception during running an .fjm file, please report this bug").
A debugger command must only print something and re-prompt - the run has to finish exactly like the undebugged one.
(the same digits given to 'skip' or to a plain 'read' are handled: they print a message and re-prompt.)

usage: /venv/bin/python repro_3.py <path-to-checkout>      exit 1 = violation present, 0 = not present
"""
import contextlib
import io
import signal
import sys
import tempfile
from pathlib import Path

checkout = str(Path(sys.argv[1]).resolve()) if len(sys.argv) > 1 else '/tmp/wt_C15_H'
sys.path.insert(0, checkout)
signal.alarm(120)  # outer bound

import flipjump  # noqa: E402

assert str(Path(flipjump.__file__).resolve()).startswith(checkout), flipjump.__file__

from flipjump.fjm.fjm_consts import FJMVersion  # noqa: E402
from flipjump.fjm.fjm_writer import Writer  # noqa: E402
from flipjump.interpreter import fjm_run  # noqa: E402
from flipjump.interpreter.debugging import breakpoints as bp  # noqa: E402
from flipjump.interpreter.io_devices.FixedIO import FixedIO  # noqa: E402
from flipjump.utils.exceptions import IODeviceException  # noqa: E402


class Budget(IODeviceException):
    pass


class BudgetIO(FixedIO):
    budget = 10000

    def read_bit(self):
        self.budget -= 1
        if self.budget < 0:
            raise Budget('io budget exhausted')
        return super().read_bit()

    def write_bit(self, bit):
        self.budget -= 1
        if self.budget < 0:
            raise Budget('io budget exhausted')
        super().write_bit(bit)


W = 64
DW = 2 * W


def run(fjm, handler):
    device = BudgetIO(b'')
    with contextlib.redirect_stdout(io.StringIO()):
        stats = fjm_run.run(fjm, io_device=device, breakpoint_handler=handler)
    return stats.termination_cause, stats.op_counter, device.get_output(allow_incomplete_output=True)


def main() -> int:
    # op0 -> op2 -> op3..op10 output the byte 0x55 (U) -> op11 self-loop. op1 is the IO op (never executed; the other ops flip bits in its unused flip word)
    words = [DW + 8, 2 * DW, 0, 0, DW + 9, 3 * DW]
    for k in range(8):
        words += [DW + (1 - k % 2), (4 + k) * DW]
    words += [DW + 10, 11 * DW]
    digits = '9' * 4301

    bad = False
    with tempfile.TemporaryDirectory() as d:
        fjm = Path(d) / 'p.fjm'
        writer = Writer(fjm, W, FJMVersion.BaseVersion)
        writer.add_simple_segment_with_data(0, words)
        writer.write_to_file()

        plain = run(fjm, None)
        print('undebugged run:', plain)
        assert plain[2] == b'U', plain

        for command in (f'skip {digits}', f'read {digits}', f'read :b{digits}:0', f'read :h1:{digits}:0'):
            script = iter([command, 'c'])
            prompts = [0]
            messages = []

            def fake_ask(prompt):
                prompts[0] += 1
                if prompts[0] > 100:
                    raise Budget('prompt budget exhausted')
                return next(script, None)

            bp.ask_for_command = fake_ask
            bp.show_message = lambda body_message, title_message: messages.append(title_message)
            handler = bp.BreakpointHandler({2 * DW: None}, {}, {})
            shown = command[:12] + '<4301 digits>' + command[command.rindex('9') + 1:]
            try:
                debugged = run(fjm, handler)
            except Exception as exception:  # noqa
                print(f"VIOLATION: the command {shown!r} aborted the run: "
                      f"{type(exception).__name__}: {exception}  (caused by {exception.__cause__!r:.90}...)")
                bad = True
                continue
            if debugged != plain:
                print(f'VIOLATION: after {shown!r} the run ended differently: {debugged}')
                bad = True
            else:
                print(f'ok: {shown!r} -> messages {messages[1:]}, run {debugged}')
    return 1 if bad else 0


if __name__ == '__main__':
    sys.exit(main())
