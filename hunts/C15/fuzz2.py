"""engine differential: native (undebugged) vs featured (debugged with a never-hit breakpoint) vs model.
multi-segment, holes, reserved zero tails, far addresses."""
import sys, random, tempfile, os, signal, time
sys.path.insert(0, '/tmp/hunt_C15')
from hlib import *

secs = int(os.environ.get('FUZZ_SECS', '60'))
signal.alarm(secs + 60)
seed = int(sys.argv[1]) if len(sys.argv) > 1 else 0
rnd = random.Random(seed)
tmp = tempfile.mkdtemp(prefix='c15fz2')
MAXOPS = 300


def gen(w):
    dw = 2 * w
    lw = w.bit_length() - 1
    max_word = (1 << w) >> lw  # number of words in address space
    nseg = rnd.randrange(1, 5)
    seg_starts = [0]
    for _ in range(nseg - 1):
        for _try in range(10):
            r = rnd.random()
            if r < 0.4:
                s = rnd.randrange(0, 600) * 2
            elif r < 0.7:
                s = rnd.choice([1 << 12, 1 << 13, 1 << 20, 1 << 23, (1 << 23) - 64, 1 << 24, 1 << 30]) + rnd.randrange(-40, 40) * 2
            else:
                s = max_word - rnd.randrange(1, 40) * 2
            if 0 <= s < max_word - 2:
                seg_starts.append(s)
                break
    seg_starts = sorted(set(seg_starts))
    segs = []
    layout = []
    for i, s in enumerate(seg_starts):
        nxt = seg_starts[i + 1] if i + 1 < len(seg_starts) else max_word
        room = nxt - s
        nops = min(rnd.choice([1, 2, 4, 8, 16]), room // 2)
        if nops < 1:
            continue
        dlen = nops * 2
        extra = rnd.choice([0, 0, 2, 6, 1200])
        slen = min(dlen + extra, room - (room % 2))
        layout.append((s, dlen, slen))
    ops_addrs = [(s + 2 * k) << lw for s, dlen, slen in layout for k in range(dlen // 2)]
    all_words = [(s + k) for s, dlen, slen in layout for k in range(min(slen, dlen + 8))]
    mask = (1 << w) - 1
    for s, dlen, slen in layout:
        data = []
        for k in range(dlen // 2):
            ip = (s + 2 * k) << lw
            r = rnd.random()
            if r < 0.1:
                f = rnd.choice([dw, dw + 1])
            elif r < 0.5:
                tgt = rnd.choice(ops_addrs)
                f = tgt + w + rnd.randrange(lw + 1, min(w, lw + 5))
            elif r < 0.9:
                f = (rnd.choice(all_words) << lw) + rnd.randrange(w)
            elif r < 0.95:
                f = ip + rnd.randrange(dw)
            else:
                f = rnd.randrange(1 << w)
            r = rnd.random()
            if r < 0.5:
                j = ip + dw
            elif r < 0.9:
                j = rnd.choice(ops_addrs)
            elif r < 0.94:
                j = ip
            elif r < 0.97:
                j = rnd.choice(ops_addrs) + rnd.randrange(w)
            else:
                j = rnd.randrange(1 << w)
            data += [f & mask, j & mask]
        segs.append((s, data, slen))
    return segs


t0 = time.time()
n = nt = fails = 0
import collections
causes = collections.Counter()
while time.time() - t0 < secs:
    w = rnd.choice([16, 32, 64, 64])
    segs = gen(w)
    if not segs or segs[0][0] != 0:
        continue
    inp = bytes(rnd.randrange(256) for _ in range(rnd.randrange(0, 5)))
    n += 1
    M = Model(w, segs, inp)
    while M.step() and M.ops <= MAXOPS:
        pass
    if M.cause is None:
        continue
    nt += 1
    causes[(str(M.cause), min(M.ops // 10, 5))] += 1
    ref = (M.cause, M.ops, M.output())
    fjm = os.path.join(tmp, 'p.fjm')
    try:
        make_fjm(fjm, w, segs)
    except Exception as e:
        print('WRITER', e)
        continue
    res = {}
    try:
        res['native'] = run_plain(fjm, inp, native=True)
        res['fast'] = run_plain(fjm, inp, native=False)
        r = run_debug(fjm, inp, {-1: None}, [])
        res['featured'] = r[:4]
    except Exception as e:
        fails += 1
        print('EXC', repr(e), repr(e.__cause__), w, segs, inp)
        continue
    for k, r in res.items():
        if r[:3] != ref:
            fails += 1
            print('MISMATCH', k, 'w', w, 'segs', segs, 'inp', inp, '\n  ref', ref, M.err, '\n  got', res)
            break
    if fails > 5:
        break
print('seed', seed, 'n', n, 'terminating', nt, 'fails', fails)
print(sorted(causes.items()))
