#!/usr/bin/env python
"""
C03 finding 3: `$` (the next-op address) written in a macro-call / rep argument is substituted into the callee as
an opaque name and is never resolved: the macro program fails ("Can't evaluate label $"), while the program
obtained by textually inlining the call (`;$`) assembles fine.

usage: /venv/bin/python repro_3.py <path-to-checkout>
exit 1 = violation present (macro program fails to assemble / assembles to another image than the inlined one)
exit 0 = no violation
Only assembles (never runs a FlipJump program); a 120s alarm bounds the whole script.
"""
import contextlib
import io
import signal
import sys
import tempfile
from pathlib import Path

checkout = str(Path(sys.argv[1]).resolve())
sys.path.insert(0, checkout)
signal.alarm(120)

import flipjump  # noqa: E402

assert Path(flipjump.__file__).resolve().is_relative_to(checkout), f'wrong flipjump imported: {flipjump.__file__}'
from flipjump.assembler.assembler import assemble  # noqa: E402
from flipjump.fjm.fjm_consts import FJMVersion  # noqa: E402
from flipjump.fjm.fjm_reader import Reader  # noqa: E402
from flipjump.fjm.fjm_writer import Writer  # noqa: E402
from flipjump.utils.exceptions import FlipJumpException  # noqa: E402

W = 64


def image(source: str):
    with tempfile.TemporaryDirectory() as d:
        fj, fjm = Path(d) / 'p.fj', Path(d) / 'p.fjm'
        fj.write_text(source)
        with contextlib.redirect_stdout(io.StringIO()):
            assemble([('f1', fj)], W, Writer(fjm, W, FJMVersion.NormalVersion), warning_as_errors=True, print_time=False)
        return dict(Reader(fjm).memory)


DEFS = """\
def skip_to target {
    ;0
    ;target
}
def twice target {
    skip_to target
}
"""

CASES = {
    'direct call:  skip_to $+dw': (
        DEFS + 'dw = 2*w\nskip_to $+dw\n;0\n',
        'dw = 2*w\n;0\n;$+dw\n;0\n',
    ),
    'nested call:  twice $': (
        DEFS + 'twice $\n;0\n',
        ';0\n;$\n;0\n',
    ),
    'rep call:     rep(2, i) skip_to $+i': (
        DEFS + 'rep(2, i) skip_to $+i\n;0\n',
        ';0\n;$+0\n;0\n;$+1\n;0\n',
    ),
}

violations = 0
for name, (macro_source, inlined_source) in CASES.items():
    inlined_image = image(inlined_source)  # the inlined program is a valid program
    try:
        macro_image = image(macro_source)
    except FlipJumpException as e:
        violations += 1
        print(f'VIOLATION [{name}]: the inlined program assembles, the macro program does not:')
        print(f'     {type(e).__name__}: {str(e).splitlines()[0][:150]}')
        continue
    if macro_image != inlined_image:
        violations += 1
        print(f'VIOLATION [{name}]: different images: macro {macro_image} / inlined {inlined_image}')
    else:
        print(f'OK   [{name}]')

sys.exit(1 if violations else 0)
