#!/usr/bin/env python
"""
C03 finding 2: a rep iterator that is spelled like an already-defined constant is captured by the constant:
`rep(n, i) m i` passes the constant's value n times instead of 0..n-1 - silently (no error, no warning).
(for macro parameters / @-locals the same collision is a syntax error; for rep iterators nothing checks it.)

usage: /venv/bin/python repro_2.py <path-to-checkout>
exit 1 = violation present (the rep is not unrolled for i = 0..n-1 and nothing is reported)
exit 0 = no violation (same image as the unrolled program, or the collision is refused with a parsing error)
Only assembles (never runs a FlipJump program); a 120s alarm bounds the whole script.
"""
import contextlib
import io
import signal
import sys
import tempfile
from pathlib import Path

checkout = str(Path(sys.argv[1]).resolve())
sys.path.insert(0, checkout)
signal.alarm(120)

import flipjump  # noqa: E402

assert Path(flipjump.__file__).resolve().is_relative_to(checkout), f'wrong flipjump imported: {flipjump.__file__}'
from flipjump.assembler.assembler import assemble  # noqa: E402
from flipjump.fjm.fjm_consts import FJMVersion  # noqa: E402
from flipjump.fjm.fjm_reader import Reader  # noqa: E402
from flipjump.fjm.fjm_writer import Writer  # noqa: E402
from flipjump.utils.exceptions import FlipJumpParsingException  # noqa: E402

W = 64


def image(sources):
    with tempfile.TemporaryDirectory() as d:
        files = []
        for index, source in enumerate(sources, start=1):
            fj = Path(d) / f'p{index}.fj'
            fj.write_text(source)
            files.append((f'f{index}', fj))
        fjm = Path(d) / 'p.fjm'
        with contextlib.redirect_stdout(io.StringIO()):
            assemble(files, W, Writer(fjm, W, FJMVersion.NormalVersion), warning_as_errors=True, print_time=False)
        return dict(Reader(fjm).memory)


DEFS = """\
def m x {
    ;x
}
"""

CASES = {
    # name: (list of source files, the hand-unrolled program)
    'user constant i (defined in an earlier file)': (
        ['i = 5\n', DEFS + 'rep(3, i) m i*w\n'],
        DEFS + 'm 0*w\nm 1*w\nm 2*w\n',
    ),
    'the built-in constant w': (
        [DEFS + 'rep(3, w) m w*2\n'],
        DEFS + 'm 0*2\nm 1*2\nm 2*2\n',
    ),
    'inside a macro body': (
        ['n = 7\n' + DEFS + 'def outer {\n    rep(2, n) m n+8\n}\nouter\n'],
        DEFS + 'm 0+8\nm 1+8\n',
    ),
}

violations = 0
for name, (macro_sources, unrolled_source) in CASES.items():
    unrolled_image = image([unrolled_source])
    try:
        macro_image = image(macro_sources)
    except FlipJumpParsingException as e:
        print(f'OK   [{name}]: the collision is refused at parse time ({str(e).splitlines()[0][:80]}...)')
        continue
    if macro_image == unrolled_image:
        print(f'OK   [{name}]: same image as the unrolled program.')
        continue
    violations += 1
    print(f'VIOLATION [{name}]: assembled silently, but not to the image of the unrolled program.')
    print('   jump words of the ops:  rep program', [hex(macro_image.get(k, 0)) for k in sorted(unrolled_image) if k % 2],
          ' unrolled', [hex(unrolled_image[k]) for k in sorted(unrolled_image) if k % 2])

sys.exit(1 if violations else 0)
