#!/usr/bin/env python
"""
C03 finding 1: inside `ns N`, a macro parameter / @-local `x` captures the *global* label `N.x`
(spelled `.x` or `N.x` in the macro body, in nested call arguments and in rep arguments).

usage: /venv/bin/python repro_1.py <path-to-checkout>
exit 1 = violation present (macro program and hand-inlined program assemble to different images)
exit 0 = no violation
Only assembles (never runs a FlipJump program); a 120s alarm bounds the whole script.
"""
import contextlib
import io
import signal
import sys
import tempfile
from pathlib import Path

checkout = str(Path(sys.argv[1]).resolve())
sys.path.insert(0, checkout)
signal.alarm(120)

import flipjump  # noqa: E402

assert Path(flipjump.__file__).resolve().is_relative_to(checkout), f'wrong flipjump imported: {flipjump.__file__}'
from flipjump.assembler.assembler import assemble  # noqa: E402
from flipjump.fjm.fjm_consts import FJMVersion  # noqa: E402
from flipjump.fjm.fjm_reader import Reader  # noqa: E402
from flipjump.fjm.fjm_writer import Writer  # noqa: E402

W = 64


def image(source: str):
    with tempfile.TemporaryDirectory() as d:
        fj, fjm = Path(d) / 'p.fj', Path(d) / 'p.fjm'
        fj.write_text(source)
        log = io.StringIO()
        with contextlib.redirect_stdout(log):
            # warning_as_errors=True (the default): the program is warning-free
            assemble([('f1', fj)], W, Writer(fjm, W, FJMVersion.NormalVersion), warning_as_errors=True, print_time=False)
        return dict(Reader(fjm).memory)


# The stl idiom (hex.or.init exports `dst`, users reach it as `.dst`), one namespace level flatter:
# `t.init` exports the namespace-level label t.dst; `t.op` has a PARAMETER called dst and also uses the
# global t.dst (declared in its `<` list, spelled `.dst`).
MACRO_PROGRAM = """\
;0
ns t {
    def init > dst {
      dst:
        ;0
    }
    def op dst, src < .dst {
        ;dst            // the caller's 1st argument
        ;src            // the caller's 2nd argument
        ;.dst           // the global label t.dst  (NOT the parameter)
        .leaf .dst      // the global label t.dst, as an argument of a nested call
        rep(1, i) .leaf .dst+i
    }
    def leaf v {
        ;v
    }
    def loc @ dst < t.dst {
        ;dst            // the macro-local label
        ;t.dst          // the global label t.dst, spelled absolutely
      dst:
    }
}
t.init
t.op 0x1000, 0x2000
t.loc
"""

# every call textually inlined, arguments substituted, the local label renamed apart
INLINED_PROGRAM = """\
;0
ns t {
dst:
}
;0
;0x1000
;0x2000
;t.dst
;t.dst
;t.dst+0
;loc_dst_1
;t.dst
loc_dst_1:
"""

macro_image = image(MACRO_PROGRAM)
inlined_image = image(INLINED_PROGRAM)

if macro_image == inlined_image:
    print('OK: the macro program and its hand-inlined equivalent assemble to the same image.')
    sys.exit(0)

print('VIOLATION: the macro program and its hand-inlined equivalent assemble to different images.')
print('  (word index: macro image / inlined image)')
for k in sorted(set(macro_image) | set(inlined_image)):
    a, b = macro_image.get(k, 0), inlined_image.get(k, 0)
    if a != b:
        print(f'  word {k}: {hex(a)} / {hex(b)}')
print('  t.dst is at bit-address 0x80; every `.dst` / `t.dst` in t.op was replaced by the argument 0x1000,')
print('  and `t.dst` in t.loc by the macro-local label.')
sys.exit(1)
