"""
C11 finding 1: `ip + width` wraps past 2^64 in the native engine and the wrapped address is ACCESSED
(word 0 / words 0..1 are read as the op's jump word) instead of surfacing as a memory error.

usage: /venv/bin/python repro_1.py <path-to-checkout>
exit 1 = violation present, 0 = not present.

Two w=64 images (plain version-1 .fjm files, loadable by fjm_reader.Reader, runnable):

 A (aligned):   segments [0, 8) and [2^58 - 2, 2^58).  op0 jumps to ip = 2^64 - 64, the LAST word of the
                64-bit bit-address space. That op's flip word is word 2^58-1 (in a segment); its jump word is
                word 2^58 - outside every segment (and outside the address space).
                reference / paged native loop: RuntimeMemoryError.
                flat/hybrid native loop (the default): mem_get_word_unaligned(ip + 64) == (0) -> reads word 0,
                the run silently continues at whatever word 0 holds.

 B (unaligned): segments [0, 8) and [2^58 - 2, 2^58 + 1).  op0 jumps to ip = 2^64 - 32 (unaligned). flip word =
                words 2^58-1 / 2^58 (both in the segment), jump word at bit address 2^64 + 32 -> wraps to 32:
                words 0 and 1 are read. happens in EVERY native loop (flat, paged, ring, measured).
                reference: RuntimeMemoryError.
"""
import os
import struct
import subprocess
import sys
import tempfile
from pathlib import Path

CHILD_TIMEOUT = 60


def write_fjm(path, w, segments, data):
    """segments: list of (start, length, data_start, data_length); version 1 (raw words)."""
    tag = {8: 'B', 16: 'H', 32: 'L', 64: 'Q'}[w]
    with open(path, 'wb') as f:
        f.write(struct.pack('<HHQQ', ord('F') + (ord('J') << 8), w, 1, len(segments)))
        f.write(struct.pack('<QL', 0, 0))
        for seg in segments:
            f.write(struct.pack('<QQQQ', *seg))
        f.write(struct.pack('<' + tag * len(data), *data))


def child(checkout):
    sys.path.insert(0, checkout)
    import flipjump
    from flipjump.interpreter import fjm_run
    from flipjump.utils.classes import TerminationCause

    assert Path(flipjump.__file__).resolve().is_relative_to(Path(checkout).resolve()), flipjump.__file__
    if fjm_run._fjcore is None:
        print('native engine not built in this checkout - nothing to check')
        return 0

    w = 64
    top = (1 << 58) - 1          # the last word of the 2^64-bit address space
    flip = 6 * w                 # every op flips bit 0 of word 6 (harmless, in-segment)
    bad = 0
    tmp = Path(tempfile.mkdtemp(prefix='c11_r1_'))

    # ---- image A: aligned op on the last word
    #  low segment words: 0:[flip] 1:[jump -> top*w]  2,3: unused  4:[flip] 5:[4*w] (self loop)  6,7: scratch
    #  word 0 == flip == 6*w == 384 ... we want the WRAPPED read (word 0) to be a sensible ip: make op0's
    #  flip word itself the landing address 4*w (it flips bit 0 of word 4 -> op at word 4 then flips 6*w^1).
    low_a = [4 * w, top * w, 0, 0, flip, 4 * w, 0, 0]
    high_a = [0, flip]           # words 2^58-2, 2^58-1 (the last one is the top op's flip word)
    write_fjm(tmp / 'a.fjm', w, [(0, 8, 0, 8), (top - 1, 2, 8, 2)], low_a + high_a)

    # ---- image B: unaligned op straddling the last word and word 2^58
    ip_b = (1 << 64) - 32
    low_b = [flip, ip_b, 0, 0, flip, 4 * w, 0, 0]
    # unaligned flip word = (word[top] >> 32) | (word[top+1] << 32): make it `flip`.
    # segment [top-1, top+2): words top-1, top hold data, word top+1 (= 2^58) is zero padding; word 2^58+1,
    # the high half of the op's real jump word, is outside every segment -> the reference reports a memory error.
    high_b = [0, (flip & 0xFFFFFFFF) << 32]
    # the WRAPPED jump word (bit address 32) = (word0 >> 32) | (word1 << 32) = 2^64 - 2^37: put a self-loop
    # op there, so an engine that wraps ends by looping instead.
    wrapped_j = ((low_b[0] >> 32) | (low_b[1] << 32)) & ((1 << 64) - 1)
    assert wrapped_j % (2 * w) == 0
    landing = [flip, wrapped_j]
    write_fjm(tmp / 'b.fjm', w, [(0, 8, 0, 8), (top - 1, 3, 8, 2), (wrapped_j // w, 2, 10, 2)],
              low_b + high_b + landing)

    def run(path, native, no_flat=False):
        os.environ.pop('FLIPJUMP_NO_NATIVE', None)
        os.environ.pop('FLIPJUMP_NO_FLAT', None)
        if not native:
            os.environ['FLIPJUMP_NO_NATIVE'] = '1'
        if no_flat:
            os.environ['FLIPJUMP_NO_FLAT'] = '1'
        t = fjm_run.run(path)
        return t.termination_cause, t.op_counter, t.memory_error_address, t.storage_mode

    for name in ('a', 'b'):
        path = tmp / f'{name}.fjm'
        ref = run(path, native=False)
        nat = run(path, native=True)
        nat_paged = run(path, native=True, no_flat=True)
        print(f'image {name}: reference     -> {ref}')
        print(f'image {name}: native        -> {nat}')
        print(f'image {name}: native paged  -> {nat_paged}')
        for label, got in (('native', nat), ('native paged', nat_paged)):
            if ref[0] == TerminationCause.RuntimeMemoryError and got[0] != TerminationCause.RuntimeMemoryError:
                print(f'  VIOLATION ({label}): the op at the top of the address space has its jump word outside '
                      f'memory; ip + w overflowed 64 bits and the engine read low memory instead '
                      f'(ran {got[1]} ops, ended by {got[0]}) - the reference stops with a memory error.')
                bad = 1
    return bad


def main():
    if len(sys.argv) >= 3 and sys.argv[1] == '--child':
        sys.exit(child(sys.argv[2]))
    checkout = sys.argv[1]
    try:
        proc = subprocess.run([sys.executable, __file__, '--child', checkout], timeout=CHILD_TIMEOUT)
    except subprocess.TimeoutExpired:
        print('child timed out (the wrapped jump made the program run on) - counted as a violation')
        sys.exit(1)
    if proc.returncode not in (0, 1):
        print(f'child died with status {proc.returncode}')
        sys.exit(1)
    sys.exit(proc.returncode)


if __name__ == '__main__':
    main()
