"""differential fuzz among the native loops. usage: fuzz_diff.py <dir-with-_fjcore.so> <seed> <iters>"""
import sys, random, signal, os

sys.path.insert(0, sys.argv[1])
import _fjcore  # noqa

seed = int(sys.argv[2]); iters = int(sys.argv[3])


class Stop(Exception): pass
class EOF(Exception): pass


def on_alarm(signum, frame):
    raise Stop('alarm')


signal.signal(signal.SIGALRM, on_alarm)
PAGE = 1 << 14


def gen(rng):
    w = rng.choice([8, 16, 32, 64])
    ww = w.bit_length() - 1
    wmask = (1 << w) - 1
    top = (1 << w) >> ww
    segs = [(0, rng.choice([2, 4, 8, 16, 40]))]
    bases = [rng.choice([0, 20, 64, 100]), PAGE - 4, PAGE, 2 * PAGE - 2, 16 * PAGE - 3, 17 * PAGE - 1, top - 4, top - 2, top - 1, top,
             (1 << 58) - 2, 1 << 40]
    for _ in range(rng.choice([0, 1, 2, 3, 5])):
        s = (rng.choice(bases) + rng.randrange(0, 6)) % (1 << 63)
        L = rng.choice([0, 1, 2, 3, 4, 6, 9, PAGE, PAGE + 2])
        if os.environ.get('NO_OVERLAP') and any(s < s2 + max(L2, 1) and s2 < s + max(L, 1) for s2, L2 in segs):
            continue
        segs.append((s, L))
    words = {}

    def seg_word():
        s, L = rng.choice(segs)
        if L == 0:
            return s
        r = rng.random()
        if r < 0.4:
            return s + rng.randrange(0, min(L, 6))
        return s + L - 1 - rng.randrange(0, min(L, 6))

    def val():
        r = rng.random()
        if r < 0.45:
            a = seg_word()
            if rng.random() < 0.8:
                a &= ~1
            return (a << ww) & wmask
        if r < 0.6:
            return ((seg_word() << ww) + rng.randrange(0, w)) & wmask
        if r < 0.7:
            return rng.choice([2 * w, 2 * w + 1, 0, w, 0xBB67AE8584CAA73B, wmask, wmask - w + 1, wmask - 2 * w + 1]) & wmask
        if r < 0.8:
            return ((seg_word() + rng.choice([-1, 1, 2])) << ww) & wmask
        return rng.randrange(0, 1 << w)

    for s, L in segs:
        for i in range(min(L, 12)):
            if rng.random() < 0.8:
                words[s + i] = val()
        for i in range(max(0, L - 12), L):
            if rng.random() < 0.8:
                words[s + i] = val()
    inp = [rng.randrange(2) for _ in range(rng.choice([0, 3, 40]))]
    dev = [(rng.random() < 0.5, seg_word() + rng.choice([0, 0, 1, -1, 5]), val()) for _ in range(40)] if rng.random() < 0.5 else []
    start_ip = 0 if rng.random() < 0.7 else val()
    return w, segs, words, inp, dev, start_ip


def run_variant(prog, limit, no_flat, last_ops, measured):
    w, segs, words, inp, dev, start_ip = prog
    os.environ.pop('FLIPJUMP_NO_FLAT', None)
    os.environ.pop('FLIPJUMP_MEASURE_SPECULATION', None)
    if no_flat:
        os.environ['FLIPJUMP_NO_FLAT'] = '1'
    if measured:
        os.environ['FLIPJUMP_MEASURE_SPECULATION'] = '1'
    m = _fjcore.Memory(w, True, limit)
    for s, L in segs:
        m.add_segment(s, L)
    for a, v in words.items():
        m.set_word(a, v)
    pos = [0]
    out = []
    calls = [0]
    reads = []

    def device():
        calls[0] += 1
        if calls[0] > 400:
            raise Stop('budget')
        if dev:
            is_w, a, v = dev[calls[0] % len(dev)]
            a %= (1 << 64)
            if is_w:
                m.set_word(a, v)
            else:
                reads.append(m.get_word(a))

    def rb():
        device()
        if pos[0] >= len(inp):
            raise EOF()
        pos[0] += 1
        return inp[pos[0] - 1]

    def wb(b):
        device()
        out.append(bool(b))

    signal.setitimer(signal.ITIMER_REAL, 0.5)
    try:
        res = m.run(rb, wb, EOF, last_ops, start_ip)
        res = (res[0], res[1], res[2])
    except Stop as e:
        res = ('stop', str(e))
        if str(e) == 'alarm':
            res = ('stop', 'alarm')
    finally:
        signal.setitimer(signal.ITIMER_REAL, 0)
    final = tuple(m.get_word(a) for a in sorted(words))
    return res, tuple(out), tuple(reads), final, m.storage_mode


for it in range(iters):
    rng = random.Random(seed * 7919 + it)
    prog = gen(rng)
    variants = [('default', 0, False, 0, False), ('lim5', 5, False, 0, False), ('limP1', PAGE + 1, False, 0, False),
                ('paged', 0, True, 0, False), ('ring', 0, False, 3, False), ('ringpaged', 0, True, 3, False),
                ('measured', 0, False, 0, True), ('lim1', 1, False, 0, False)]
    results = {}
    for name, limit, nf, lo, me in variants:
        try:
            results[name] = run_variant(prog, limit, nf, lo, me)
        except ValueError as e:
            results[name] = ('valueerror', str(e))
    base = results['paged']
    for name, r in results.items():
        if r[:4] != base[:4] and not (r[0] == ('stop', 'alarm') or base[0] == ('stop', 'alarm')):
            print('DIFF seed', seed, 'it', it, name, 'vs paged')
            print('  prog', prog[0], prog[1], 'start', prog[5], 'ninp', len(prog[3]), 'dev', bool(prog[4]))
            print('  ', name, r[0], r[4] if len(r) > 4 else '')
            print('   paged', base[0])
            break
print('done', seed)
