"""API-level fuzz of _fjcore.Memory under ASan/UBSan. usage: fuzz_api.py <dir-with-_fjcore.so> <seed> <iters>"""
import sys, random, signal, os

sys.path.insert(0, sys.argv[1])
import _fjcore  # noqa

seed = int(sys.argv[2])
iters = int(sys.argv[3])


class Stop(Exception):
    pass


class EOF(Exception):
    pass


def on_alarm(signum, frame):
    raise Stop('alarm')


signal.signal(signal.SIGALRM, on_alarm)

PAGE = 1 << 14


def interesting_word(rng, w, limit):
    ww = w.bit_length() - 1
    top = (1 << w) >> ww
    base = rng.choice([0, 1, 2, 3, 4, limit - 2, limit - 1, limit, limit + 1, PAGE - 2, PAGE - 1, PAGE, PAGE + 1,
                       2 * PAGE - 1, 16 * PAGE, 16 * PAGE - 1, 17 * PAGE, top - 2, top - 1, top, top + 1,
                       (1 << 58) - 1, 1 << 58, (1 << 63), (1 << 64) - 1, (1 << 64) - 2, (1 << 64) - PAGE,
                       rng.randrange(0, 64), rng.randrange(0, 1 << 64)])
    return (base + rng.randrange(-3, 4)) % (1 << 64)


def one(rng, it):
    w = rng.choice([8, 16, 32, 64])
    ww = w.bit_length() - 1
    limit = rng.choice([0, 1, 2, 3, 4, 5, 8, 31, 64, PAGE - 1, PAGE, PAGE + 1, 3 * PAGE, 1 << 20, 1 << 40, (1 << 64) - 1])
    garbage_stop = rng.random() < 0.85
    m = _fjcore.Memory(w, garbage_stop, limit)
    eff_limit = limit or (1 << 23)
    segs = []
    nseg = rng.choice([1, 1, 2, 3, 5, 8, 40, 3000 if rng.random() < 0.05 else 4])
    # first op
    if rng.random() < 0.95:
        L = rng.choice([0, 1, 2, 2, 4, 16, eff_limit, eff_limit + 1, PAGE, PAGE + 3, 40])
        L = min(L, 1 << 18) if rng.random() < 0.9 else L
        try:
            m.add_segment(0, L)
            segs.append((0, L))
        except ValueError:
            pass
    for _ in range(nseg):
        s = interesting_word(rng, w, eff_limit)
        L = rng.choice([0, 1, 2, 3, 4, 7, 16, 100, PAGE, PAGE + 1, 5 * PAGE, 1 << 40, (1 << 64) - s, (1 << 64) - s - 1,
                        (1 << 64) - 1, rng.randrange(0, 64)]) % (1 << 64)
        try:
            m.add_segment(s, L)
            segs.append((s, L))
        except ValueError:
            pass

    def seg_word(rng_):
        if not segs:
            return interesting_word(rng_, w, eff_limit)
        s, L = rng_.choice(segs)
        if L == 0:
            return s
        r = rng_.random()
        if r < 0.3:
            return (s + rng_.randrange(0, min(L, 8))) % (1 << 64)
        if r < 0.6:
            return (s + L - 1 - rng_.randrange(0, min(L, 8))) % (1 << 64)
        return (s + rng_.randrange(0, L)) % (1 << 64)

    wmask = (1 << w) - 1

    def rand_value(rng_):
        r = rng_.random()
        if r < 0.35:
            # an op-aligned address inside a segment
            return ((seg_word(rng_) & ~1) << ww) & wmask
        if r < 0.55:
            return ((seg_word(rng_) << ww) + rng_.randrange(0, w)) & wmask
        if r < 0.65:
            return rng_.choice([2 * w, 2 * w + 1, 0, 1, w, 0xBB67AE8584CAA73B, 1 << 63, wmask, wmask - w + 1,
                                wmask - 2 * w + 1, (interesting_word(rng_, w, eff_limit) << ww)]) & wmask
        if r < 0.8:
            return (interesting_word(rng_, w, eff_limit) << ww | rng_.randrange(0, w)) & wmask
        return rng_.randrange(0, 1 << w)

    budget = [rng.choice([0, 1, 5, 50, 300])]

    def device_action():
        r = rng.random()
        try:
            if rng.random() < 0.03:
                base = interesting_word(rng, w, eff_limit)
                for k in range(rng.choice([20, 70, 200])):
                    a = (base + k * rng.choice([PAGE, 16 * PAGE, PAGE + 1])) % (1 << 64)
                    if rng.random() < 0.5:
                        m.get_word(a)
                    else:
                        m.set_word(a, rand_value(rng))
            if r < 0.3:
                m.get_word(interesting_word(rng, w, eff_limit) if rng.random() < 0.5 else seg_word(rng))
            elif r < 0.6:
                m.set_word(interesting_word(rng, w, eff_limit) if rng.random() < 0.5 else seg_word(rng),
                           rand_value(rng))
            elif r < 0.7:
                m.set_words(seg_word(rng), [rand_value(rng) for _ in range(rng.randrange(0, 6))])
            elif r < 0.75:
                s = interesting_word(rng, w, eff_limit)
                m.add_segment(s, rng.choice([0, 1, 2, 50, PAGE]))
                segs.append((s, 1))
            elif r < 0.77:
                m.allocated_bytes, m.storage_mode, m.last_run_op_count
        except (ValueError, MemoryError):
            pass

    def read_bit():
        budget[0] -= 1
        if budget[0] < 0:
            raise rng.choice([EOF, Stop])('done')
        device_action()
        return rng.choice([0, 1, True, False, None, 'x', 2])

    def write_bit(b):
        budget[0] -= 1
        if budget[0] < 0:
            raise Stop('done')
        device_action()

    # load data
    for _ in range(rng.choice([1, 3, 10, 60])):
        a = seg_word(rng) if rng.random() < 0.9 else interesting_word(rng, w, eff_limit)
        vals = [rand_value(rng) for _ in range(rng.choice([1, 2, 2, 4, 8, 30]))]
        try:
            if rng.random() < 0.5:
                m.set_words(a, vals)
            else:
                for i, v in enumerate(vals):
                    m.set_word((a + i) % (1 << 64), v)
        except (ValueError, MemoryError):
            pass
    for _ in range(rng.choice([0, 2, 10])):
        device_action()

    for run_i in range(rng.choice([1, 1, 2, 3])):
        budget[0] = rng.choice([0, 1, 5, 50, 300])
        start_ip = 0 if rng.random() < 0.6 else (rand_value(rng) if rng.random() < 0.8 else rng.randrange(0, 1 << 64))
        last_ops = rng.choice([0, 0, 0, 1, 2, 7, 1000])
        signal.setitimer(signal.ITIMER_REAL, 0.3)
        try:
            res = m.run(read_bit, write_bit, EOF, last_ops, start_ip)
        except (Stop, ValueError, MemoryError, TypeError):
            res = None
        finally:
            signal.setitimer(signal.ITIMER_REAL, 0)
        for _ in range(rng.choice([0, 2, 10])):
            device_action()
    if rng.random() < 0.1:
        m.__init__(w)
        try:
            m.add_segment(0, 4)
            m.run(read_bit, write_bit, EOF)
        except (Stop, ValueError, MemoryError, TypeError):
            pass


for it in range(iters):
    rng = random.Random(seed * 1000003 + it)
    sys.stderr.write(f'\rit {it}')
    with open(f'/tmp/hunt_C11/last_{seed}.txt', 'w') as fh:
        fh.write(str(it))
    one(rng, it)
print('ok', seed)
