#!/usr/bin/env python
"""
C13 repro 1: the stl-prefix parse cache serves a stale parse of a library file whose text
changed but whose (mtime_ns, size) did not.

usage: /venv/bin/python repro_1.py <path-to-checkout>
exit 1 = violation present (in-process probe bytes != fresh-process probe bytes), 0 = not present.

No FlipJump program is run (assembly only); every child process has a timeout.
The packaged stl is not touched: the cacheable directory is redirected to a temp directory
through fj_parser._STL_DIR ("module-level so tests can redirect it").
"""
import contextlib
import io
import json
import os
import subprocess
import sys
import tempfile
from pathlib import Path

CHILD_TIMEOUT = 120


def load(checkout: str):
    sys.path.insert(0, checkout)
    import flipjump
    assert Path(flipjump.__file__).resolve().is_relative_to(Path(checkout).resolve()), flipjump.__file__
    from flipjump.assembler import assembler, fj_parser
    from flipjump.fjm.fjm_writer import Writer
    from flipjump.fjm.fjm_consts import FJMVersion
    return assembler, fj_parser, Writer, FJMVersion


def assemble_bytes(checkout: str, stl_dir: str, lib: str, prog: str, out_dir: str):
    """assemble [("s1", lib), ("f1", prog)] at w=64, version 1; return (fjm bytes, fjd bytes) as hex."""
    assembler, fj_parser, Writer, FJMVersion = load(checkout)
    fj_parser._STL_DIR = Path(stl_dir).resolve()
    fjm, fjd = Path(out_dir) / 'o.fjm', Path(out_dir) / 'o.fjd'
    with contextlib.redirect_stdout(io.StringIO()):
        writer = Writer(fjm, 64, FJMVersion.NormalVersion)
        assembler.assemble(
            [('s1', Path(lib)), ('f1', Path(prog))], 64, writer,
            warning_as_errors=True, debugging_file_path=fjd, print_time=False,
        )
    return fjm.read_bytes().hex(), fjd.read_bytes().hex()


def main() -> int:
    if len(sys.argv) >= 3 and sys.argv[2] == '--child':
        checkout, _, stl_dir, lib, prog, out_dir = sys.argv[1:7]
        print('RESULT' + json.dumps(assemble_bytes(checkout, stl_dir, lib, prog, out_dir)))
        return 0

    checkout = os.path.abspath(sys.argv[1])
    with tempfile.TemporaryDirectory(prefix='c13_r1_') as tmp:
        stl_dir = os.path.join(tmp, 'stl'); os.mkdir(stl_dir)
        lib = os.path.join(stl_dir, 'lib.fj')
        prog = os.path.join(tmp, 'prog.fj')
        text_a = 'def lib_op {\n    0x40;\n}\n'
        text_b = 'def lib_op {\n    0x80;\n}\n'   # same length, different flip address
        assert len(text_a) == len(text_b)
        Path(prog).write_text('lib_op\nend:\n;end\n')

        def out_dir(name):
            d = os.path.join(tmp, name); os.mkdir(d); return d

        # history: assemble with library text A (fills the cache)
        Path(lib).write_text(text_a)
        st = os.stat(lib)
        hist = assemble_bytes(checkout, stl_dir, lib, prog, out_dir('h'))

        # the library text changes to B; size is equal and mtime is preserved (cp -p / rsync -t /
        # a coarse-mtime filesystem within one tick) - emulated with utime
        Path(lib).write_text(text_b)
        os.utime(lib, ns=(st.st_atime_ns, st.st_mtime_ns))
        assert os.stat(lib).st_mtime_ns == st.st_mtime_ns and os.stat(lib).st_size == st.st_size

        # probe in this process
        probe = assemble_bytes(checkout, stl_dir, lib, prog, out_dir('p'))

        # the same probe in a fresh process
        child = subprocess.run(
            [sys.executable, os.path.abspath(__file__), checkout, '--child', stl_dir, lib, prog, out_dir('f')],
            capture_output=True, text=True, timeout=CHILD_TIMEOUT,
        )
        lines = [line for line in child.stdout.splitlines() if line.startswith('RESULT')]
        if not lines:
            print('the fresh-process probe did not finish:\n' + child.stderr[-2000:])
            return 2
        fresh = tuple(json.loads(lines[0][len('RESULT'):]))

        print('source texts of the probe: lib.fj = %r, prog.fj = %r' % (text_b, Path(prog).read_text()))
        print('in-process probe  .fjm:', probe[0])
        print('fresh-process     .fjm:', fresh[0])
        if tuple(probe) != fresh:
            print('VIOLATION: the probe assembled after a history differs from the probe assembled in a fresh '
                  'process' + (' (it equals the output for the OLD library text)' if tuple(probe) == tuple(hist) else ''))
            return 1
        print('ok: identical bytes')
        return 0


if __name__ == '__main__':
    sys.exit(main())
