"""
C02 / finding 2: `reserve <negative>` is accepted. When it moves the current address back to the start
of the current (sub)segment, the assembler (a) silently drops the ops written so far, or (b) writes the
old and the new ops one after the other while the labels say they overlap - an impossible layout that
must be rejected.
usage: /venv/bin/python repro_2.py <path-to-checkout>
"""
# ---- helpers (assemble an inline no-stl source, read the result back) ----
import contextlib
import io
import signal
import sys
import tempfile
from pathlib import Path


def setup(argv):
    if len(argv) != 2:
        print(f'usage: {argv[0]} <path-to-checkout>')
        sys.exit(2)
    checkout = str(Path(argv[1]).resolve())
    sys.path.insert(0, checkout)
    import flipjump

    if not str(Path(flipjump.__file__).resolve()).startswith(checkout):
        print(f'flipjump was imported from {flipjump.__file__}, not from {checkout}')
        sys.exit(2)
    # nothing here executes a FlipJump program (assemble + static inspection only); the alarm is a hard outer bound.
    signal.signal(signal.SIGALRM, lambda *_: (print('TIMEOUT'), sys.exit(2)))
    signal.alarm(120)


def assemble(source, w=64, version=1):
    """returns (reader, labels, error_string). error_string is None when the program was accepted."""
    from flipjump.assembler import assembler
    from flipjump.fjm.fjm_consts import FJMVersion
    from flipjump.fjm.fjm_reader import GarbageHandling, Reader
    from flipjump.fjm.fjm_writer import Writer
    from flipjump.utils.exceptions import FlipJumpException
    from flipjump.utils.functions import load_debugging_labels

    with tempfile.TemporaryDirectory(prefix='c02_repro_') as tmp:
        fj = Path(tmp) / 'p.fj'
        fj.write_text(source)
        fjm, dbg = Path(tmp) / 'p.fjm', Path(tmp) / 'p.dbg'
        writer = Writer(fjm, w, FJMVersion(version))
        try:
            with contextlib.redirect_stdout(io.StringIO()):
                assembler.assemble(
                    [('f1', fj)], w, writer, debugging_file_path=dbg, print_time=False, warning_as_errors=False
                )
        except FlipJumpException as e:
            return None, None, f'{type(e).__name__}: {str(e).strip().splitlines()[0] if str(e).strip() else ""}'
        return Reader(fjm, garbage_handling=GarbageHandling.Continue), load_debugging_labels(dbg), None


def word(reader, word_address):
    """the assembled word, or None when no segment holds it."""
    if word_address in reader.memory:
        return reader.memory[word_address]
    for start, end in reader.zeros_boundaries:
        if start <= word_address < end:
            return 0
    return None


# ---- the reproducer ----
setup(sys.argv)
bad = []

for w in (8, 16, 32, 64):
    for version in (0, 1, 2, 3):
        seg = 8 * w  # word 8
        # (a) the op `5;` at address seg vanishes from the file
        src_a = f';\nsegment {seg}\n5;\nreserve 0-2*w\n'
        reader, labels, err = assemble(src_a, w, version)
        if err is None:
            bad.append(
                f'w={w} v={version}: accepted {src_a!r}; the statement `5;` at address {seg} assembled to '
                f'{word(reader, seg // w)};{word(reader, seg // w + 1)} (segments: '
                f'{[(s.segment_start, s.segment_length) for s in reader.memory_segments]})'
            )
        # (b) old ops + new ops concatenated, label x and the "reserved" range are wrong
        src_b = f';\nsegment {seg}\n1;\n2;\nreserve 0-4*w\nx:\n3;x\nreserve 4*w\n'
        reader, labels, err = assemble(src_b, w, version)
        if err is None:
            x = labels['x']
            at_x = (word(reader, x // w), word(reader, x // w + 1))
            reserved = [word(reader, (x + 2 * w) // w + i) for i in range(4)]
            bad.append(
                f'w={w} v={version}: accepted {src_b!r}; label x={x} but the words at x are {at_x} '
                f'(statement is `3;x`), and the reserved range after it holds {reserved} instead of zeros'
            )

if bad:
    print('VIOLATION (C02: an impossible layout - statements overlapping - is assembled instead of rejected):')
    for line in bad[:6]:
        print('  ' + line)
    print(f'  ... {len(bad)} accepted programs in total')
    sys.exit(1)
print('ok: negative reserve is rejected')
sys.exit(0)
