"""
C02 / finding 4: every `segment` statement silently (re)defines the label `_.wflip_area_start_<k>`.
That is a name a program can declare itself (label `wflip_area_start_0` in namespace `_`):
the user's label is overwritten (declared before the segment) or the assembler dies with
"Unknown exception ... please report this bug" (declared after it).
usage: /venv/bin/python repro_4.py <path-to-checkout>
"""
# ---- helpers (assemble an inline no-stl source, read the result back) ----
import contextlib
import io
import signal
import sys
import tempfile
from pathlib import Path


def setup(argv):
    if len(argv) != 2:
        print(f'usage: {argv[0]} <path-to-checkout>')
        sys.exit(2)
    checkout = str(Path(argv[1]).resolve())
    sys.path.insert(0, checkout)
    import flipjump

    if not str(Path(flipjump.__file__).resolve()).startswith(checkout):
        print(f'flipjump was imported from {flipjump.__file__}, not from {checkout}')
        sys.exit(2)
    # nothing here executes a FlipJump program (assemble + static inspection only); the alarm is a hard outer bound.
    signal.signal(signal.SIGALRM, lambda *_: (print('TIMEOUT'), sys.exit(2)))
    signal.alarm(120)


def assemble(source, w=64, version=1):
    """returns (reader, labels, error_string). error_string is None when the program was accepted."""
    from flipjump.assembler import assembler
    from flipjump.fjm.fjm_consts import FJMVersion
    from flipjump.fjm.fjm_reader import GarbageHandling, Reader
    from flipjump.fjm.fjm_writer import Writer
    from flipjump.utils.exceptions import FlipJumpException
    from flipjump.utils.functions import load_debugging_labels

    with tempfile.TemporaryDirectory(prefix='c02_repro_') as tmp:
        fj = Path(tmp) / 'p.fj'
        fj.write_text(source)
        fjm, dbg = Path(tmp) / 'p.fjm', Path(tmp) / 'p.dbg'
        writer = Writer(fjm, w, FJMVersion(version))
        try:
            with contextlib.redirect_stdout(io.StringIO()):
                assembler.assemble(
                    [('f1', fj)], w, writer, debugging_file_path=dbg, print_time=False, warning_as_errors=False
                )
        except FlipJumpException as e:
            return None, None, f'{type(e).__name__}: {str(e).strip().splitlines()[0] if str(e).strip() else ""}'
        return Reader(fjm, garbage_handling=GarbageHandling.Continue), load_debugging_labels(dbg), None


def word(reader, word_address):
    """the assembled word, or None when no segment holds it."""
    if word_address in reader.memory:
        return reader.memory[word_address]
    for start, end in reader.zeros_boundaries:
        if start <= word_address < end:
            return 0
    return None


# ---- the reproducer ----
setup(sys.argv)
bad = []

w = 32
src = (
    'ns _ {\n'
    '  wflip_area_start_0:\n'  # address 0
    '  ;\n'
    '}\n'
    ';\n'
    'segment 0x400\n'
    ';_.wflip_area_start_0\n'  # must be a jump to address 0
)
reader, labels, err = assemble(src, w)
if err is not None:
    bad.append(f'rejected: {err}')
else:
    if labels.get('_.wflip_area_start_0') != 0:
        bad.append(
            f"label _.wflip_area_start_0 is declared before the op at address 0, "
            f"but the label table says {labels.get('_.wflip_area_start_0')}"
        )
    jump = word(reader, 0x400 // w + 1)
    if jump != 0:
        bad.append(f'`;_.wflip_area_start_0` at 0x400 assembled jump word {jump}, expected 0')

src_after = ';\nsegment 0x400\nns _ {\n  wflip_area_start_0:\n  ;_.wflip_area_start_0\n}\n'
reader, labels, err = assemble(src_after, w)
if err is not None:
    bad.append(f'label declared after the segment statement: {err}')
elif labels.get('_.wflip_area_start_0') != 0x400:
    bad.append(f"declared after: label is {labels.get('_.wflip_area_start_0')}, expected {0x400}")

if bad:
    print('VIOLATION (C02: a label is not the address of the statement that follows it):')
    for line in bad:
        print('  ' + line)
    sys.exit(1)
print('ok')
sys.exit(0)
