"""
C02 / finding 3: `reserve 0` (or a `pad` / `reserve 0` after `segment 0`) at address 0 makes a valid
program fail with "Not enough space with the N-bits memory-width", while the same statement at any other
address is fine (it reserves nothing).
usage: /venv/bin/python repro_3.py <path-to-checkout>
"""
# ---- helpers (assemble an inline no-stl source, read the result back) ----
import contextlib
import io
import signal
import sys
import tempfile
from pathlib import Path


def setup(argv):
    if len(argv) != 2:
        print(f'usage: {argv[0]} <path-to-checkout>')
        sys.exit(2)
    checkout = str(Path(argv[1]).resolve())
    sys.path.insert(0, checkout)
    import flipjump

    if not str(Path(flipjump.__file__).resolve()).startswith(checkout):
        print(f'flipjump was imported from {flipjump.__file__}, not from {checkout}')
        sys.exit(2)
    # nothing here executes a FlipJump program (assemble + static inspection only); the alarm is a hard outer bound.
    signal.signal(signal.SIGALRM, lambda *_: (print('TIMEOUT'), sys.exit(2)))
    signal.alarm(120)


def assemble(source, w=64, version=1):
    """returns (reader, labels, error_string). error_string is None when the program was accepted."""
    from flipjump.assembler import assembler
    from flipjump.fjm.fjm_consts import FJMVersion
    from flipjump.fjm.fjm_reader import GarbageHandling, Reader
    from flipjump.fjm.fjm_writer import Writer
    from flipjump.utils.exceptions import FlipJumpException
    from flipjump.utils.functions import load_debugging_labels

    with tempfile.TemporaryDirectory(prefix='c02_repro_') as tmp:
        fj = Path(tmp) / 'p.fj'
        fj.write_text(source)
        fjm, dbg = Path(tmp) / 'p.fjm', Path(tmp) / 'p.dbg'
        writer = Writer(fjm, w, FJMVersion(version))
        try:
            with contextlib.redirect_stdout(io.StringIO()):
                assembler.assemble(
                    [('f1', fj)], w, writer, debugging_file_path=dbg, print_time=False, warning_as_errors=False
                )
        except FlipJumpException as e:
            return None, None, f'{type(e).__name__}: {str(e).strip().splitlines()[0] if str(e).strip() else ""}'
        return Reader(fjm, garbage_handling=GarbageHandling.Continue), load_debugging_labels(dbg), None


def word(reader, word_address):
    """the assembled word, or None when no segment holds it."""
    if word_address in reader.memory:
        return reader.memory[word_address]
    for start, end in reader.zeros_boundaries:
        if start <= word_address < end:
            return 0
    return None


# ---- the reproducer ----
setup(sys.argv)
bad = []

for w in (8, 16, 32, 64):
    for version in (0, 1, 2, 3):
        # control: reserve 0 at a non-zero address
        reader, _, err = assemble(';\nreserve 0\n7;0\n', w, version)
        assert err is None and (word(reader, 2), word(reader, 3)) == (7, 0), f'control failed: {err}'

        reader, _, err = assemble('reserve 0\n7;0\n', w, version)
        if err is not None:
            bad.append(f'w={w} v={version}: `reserve 0` + `7;0` rejected: {err}')
        elif (word(reader, 0), word(reader, 1)) != (7, 0):
            bad.append(f'w={w} v={version}: wrong words {word(reader, 0)};{word(reader, 1)}')

        # an empty re-opened segment 0, after the real code
        reader, _, err = assemble('7;0\nsegment 8*w\n;0\nsegment 0\nreserve 0\n', w, version)
        if err is not None:
            bad.append(f'w={w} v={version}: trailing empty `segment 0` + `reserve 0` rejected: {err}')

if bad:
    print('VIOLATION (C02: a program with a possible layout is rejected):')
    for line in bad[:8]:
        print('  ' + line)
    print(f'  ... {len(bad)} in total')
    sys.exit(1)
print('ok: reserve 0 at address 0 assembles')
sys.exit(0)
