"""
C02 / finding 1: two string literals on one source line are lexed as ONE string
(an unescaped '"' is accepted as a string character), so the assembled word is not
the value of the written expression - silently.
usage: /venv/bin/python repro_1.py <path-to-checkout>
"""
# ---- helpers (assemble an inline no-stl source, read the result back) ----
import contextlib
import io
import signal
import sys
import tempfile
from pathlib import Path


def setup(argv):
    if len(argv) != 2:
        print(f'usage: {argv[0]} <path-to-checkout>')
        sys.exit(2)
    checkout = str(Path(argv[1]).resolve())
    sys.path.insert(0, checkout)
    import flipjump

    if not str(Path(flipjump.__file__).resolve()).startswith(checkout):
        print(f'flipjump was imported from {flipjump.__file__}, not from {checkout}')
        sys.exit(2)
    # nothing here executes a FlipJump program (assemble + static inspection only); the alarm is a hard outer bound.
    signal.signal(signal.SIGALRM, lambda *_: (print('TIMEOUT'), sys.exit(2)))
    signal.alarm(120)


def assemble(source, w=64, version=1):
    """returns (reader, labels, error_string). error_string is None when the program was accepted."""
    from flipjump.assembler import assembler
    from flipjump.fjm.fjm_consts import FJMVersion
    from flipjump.fjm.fjm_reader import GarbageHandling, Reader
    from flipjump.fjm.fjm_writer import Writer
    from flipjump.utils.exceptions import FlipJumpException
    from flipjump.utils.functions import load_debugging_labels

    with tempfile.TemporaryDirectory(prefix='c02_repro_') as tmp:
        fj = Path(tmp) / 'p.fj'
        fj.write_text(source)
        fjm, dbg = Path(tmp) / 'p.fjm', Path(tmp) / 'p.dbg'
        writer = Writer(fjm, w, FJMVersion(version))
        try:
            with contextlib.redirect_stdout(io.StringIO()):
                assembler.assemble(
                    [('f1', fj)], w, writer, debugging_file_path=dbg, print_time=False, warning_as_errors=False
                )
        except FlipJumpException as e:
            return None, None, f'{type(e).__name__}: {str(e).strip().splitlines()[0] if str(e).strip() else ""}'
        return Reader(fjm, garbage_handling=GarbageHandling.Continue), load_debugging_labels(dbg), None


def word(reader, word_address):
    """the assembled word, or None when no segment holds it."""
    if word_address in reader.memory:
        return reader.memory[word_address]
    for start, end in reader.zeros_boundaries:
        if start <= word_address < end:
            return 0
    return None


# ---- the reproducer ----
setup(sys.argv)
bad = []

for w in (16, 64):
    for version in (0, 1, 2, 3):
        # (a) "A"+"B" is 0x41 + 0x42 = 0x83
        reader, _, err = assemble('"A"+"B";0\n', w, version)
        if err is not None:
            bad.append(f'w={w} v={version}: `"A"+"B";0` rejected: {err}')
        elif word(reader, 0) != 0x83:
            bad.append(f'w={w} v={version}: `"A"+"B";0` assembled flip word {hex(word(reader, 0))}, expected 0x83')

# (b) the same through a constant
reader, _, err = assemble('x = "A" + "B"\n;x & 0xffff\n', 64)
if err is not None:
    bad.append(f'`x = "A" + "B"` rejected: {err}')
elif word(reader, 1) != 0x83:
    bad.append(f'`x = "A" + "B"` / `;x & 0xffff`: jump word {hex(word(reader, 1))}, expected 0x83')

# (c) flip "A", jump "B"
reader, _, err = assemble('"A";"B"\n', 64)
if err is not None:
    bad.append(f'`"A";"B"` rejected: {err}')
elif (word(reader, 0), word(reader, 1)) != (0x41, 0x42):
    bad.append(f'`"A";"B"` assembled {word(reader, 0)};{word(reader, 1)}')

# (d) wflip "A", "B", 0  must flip bit 1 and bit 6 of the word at 0x41 (2 ops); it becomes a v=0 wflip
reader, _, err = assemble('wflip "A", "B", 0\n', 64)
if err is not None:
    bad.append(f'`wflip "A", "B", 0` rejected: {err}')
elif word(reader, 0) != 0x41 + 1:
    bad.append(f'`wflip "A", "B", 0`: first op flips {hex(word(reader, 0))}, expected {hex(0x41 + 1)} (lowest set bit of "B")')

# control: one string per line works
reader, _, err = assemble('"A";0\n', 64)
assert err is None and word(reader, 0) == 0x41, 'control failed'

if bad:
    print('VIOLATION (C02: the assembled word is not the value of the expression):')
    for line in bad:
        print('  ' + line)
    sys.exit(1)
print('ok: string literals on one line are separate tokens')
sys.exit(0)
