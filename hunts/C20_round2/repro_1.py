#!/usr/bin/env python
"""
C20 / finding 1: the fj command creates a temporary directory whose NAME contains the basenames of
all the given files - unconditionally, in every flow (one-step, --asm, --run). Once the joined
basenames are longer than ~226 characters (many files, or one long file name) mkdtemp fails with
"File name too long", so every fj route fails on sources/fjm files that the Python API
(flipjump.assemble + flipjump.run) assembles and runs fine.

usage: python repro_1.py <path-to-checkout>
exit 1 = violation present, 0 = not present, 2 = harness problem.
"""
import os
import shutil
import subprocess
import sys
import tempfile
from pathlib import Path

CHECKOUT = os.path.realpath(sys.argv[1]) if len(sys.argv) > 1 else os.getcwd()
sys.path.insert(0, CHECKOUT)
TIMEOUT = 180

PRELUDE = (
    "import sys, os; sys.path.insert(0, sys.argv[1]); import flipjump; "
    "assert os.path.realpath(flipjump.__file__).startswith(os.path.realpath(sys.argv[1])), flipjump.__file__; "
    "ARGS = sys.argv[2:]\n"
)
CLI_CODE = PRELUDE + "from flipjump.flipjump_cli import assemble_run_according_to_cmd_line_args as f\nf(cmd_line_args=ARGS)\n"
API_ASM_RUN_CODE = PRELUDE + """
from pathlib import Path
from flipjump import FixedIO
out = Path(ARGS[0]); srcs = [Path(p) for p in ARGS[1:]]
flipjump.assemble(srcs, out, use_stl=False, warning_as_errors=False, print_time=False)
io = FixedIO(b'')
t = flipjump.run(out, io_device=io, print_time=False, print_termination=False)
print('API', str(t.termination_cause), io.get_output())
"""
API_RUN_CODE = PRELUDE + """
from pathlib import Path
from flipjump import FixedIO
io = FixedIO(b'')
t = flipjump.run(Path(ARGS[0]), io_device=io, print_time=False, print_termination=False)
print('API', str(t.termination_cause), io.get_output())
"""

# prints 'a' (0x61) and finishes by looping. no stl needed. 10 ops.
PROGRAM = """  ;cs
IO:
  ;0
cs:
  IO+1;
  IO+0;
  IO+0;
  IO+0;
  IO+0;
  IO+1;
  IO+1;
  IO+0;
l:
  ;l
"""


def child(code, args, cwd):
    p = subprocess.run(
        [sys.executable, '-c', code, CHECKOUT] + [str(a) for a in args],
        cwd=cwd, input=b'', capture_output=True, timeout=TIMEOUT,
    )
    return p.returncode, p.stdout.decode('latin1'), p.stderr.decode('latin1')


def last_line(text):
    lines = [line for line in text.strip().splitlines() if line.strip()]
    return lines[-1] if lines else ''


def main():
    work = Path(tempfile.mkdtemp(prefix='c20r1_'))
    problems = []
    try:
        # ---- case A: 31 ordinary, short-named source files ----
        (work / 'main.fj').write_text(PROGRAM)
        mods = []
        for i in range(1, 31):
            m = work / f'mod_{i:02}.fj'
            m.write_text('\n')
            mods.append(m.name)
        files = ['main.fj'] + mods

        rc, out, err = child(API_ASM_RUN_CODE, ['api.fjm'] + files, work)
        if rc != 0 or "API looping b'a'" not in out:
            print('harness problem: the API route itself failed:', rc, out, err[-400:])
            return 2
        print('[A] API assemble()+run() of 31 files:', last_line(out))

        rc, out, err = child(CLI_CODE, ['--asm', '-o', 'cli.fjm', '--no_stl', '-s'] + files, work)
        print('[A] fj --asm -o cli.fjm (31 files): rc =', rc, '|', last_line(err)[:150])
        if rc != 0 or not (work / 'cli.fjm').is_file():
            problems.append('fj --asm -o fails on 31 short-named files (the API assembles them)')
        elif (work / 'cli.fjm').read_bytes() != (work / 'api.fjm').read_bytes():
            problems.append('fj --asm -o bytes differ from the API bytes')

        rc, out, err = child(CLI_CODE, ['--no_stl', '-s'] + files, work)
        print('[A] fj (one-step, 31 files): rc =', rc, '| stdout =', repr(out), '|', last_line(err)[:150])
        if rc != 0 or out != 'a':
            problems.append("fj one-step flow fails on 31 short-named files (API prints b'a', looping)")

        # ---- case B: one source file / one .fjm with a long (but legal, < 255) name ----
        long_fj = 'p' * 230 + '.fj'
        long_fjm = 'q' * 230 + '.fjm'
        (work / long_fj).write_text(PROGRAM)
        rc, out, err = child(API_ASM_RUN_CODE, [long_fjm, long_fj], work)
        if rc != 0 or "API looping b'a'" not in out:
            print('harness problem: the API route failed on the long name:', rc, out, err[-400:])
            return 2
        print('[B] API assemble()+run() of a 233-char file name:', last_line(out))

        rc, out, err = child(CLI_CODE, ['--asm', '-o', 'long.fjm', '--no_stl', '-s', long_fj], work)
        print('[B] fj --asm (long source name): rc =', rc, '|', last_line(err)[:120])
        if rc != 0:
            problems.append('fj --asm -o fails on a source file with a 233-char name (the API assembles it)')

        rc, out, err = child(CLI_CODE, ['--run', '-s', long_fjm], work)
        print('[B] fj --run (long .fjm name): rc =', rc, '| stdout =', repr(out), '|', last_line(err)[:120])
        rc2, out2, _ = child(API_RUN_CODE, [long_fjm], work)
        if (rc != 0 or out != 'a') and rc2 == 0 and "API looping b'a'" in out2:
            problems.append('fj --run fails on a .fjm file with a 234-char name (flipjump.run() runs it)')
    finally:
        shutil.rmtree(work, ignore_errors=True)

    if problems:
        print('\nVIOLATION (C20: the routes must give the same .fjm / output / termination):')
        for p in problems:
            print('  -', p)
        return 1
    print('\nno violation: all the fj routes agree with the API.')
    return 0


if __name__ == '__main__':
    sys.exit(main())
