#!/usr/bin/env python
"""
C20 / finding 4: the assemble side of the fj command accepts the output name with
`outfile.endswith('.fjm')`, the run side checks `Path(file).suffix == '.fjm'`. For an output file named
exactly `.fjm` (e.g. `-o build/.fjm`) the two disagree (Path('.fjm').suffix == ''):
  - one-step flow `fj prog.fj -o build/.fjm`: assembles and writes the file, then refuses to run it
    (exit 2, "file build/.fjm is not a .fjm file"), no program output;
  - two-step flow: `fj --asm -o build/.fjm` succeeds, `fj --run build/.fjm` is refused;
  - the API (flipjump.assemble + flipjump.run with the same path) assembles and runs it.
So the three routes do not give the same program output / termination for the same sources and options.

usage: python repro_4.py <path-to-checkout>
exit 1 = violation present, 0 = not present, 2 = harness problem.
"""
import os
import shutil
import subprocess
import sys
import tempfile
from pathlib import Path

CHECKOUT = os.path.realpath(sys.argv[1]) if len(sys.argv) > 1 else os.getcwd()
sys.path.insert(0, CHECKOUT)
TIMEOUT = 180

PRELUDE = (
    "import sys, os; sys.path.insert(0, sys.argv[1]); import flipjump; "
    "assert os.path.realpath(flipjump.__file__).startswith(os.path.realpath(sys.argv[1])), flipjump.__file__; "
    "ARGS = sys.argv[2:]\n"
)
CLI_CODE = PRELUDE + "from flipjump.flipjump_cli import assemble_run_according_to_cmd_line_args as f\nf(cmd_line_args=ARGS)\n"
API_CODE = PRELUDE + """
from pathlib import Path
from flipjump import FixedIO
out = Path(ARGS[0])
flipjump.assemble([Path(ARGS[1])], out, use_stl=False, warning_as_errors=False, print_time=False)
io = FixedIO(b'')
t = flipjump.run(out, io_device=io, print_time=False, print_termination=False)
print('API', str(t.termination_cause), io.get_output())
"""

# prints 'a' and finishes by looping (10 ops).
PROGRAM = """  ;cs
IO:
  ;0
cs:
  IO+1;
  IO+0;
  IO+0;
  IO+0;
  IO+0;
  IO+1;
  IO+1;
  IO+0;
l:
  ;l
"""


def child(code, args, cwd):
    p = subprocess.run(
        [sys.executable, '-c', code, CHECKOUT] + [str(a) for a in args],
        cwd=cwd, input=b'', capture_output=True, timeout=TIMEOUT,
    )
    return p.returncode, p.stdout.decode('latin1'), p.stderr.decode('latin1')


def err_last(err):
    return (err.strip().splitlines() or [''])[-1][:140]


def main():
    work = Path(tempfile.mkdtemp(prefix='c20r4_'))
    problems = []
    try:
        (work / 'prog.fj').write_text(PROGRAM)
        for d in ('one', 'two', 'api', 'ref'):
            (work / d).mkdir()

        # reference: an ordinary output name works in the one-step flow
        rc, out, err = child(CLI_CODE, ['prog.fj', '--no_stl', '-s', '-o', 'ref/x.fjm'], work)
        if rc != 0 or out != 'a':
            print('harness problem: the reference one-step flow failed', rc, out, err[-300:])
            return 2
        print("reference  fj prog.fj -o ref/x.fjm      -> rc = 0, stdout = 'a'")

        # API route, output file named '.fjm'
        rc, out, err = child(API_CODE, ['api/.fjm', 'prog.fj'], work)
        api_ok = rc == 0 and "API looping b'a'" in out
        print(f'API        assemble(-> api/.fjm) + run()  -> rc = {rc}, {out.strip()!r}')
        if not api_ok:
            print('harness problem: the API route failed', err[-300:])
            return 2

        # one-step flow, output file named '.fjm'
        rc1, out1, err1 = child(CLI_CODE, ['prog.fj', '--no_stl', '-s', '-o', 'one/.fjm'], work)
        written1 = (work / 'one' / '.fjm').is_file()
        print(f'one-step   fj prog.fj -o one/.fjm       -> rc = {rc1}, stdout = {out1!r}, file written: {written1}; '
              f'{err_last(err1)}')

        # two-step flow
        rc2a, out2a, err2a = child(CLI_CODE, ['--asm', 'prog.fj', '--no_stl', '-s', '-o', 'two/.fjm'], work)
        written2 = (work / 'two' / '.fjm').is_file()
        print(f'two-step   fj --asm -o two/.fjm         -> rc = {rc2a}, file written: {written2}; {err_last(err2a)}')
        rc2b, out2b, err2b = (None, '', '')
        if written2:
            rc2b, out2b, err2b = child(CLI_CODE, ['--run', '-s', 'two/.fjm'], work)
            print(f'two-step   fj --run two/.fjm            -> rc = {rc2b}, stdout = {out2b!r}; {err_last(err2b)}')

        # the property: the assemble side and the run side of every route must agree.
        # (a consistent refusal at assemble time - no file written, error - would be fine too.)
        if written1 and (rc1 != 0 or out1 != 'a'):
            problems.append("one-step flow: the .fjm was assembled and written, then the flow refused to run it "
                            "(the API prints b'a' and finishes by looping)")
        if written2 and (rc2a == 0) and (rc2b != 0 or out2b != 'a'):
            problems.append('two-step flow: `fj --asm -o two/.fjm` succeeded but `fj --run two/.fjm` is refused')
        if written1 and written2 and api_ok:
            same = (work / 'one' / '.fjm').read_bytes() == (work / 'two' / '.fjm').read_bytes() \
                == (work / 'api' / '.fjm').read_bytes()
            print('the three written files are byte-identical:', same)
    finally:
        shutil.rmtree(work, ignore_errors=True)

    if problems:
        print('\nVIOLATION (C20: same program output and termination over the three routes):')
        for p in problems:
            print('  -', p)
        return 1
    print('\nno violation.')
    return 0


if __name__ == '__main__':
    sys.exit(main())
