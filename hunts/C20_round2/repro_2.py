#!/usr/bin/env python
"""
C20 / finding 2: the Python API wrappers (flipjump.assemble / assemble_and_run / ...) are not
option-equivalent to the fj command:
  (a) they have no way to pass --lzma_preset (nor --flags) to the fjm Writer, so for
      `fj --asm -o x.fjm --lzma_preset N` (N != 6) / `-f F` (F != 0) no API call yields the same bytes;
  (b) their default is warning_as_errors=True while the fj default is --werror off, so the same
      sources with default options run under `fj prog.fj` but raise under assemble_and_run([prog]).

usage: python repro_2.py <path-to-checkout>
exit 1 = violation present, 0 = not present, 2 = harness problem.
"""
import os
import shutil
import subprocess
import sys
import tempfile
from pathlib import Path

CHECKOUT = os.path.realpath(sys.argv[1]) if len(sys.argv) > 1 else os.getcwd()
sys.path.insert(0, CHECKOUT)
TIMEOUT = 180

PRELUDE = (
    "import sys, os; sys.path.insert(0, sys.argv[1]); import flipjump; "
    "assert os.path.realpath(flipjump.__file__).startswith(os.path.realpath(sys.argv[1])), flipjump.__file__; "
    "ARGS = sys.argv[2:]\n"
)
CLI_CODE = PRELUDE + "from flipjump.flipjump_cli import assemble_run_according_to_cmd_line_args as f\nf(cmd_line_args=ARGS)\n"

# ARGS: out, src, extra-kwargs-as-python-dict
API_ASM_CODE = PRELUDE + """
from pathlib import Path
extra = eval(ARGS[2])
try:
    flipjump.assemble([Path(ARGS[1])], Path(ARGS[0]), use_stl=False, warning_as_errors=False, print_time=False, **extra)
    print('API-ASM ok')
except TypeError as e:
    print('API-ASM TypeError', e)
"""
# ARGS: src.   everything default (except the silencing and the io device that captures the output)
API_DEFAULT_RUN_CODE = PRELUDE + """
from pathlib import Path
from flipjump import FixedIO
io = FixedIO(b'')
try:
    t = flipjump.assemble_and_run([Path(ARGS[0])], use_stl=False, io_device=io, print_time=False, print_termination=False)
    print('API-RUN', str(t.termination_cause), io.get_output())
except flipjump.FlipJumpException as e:
    print('API-RUN raised', type(e).__name__)
"""

HEADER = """def startup @ code_start > IO {
    ;code_start
  IO:
    ;0
  code_start:
}
def output_bit bit < IO {
    IO + bit;
}
def output ascii {
    rep(8, i) output_bit ((ascii>>i)&1)
}
"""
# prints 'Hello, World!' 8 times, then loops. big enough for the lzma presets to differ.
PROGRAM = HEADER + "startup\n" + "".join(f"output '{c}'\n" for c in "Hello, World!" * 8 if c != "'") + "l:\n;l\n"

# the same kind of program, with a macro parameter that is never used -> an assemble *warning*.
WARN_PROGRAM = HEADER.replace('def output ascii {', 'def output ascii, unused_param {') \
    + "startup\noutput 'a', 0\nl:\n;l\n"


def child(code, args, cwd):
    p = subprocess.run(
        [sys.executable, '-c', code, CHECKOUT] + [str(a) for a in args],
        cwd=cwd, input=b'', capture_output=True, timeout=TIMEOUT,
    )
    return p.returncode, p.stdout.decode('latin1'), p.stderr.decode('latin1')


def main():
    work = Path(tempfile.mkdtemp(prefix='c20r2_'))
    problems = []
    try:
        (work / 'prog.fj').write_text(PROGRAM)
        (work / 'warn.fj').write_text(WARN_PROGRAM)

        # ---------- (a) --lzma_preset / --flags ----------
        def cli_asm(name, *opts):
            rc, out, err = child(CLI_CODE, ['--asm', '-o', name, '--no_stl', '-s', *opts, 'prog.fj'], work)
            if rc != 0:
                raise RuntimeError(f'fj --asm {opts} failed: {err[-300:]}')
            return (work / name).read_bytes()

        def api_asm(name, extra):
            rc, out, err = child(API_ASM_CODE, [name, 'prog.fj', repr(extra)], work)
            if rc != 0:
                raise RuntimeError(f'API assemble({extra}) failed: {err[-300:]}')
            accepted = 'API-ASM ok' in out
            if not accepted:
                # the API cannot express the option at all: the closest call is the one without it
                rc, out2, err = child(API_ASM_CODE, [name, 'prog.fj', '{}'], work)
                if rc != 0 or 'API-ASM ok' not in out2:
                    raise RuntimeError(f'API assemble() failed: {err[-300:]}')
            return accepted, out.strip(), (work / name).read_bytes()

        cli_default = cli_asm('cli_default.fjm')
        _, _, api_default = api_asm('api_default.fjm', {})
        print('[a] default options: fj --asm bytes == API bytes :', cli_default == api_default,
              f'({len(cli_default)} bytes)')
        if cli_default != api_default:
            problems.append('fj --asm -o and flipjump.assemble() differ even with default options')

        cli_p0 = cli_asm('cli_p0.fjm', '--lzma_preset', '0')
        if cli_p0 == cli_default:
            print('harness problem: preset 0 and the default preset gave the same bytes; pick a bigger program')
            return 2
        accepted, msg, api_p0 = api_asm('api_p0.fjm', {'lzma_preset': 0})
        print(f'[a] --lzma_preset 0: fj bytes = {len(cli_p0)}; API accepted lzma_preset: {accepted} ({msg});'
              f' API bytes = {len(api_p0)}; equal: {cli_p0 == api_p0}')
        if cli_p0 != api_p0:
            problems.append('`fj --asm -o x.fjm --lzma_preset 0`: no flipjump.assemble() call gives the same bytes '
                            '(the API has no lzma_preset parameter)')

        cli_f5 = cli_asm('cli_f5.fjm', '-f', '5')
        accepted, msg, api_f5 = api_asm('api_f5.fjm', {'flags': 5})
        print(f'[a] --flags 5: API accepted flags: {accepted} ({msg}); equal bytes: {cli_f5 == api_f5}')
        if cli_f5 != api_f5:
            problems.append('`fj --asm -o x.fjm -f 5`: no flipjump.assemble() call gives the same bytes '
                            '(the API has no flags parameter)')

        # ---------- (b) the default of --werror / warning_as_errors ----------
        rc, out, err = child(CLI_CODE, ['--no_stl', '-s', 'warn.fj'], work)
        cli_ran = rc == 0 and out.endswith('a')
        print(f'[b] fj warn.fj (defaults): rc = {rc}, program output ends with "a": {cli_ran}')
        rc2, out2, err2 = child(API_DEFAULT_RUN_CODE, ['warn.fj'], work)
        api_line = [line for line in out2.splitlines() if line.startswith('API-RUN')]
        print(f'[b] flipjump.assemble_and_run([warn.fj]) (defaults): {api_line}')
        if rc2 != 0 or not api_line:
            print('harness problem:', err2[-400:])
            return 2
        api_ran = api_line[0] == "API-RUN looping b'a'"
        if cli_ran != api_ran:
            problems.append('same sources, default options: `fj warn.fj` assembles (with a warning) and runs, '
                            'flipjump.assemble_and_run([warn.fj]) raises (default warning_as_errors=True vs --werror off)')
    except RuntimeError as e:
        print('harness problem:', e)
        return 2
    finally:
        shutil.rmtree(work, ignore_errors=True)

    if problems:
        print('\nVIOLATION (C20: the fj routes and the API must agree for the same sources and options):')
        for p in problems:
            print('  -', p)
        return 1
    print('\nno violation.')
    return 0


if __name__ == '__main__':
    sys.exit(main())
