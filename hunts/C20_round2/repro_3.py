#!/usr/bin/env python
"""
C20 / finding 3: the documentation (README.md, "How to run?") says the standard library is disabled
with the `--no-stl` flag and gives the command `fj programs/print_tests/hello_no-stl.fj --no-stl`.
The fj command only knows `--no_stl`: the documented command is rejected (exit 2, "unrecognized
arguments: --no-stl"), so by the documented route the standard library cannot be disabled.

usage: python repro_3.py <path-to-checkout>
exit 1 = violation present, 0 = not present, 2 = harness problem.
"""
import os
import re
import subprocess
import sys
from pathlib import Path

CHECKOUT = os.path.realpath(sys.argv[1]) if len(sys.argv) > 1 else os.getcwd()
sys.path.insert(0, CHECKOUT)
TIMEOUT = 180

PRELUDE = (
    "import sys, os; sys.path.insert(0, sys.argv[1]); import flipjump; "
    "assert os.path.realpath(flipjump.__file__).startswith(os.path.realpath(sys.argv[1])), flipjump.__file__; "
    "ARGS = sys.argv[2:]\n"
)
CLI_CODE = PRELUDE + "from flipjump.flipjump_cli import assemble_run_according_to_cmd_line_args as f\nf(cmd_line_args=ARGS)\n"


def child(code, args, cwd):
    p = subprocess.run(
        [sys.executable, '-c', code, CHECKOUT] + [str(a) for a in args],
        cwd=cwd, input=b'', capture_output=True, timeout=TIMEOUT,
    )
    return p.returncode, p.stdout.decode('latin1'), p.stderr.decode('latin1')


def main():
    readme = (Path(CHECKOUT) / 'README.md').read_text(encoding='utf-8')
    # every `fj ... ` command of the README that disables the stl, and every no-stl flag spelling it names
    documented_flags = sorted(set(re.findall(r'--no[-_]stl\b', readme)))
    documented_cmds = re.findall(r'`fj ([^`]*--no[-_]stl[^`]*)`', readme)
    print('README documents the flag spelling(s):', documented_flags)
    print('README documents the command(s):', [f'fj {c}' for c in documented_cmds])
    if not documented_flags:
        print('the README does not document a no-stl flag any more: nothing to check.')
        return 0

    problems = []
    src = 'programs/print_tests/hello_no-stl.fj'
    if not (Path(CHECKOUT) / src).is_file():
        print('harness problem: the example program is missing')
        return 2

    for flag in documented_flags:
        rc, out, err = child(CLI_CODE, [src, flag, '-s'], CHECKOUT)
        err_last = err.strip().splitlines()[-1] if err.strip() else ''
        print(f'fj {src} {flag} -s  ->  rc = {rc}, stdout = {out!r}, stderr: {err_last[:120]}')
        if rc != 0 or 'Hello, World!' not in out:
            problems.append(f'the documented flag {flag} is rejected by the fj command')

    for cmd in documented_cmds:
        rc, out, err = child(CLI_CODE, cmd.split(), CHECKOUT)
        err_last = err.strip().splitlines()[-1] if err.strip() else ''
        print(f'fj {cmd}  ->  rc = {rc}, stderr: {err_last[:120]}')
        if rc != 0 or 'Hello, World!' not in out:
            problems.append(f'the documented command `fj {cmd}` does not run')

    # for reference: the spelling the parser really has
    rc, out, err = child(CLI_CODE, [src, '--no_stl', '-s'], CHECKOUT)
    print(f'(reference) fj {src} --no_stl -s  ->  rc = {rc}, stdout = {out!r}')

    if problems:
        print('\nVIOLATION (C20: "standard library included unless disabled" / defaults+options are what the '
              'documentation states):')
        for p in sorted(set(problems)):
            print('  -', p)
        return 1
    print('\nno violation: every documented no-stl spelling works.')
    return 0


if __name__ == '__main__':
    sys.exit(main())
