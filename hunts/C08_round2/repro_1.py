#!/usr/bin/env python
"""
C08 finding 1: the read-through-pointer macros clear dst BEFORE they dereference ptr.
  (a) hex.read_hex x, p   with p == &x      -> x becomes 0 (the read destroys the pointed cell)
  (b) hex.read_byte b, p  with p == &b[0]   -> b becomes 00
  (c) hex.read_nth_hex x, p, i  whose target cell is x -> 0
  (d) hex.read_hex w/4, p, p   ("p = *p", one linked-list step) -> wild dereference
usage: /venv/bin/python repro_1.py <path-to-checkout>
exit 1 = violation present, 0 = not present, 2 = could not run.
Every FlipJump run happens in a child process with a timeout.
"""
import os, subprocess, sys, tempfile

CHILD = r'''
import sys
sys.path.insert(0, sys.argv[1])
from pathlib import Path
import flipjump
assert flipjump.__file__.startswith(sys.argv[1].rstrip('/')), flipjump.__file__
io = flipjump.FixedIO(b'')
try:
    ts = flipjump.assemble_and_run([Path(sys.argv[2])], memory_width=int(sys.argv[3]), io_device=io,
                                   print_time=False, print_termination=False, warning_as_errors=False)
    cause = str(ts.termination_cause)
except Exception as e:
    cause = 'EXC ' + type(e).__name__ + ': ' + str(e)[:200]
out = io.get_output(allow_incomplete_output=True)
sys.stdout.write(cause + '\n' + out.decode('latin1'))
'''

PROG_ABC = r'''
stl.startup_and_init_all 10

// (a) x = *(&x)
hex.set w/4, p, x
hex.set x, 7
hex.read_hex x, p
hex.print_as_digit x, 0
stl.output ' '

// (b) b = *(&b[0])   (the cell b[0] holds the byte 0x09)
hex.set w/4, p, b
hex.set 2, b, 0x09
hex.read_byte b, p
hex.print_as_digit 2, b, 0
stl.output ' '

// (c) arr[2] = p[i] where p = &arr[0], i = 2   (read_nth_hex whose target cell is dst)
hex.set w/4, p, arr
hex.set w/4, i, 2
hex.set arr+2*dw, 0xc
hex.read_nth_hex arr+2*dw, p, i
hex.print_as_digit arr+2*dw, 0
stl.loop

p:   hex.vec w/4
i:   hex.vec w/4
x:   hex.hex
b:   hex.vec 2
arr: hex.vec 4
'''
EXPECT_ABC = '7 09 c'

PROG_D = r'''
stl.startup_and_init_all 10
// one linked-list step: p = *p    (node1 holds the address of node2 as w/4 hexes)
hex.set w/4, p, node1
hex.read_hex w/4, p, p
hex.print_as_digit w/4, p, 0
stl.output '='
hex.set w/4, q, node2
hex.print_as_digit w/4, q, 0
stl.loop
p: hex.vec w/4
q: hex.vec w/4
node1: hex.vec w/4, node2
node2: hex.vec w/4, 0
'''


def run_fj(checkout, src, w, timeout=300):
    d = tempfile.mkdtemp(prefix='c08r1_')
    fj = os.path.join(d, 'p.fj'); open(fj, 'w').write(src)
    ch = os.path.join(d, 'child.py'); open(ch, 'w').write(CHILD)
    try:
        p = subprocess.run([sys.executable, ch, checkout, fj, str(w)], capture_output=True, text=True, timeout=timeout)
    except subprocess.TimeoutExpired:
        return 'TIMEOUT', ''
    if p.returncode != 0:
        return 'CHILD-ERROR ' + p.stderr[-400:], ''
    cause, _, out = p.stdout.partition('\n')
    return cause, out


def main():
    checkout = os.path.abspath(sys.argv[1])
    bad = []
    for w in (64, 32):
        cause, out = run_fj(checkout, PROG_ABC, w)
        if cause.startswith(('CHILD-ERROR', 'EXC')):
            print(f'w={w}: could not run: {cause}'); return 2
        if cause != 'looping' or out != EXPECT_ABC:
            bad.append(f'w={w} (a)(b)(c): got {out!r} ({cause}), the property prescribes {EXPECT_ABC!r} '
                       f'[x = *(&x) must leave 7; b = *(&b) must leave 09; arr[2] = p[2] must leave c]')
        cause, out = run_fj(checkout, PROG_D, w)
        if cause.startswith(('CHILD-ERROR', 'EXC')):
            print(f'w={w}: could not run: {cause}'); return 2
        a, _, b = out.partition('=')
        if cause != 'looping' or not b or a != b:
            bad.append(f'w={w} (d): "hex.read_hex w/4, p, p" (p = *p): got {out[:60]!r} ({cause}); '
                       f'the property prescribes p == address of node2 (printed as <addr>=<addr>)')
    if bad:
        print('VIOLATION: reading through a pointer into a dst that is (or overlaps) the pointed cell / the pointer:')
        for b in bad: print('  ' + b)
        return 1
    print('ok: aliased reads return the pointed value')
    return 0


if __name__ == '__main__':
    sys.exit(main())
