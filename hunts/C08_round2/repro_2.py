#!/usr/bin/env python
"""
C08 finding 2: hex.ptr_index dst, ptr, index  with dst == ptr  ("p += i cells", also negative i)
computes 2*index*dw and loses the base, instead of ptr + index*dw.
usage: /venv/bin/python repro_2.py <path-to-checkout>
exit 1 = violation present, 0 = not present, 2 = could not run.
Every FlipJump run happens in a child process with a timeout.
"""
import os, subprocess, sys, tempfile

CHILD = r'''
import sys
sys.path.insert(0, sys.argv[1])
from pathlib import Path
import flipjump
assert flipjump.__file__.startswith(sys.argv[1].rstrip('/')), flipjump.__file__
io = flipjump.FixedIO(b'')
try:
    ts = flipjump.assemble_and_run([Path(sys.argv[2])], memory_width=int(sys.argv[3]), io_device=io,
                                   print_time=False, print_termination=False, warning_as_errors=False)
    cause = str(ts.termination_cause)
except Exception as e:
    cause = 'EXC ' + type(e).__name__ + ': ' + str(e)[:200]
out = io.get_output(allow_incomplete_output=True)
sys.stdout.write(cause + '\n' + out.decode('latin1'))
'''

BASE = 0x4000000
CASES = [3, -2, 1, 0x100]

def prog(w):
    lines = ['stl.startup_and_init_all 10']
    for i in CASES:
        lines += [f'hex.set w/4, p, {BASE:#x}',
                  f'hex.set w/4, i, {i % (1 << w):#x}',
                  'hex.ptr_index p, p, i',          # p += i cells
                  'hex.print_as_digit w/4, p, 0',
                  "stl.output ' '"]
    # control: separate dst works
    lines += [f'hex.set w/4, p, {BASE:#x}', f'hex.set w/4, i, {(-2) % (1 << w):#x}',
              'hex.ptr_index q, p, i', 'hex.print_as_digit w/4, q, 0', 'stl.loop',
              'p: hex.vec w/4', 'q: hex.vec w/4', 'i: hex.vec w/4']
    return '\n'.join(lines) + '\n'

def expected(w):
    dw = 2 * w; n = w // 4
    e = [f'{(BASE + i * dw) % (1 << w):0{n}x}' for i in CASES]
    return ' '.join(e) + ' ' + f'{(BASE - 2 * dw) % (1 << w):0{n}x}'

def run_fj(checkout, src, w, timeout=300):
    d = tempfile.mkdtemp(prefix='c08r2_')
    fj = os.path.join(d, 'p.fj'); open(fj, 'w').write(src)
    ch = os.path.join(d, 'child.py'); open(ch, 'w').write(CHILD)
    try:
        p = subprocess.run([sys.executable, ch, checkout, fj, str(w)], capture_output=True, text=True, timeout=timeout)
    except subprocess.TimeoutExpired:
        return 'TIMEOUT', ''
    if p.returncode != 0:
        return 'CHILD-ERROR ' + p.stderr[-400:], ''
    cause, _, out = p.stdout.partition('\n')
    return cause, out

def main():
    checkout = os.path.abspath(sys.argv[1])
    bad = []
    for w in (64, 32):
        cause, out = run_fj(checkout, prog(w), w)
        if cause.startswith(('CHILD-ERROR', 'EXC')):
            print(f'w={w}: could not run: {cause}'); return 2
        exp = expected(w)
        if cause != 'looping' or out != exp:
            bad.append(f'w={w}: base={BASE:#x}, indices {CASES} then control(-2, separate dst)\n'
                       f'      got      {out!r} ({cause})\n      expected {exp!r}')
    if bad:
        print('VIOLATION: hex.ptr_index p, p, i does not move p by i whole cells:')
        for b in bad: print('  ' + b)
        return 1
    print('ok: in-place ptr_index moves by index cells')
    return 0

if __name__ == '__main__':
    sys.exit(main())
