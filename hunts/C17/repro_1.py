"""
C17 finding 1: StandardIO.read_bit is not byte-exact for input bytes >= 0x80.

usage: /venv/bin/python repro_1.py <path-to-checkout>
exit 1 = violation present, exit 0 = not present.

StandardIO reads stdin through the *text* layer (stdin.read(1)) and re-encodes the character
with 'raw_unicode_escape', keeping only the first byte of the result. So what the FJ program
sees depends on stdin's text encoding, and for the usual UTF-8 stdin every byte >= 0x80 is
mangled: a multi-byte sequence collapses into one (wrong) byte and EOF arrives early, an
undecodable byte turns into 0x5C ('\\') or raises UnicodeDecodeError.

every child process is bounded by a timeout; no FlipJump program is run (device level only).
"""
import os
import subprocess
import sys

checkout = os.path.abspath(sys.argv[1] if len(sys.argv) > 1 else '.')

CHILD = r'''
import sys
sys.path.insert(0, %r)
import flipjump
assert flipjump.__file__.startswith(%r), flipjump.__file__
from flipjump.interpreter.io_devices.StandardIO import StandardIO
from flipjump.utils.exceptions import IOReadOnEOF
device = StandardIO(False)
bits = []
status = 'NO_EOF'
try:
    for _ in range(8 * 600):          # bounded: the inputs below are <= 256 bytes
        bits.append(int(device.read_bit()))
except IOReadOnEOF:
    status = 'EOF'
except BaseException as e:            # anything else is neither a bit nor the EOF signal
    status = 'RAISED ' + type(e).__name__
sys.stdout.write(status + '\n' + ''.join(map(str, bits)))
''' % (checkout, checkout)


def read_all_through_standard_io(data: bytes, env_extra: dict):
    env = {k: v for k, v in os.environ.items() if k not in ('PYTHONIOENCODING', 'PYTHONUTF8')}
    env.update(env_extra)
    proc = subprocess.run([sys.executable, '-c', CHILD], input=data, capture_output=True, timeout=120, env=env)
    if proc.returncode != 0:
        raise RuntimeError(proc.stderr.decode(errors='replace'))
    status, _, bits = proc.stdout.decode().partition('\n')
    whole = len(bits) - len(bits) % 8
    got = bytes(int(bits[i:i + 8][::-1], 2) for i in range(0, whole, 8))
    return status, len(bits), got


INPUTS = [
    b'A',                    # control: ascii works
    b'\xc3\xa9',             # 2 bytes (utf-8 'e-acute')  -> 1 byte 0xE9, EOF 8 bits early
    b'\xe2\x82\xac',         # 3 bytes (utf-8 euro sign)  -> 1 byte 0x5C
    b'\x80',                 # a lone byte >= 0x80        -> 0x5C (or UnicodeDecodeError)
    b'\xff',
    bytes(range(256)),
]
# the child's stdin text encoding: whatever this machine does by default, and explicit UTF-8
# (the default on every current Linux/macOS setup, and of python >= 3.15 everywhere)
ENVIRONMENTS = [('inherited environment', {}), ('PYTHONUTF8=1', {'PYTHONUTF8': '1'})]

violations = 0
for env_name, env_extra in ENVIRONMENTS:
    for data in INPUTS:
        status, bit_count, got = read_all_through_standard_io(data, env_extra)
        ok = status == 'EOF' and bit_count == 8 * len(data) and got == data
        if not ok:
            violations += 1
            shown_in = data if len(data) <= 8 else data[:4] + b'...(%d bytes)' % len(data)
            shown_out = got if len(got) <= 8 else got[:4] + b'...(%d bytes)' % len(got)
            first_diff = next((i for i, (a, b) in enumerate(zip(data, got)) if a != b), None)
            print(f'VIOLATION [{env_name}] stdin={shown_in!r}: read {bit_count} bits (expected {8 * len(data)}) '
                  f'= {shown_out!r}, ended with {status}'
                  + (f'; first wrong byte at offset {first_diff}: {data[first_diff]:#04x} read as {got[first_diff]:#04x}'
                     if first_diff is not None else ''))

if violations:
    print(f'{violations} input/environment combinations are not byte-exact through StandardIO.read_bit')
    sys.exit(1)
print('StandardIO.read_bit returned exactly the stdin bytes, lsb first, and EOF right after the last bit')
sys.exit(0)
