"""
C17 ADJACENT observation (outside the letter of the statement - the devices are right here, the
consumer of get_output() is not): flipjump_quickstart.run_test_output does not compare the
collected output byte-exactly.

usage: /venv/bin/python repro_3.py <path-to-checkout>
exit 1 = defect present, exit 0 = not present.

run_test_output compares  get_output().decode('raw_unicode_escape') == expected.decode('raw_unicode_escape').
raw_unicode_escape *interprets* the ascii text \\uXXXX / \\UXXXXXXXX inside the bytes, so
  - a program that prints the six bytes  \\u0041  passes a test that expects the one byte  A ;
  - a program that prints  C:\\users  makes run_test_output raise UnicodeDecodeError
    ("truncated \\uXXXX escape") instead of returning True/False.

the FlipJump runs are bounded: they happen in a child process with a timeout (and the programs
have no loops besides the final stl.loop).
"""
import os
import subprocess
import sys
import tempfile

checkout = os.path.abspath(sys.argv[1] if len(sys.argv) > 1 else '.')

CHILD = r'''
import sys
sys.path.insert(0, %r)
from pathlib import Path
import flipjump
assert flipjump.__file__.startswith(%r), flipjump.__file__
from flipjump import flipjump_quickstart as q
work = Path(sys.argv[1])
cases = [
    ('six_bytes', 'stl.startup\nstl.output "\\\\u0041"\nstl.loop\n', b'A', False),          # prints \u0041, expect A -> must be False
    ('path',      'stl.startup\nstl.output "C:\\\\users"\nstl.loop\n', b'C:\\users', True),  # prints C:\users, expect the same -> must be True
]
bad = 0
for name, source, expected, should_pass in cases:
    fj, fjm = work / (name + '.fj'), work / (name + '.fjm')
    fj.write_text(source)
    q.assemble([fj], fjm, print_time=False)
    try:
        result = q.run_test_output(fjm, b'', expected, print_time=False, print_termination=False)
    except Exception as e:
        result = 'raised ' + type(e).__name__
    if result != should_pass:
        bad += 1
        print('DEFECT: program ' + name + ' (source ' + repr(source.splitlines()[1]) + '), expected_output=' + repr(expected)
              + ': run_test_output -> ' + str(result) + ', a byte-exact comparison gives ' + str(should_pass))
sys.exit(1 if bad else 0)
''' % (checkout, checkout)

with tempfile.TemporaryDirectory() as work:
    proc = subprocess.run([sys.executable, '-c', CHILD, work], capture_output=True, timeout=300)
sys.stdout.write(proc.stdout.decode(errors='replace'))
if proc.returncode not in (0, 1):
    sys.stdout.write('the child failed unexpectedly:\n' + proc.stderr.decode(errors='replace'))
    sys.exit(2)
if proc.returncode == 0:
    print('run_test_output compared the collected output byte-exactly')
sys.exit(proc.returncode)
