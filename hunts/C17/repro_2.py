"""
C17 finding 2: StandardIO.write_bit (output_verbose=True, the CLI default) is not byte-exact
for output bytes >= 0x80 - and can lose the byte and wedge the bit packer.

usage: /venv/bin/python repro_2.py <path-to-checkout>
exit 1 = violation present, exit 0 = not present.

write_bit echoes every completed byte through the *text* layer
(stdout.write(byte.decode('raw_unicode_escape'))) BEFORE it appends the byte to the collected
output and BEFORE it resets the partial-byte state.
  (a) when stdout's encoding cannot represent U+0080..U+00FF (ascii; cp1252 for 0x80..0x9f - the
      encoding of a redirected stdout on Windows) the 8th write_bit raises UnicodeEncodeError,
      the byte never reaches get_output(), and bits_to_write_in_output_byte stays 8 - so every
      later bit is shifted to position 8, 9, ... and no byte is ever collected again.
  (b) with a UTF-8 stdout the byte 0x80 goes out as the two bytes C2 80 (the stream on stdout
      is not the program's output bytes), although get_output() is right.

every child process is bounded by a timeout; no FlipJump program is run (device level only).
"""
import os
import subprocess
import sys

checkout = os.path.abspath(sys.argv[1] if len(sys.argv) > 1 else '.')

CHILD = r'''
import sys
sys.path.insert(0, %r)
import flipjump
assert flipjump.__file__.startswith(%r), flipjump.__file__
from flipjump.interpreter.io_devices.StandardIO import StandardIO
data = bytes.fromhex(sys.argv[1])
device = StandardIO(True)
raised = []
for byte in data:
    for i in range(8):
        try:
            device.write_bit((byte >> i) & 1 == 1)
        except Exception as e:
            raised.append(type(e).__name__)
sys.stdout.flush()
try:
    complete = device.get_output().hex()
except Exception as e:
    complete = type(e).__name__
sys.stderr.write(device.get_output(allow_incomplete_output=True).hex() + '|' + complete + '|' + ','.join(raised))
''' % (checkout, checkout)


def write_all_through_standard_io(data: bytes, env_extra: dict):
    env = {k: v for k, v in os.environ.items() if k not in ('PYTHONIOENCODING', 'PYTHONUTF8')}
    env.update(env_extra)
    proc = subprocess.run([sys.executable, '-c', CHILD, data.hex()], capture_output=True, timeout=120, env=env)
    if proc.returncode != 0:
        raise RuntimeError(proc.stderr.decode(errors='replace'))
    collected_hex, complete, raised = proc.stderr.decode().split('|')
    return proc.stdout, bytes.fromhex(collected_hex), complete, raised


DATA = b'\x80AB'   # 24 written bits = 3 whole bytes

violations = 0
for env_name, env_extra in [
    ('PYTHONIOENCODING=ascii', {'PYTHONIOENCODING': 'ascii'}),
    ('PYTHONIOENCODING=cp1252', {'PYTHONIOENCODING': 'cp1252'}),
    ('PYTHONUTF8=1', {'PYTHONUTF8': '1'}),
    ('inherited environment', {}),
]:
    on_stdout, collected, complete, raised = write_all_through_standard_io(DATA, env_extra)
    if collected != DATA or complete != DATA.hex() or raised:
        violations += 1
        print(f'VIOLATION (a) [{env_name}] wrote the 24 bits of {DATA!r}: write_bit raised [{raised}], '
              f'get_output(allow_incomplete_output=True) = {collected!r} (expected {DATA!r}), '
              f'get_output() -> {complete} (expected {DATA.hex()}: 24 bits are 3 whole bytes)')
    if on_stdout != DATA:
        violations += 1
        print(f'VIOLATION (b) [{env_name}] wrote the 24 bits of {DATA!r}: the bytes on stdout are {on_stdout!r}')

if violations:
    sys.exit(1)
print('StandardIO.write_bit collected and echoed exactly the written bytes')
sys.exit(0)
