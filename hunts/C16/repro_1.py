"""
C16 finding 1: a source label named `_.wflip_area_start_<k>` shares its name with the
assembler's internal per-segment label, which is written into the label table without
duplicate detection.

usage: /venv/bin/python repro_1.py <path-to-checkout>
exit 1 (printing what went wrong) when the violation is present, 0 when it is not.
Only the assembler runs (no FlipJump program is executed); an alarm bounds the whole script.
"""
import contextlib
import io
import signal
import sys
import tempfile
from pathlib import Path

checkout = sys.argv[1] if len(sys.argv) > 1 else '.'
sys.path.insert(0, str(Path(checkout).resolve()))
signal.alarm(120)

import flipjump  # noqa: E402

assert Path(flipjump.__file__).resolve().is_relative_to(Path(checkout).resolve()), flipjump.__file__

from flipjump.assembler.assembler import assemble  # noqa: E402
from flipjump.fjm.fjm_consts import FJMVersion  # noqa: E402
from flipjump.fjm import fjm_reader  # noqa: E402
from flipjump.fjm.fjm_writer import Writer  # noqa: E402
from flipjump.utils.exceptions import FlipJumpException  # noqa: E402
from flipjump.utils.functions import load_debugging_labels  # noqa: E402

W = 64
LABEL = '_.wflip_area_start_0'

# variant A: the user label is declared BEFORE the first `segment` statement.
# the label precedes the op at address 0; the second op jumps to it.
PROGRAM_A = """\
ns _ {
    wflip_area_start_0:
}
;                          // address 0   (the statement the label precedes)
;_.wflip_area_start_0      // address 128 (jumps to the label -> must jump to 0)
segment 1024
;0
"""

# variant B: the same label, declared AFTER the `segment` statement.
PROGRAM_B = """\
;0
segment 1024
ns _ {
    wflip_area_start_0:
}
;_.wflip_area_start_0      // address 1024 (the statement the label precedes)
"""


def assemble_text(text):
    tmp = Path(tempfile.mkdtemp(prefix='c16_repro1_'))
    src = tmp / 'p.fj'
    src.write_text(text)
    fjm, fjd = tmp / 'p.fjm', tmp / 'p.fjd'
    writer = Writer(fjm, W, FJMVersion.NormalVersion)
    with contextlib.redirect_stdout(io.StringIO()):
        assemble([('f1', src)], W, writer, warning_as_errors=True, debugging_file_path=fjd, print_time=False)
    return fjm, load_debugging_labels(fjd)


def check(name, text, expected_address, jump_word_address):
    """returns a list of problems"""
    problems = []
    try:
        fjm, labels = assemble_text(text)
    except FlipJumpException as e:
        message = str(e)
        if 'Unknown exception' in message:
            problems.append(
                f'{name}: the assembler crashed with an internal error instead of handling the label: '
                f'{message!r} (cause: {e.__cause__!r})'
            )
        else:
            print(f'{name}: cleanly rejected: {message.splitlines()[0][:200]}')
        return problems

    got = labels.get(LABEL)
    if got != expected_address:
        problems.append(
            f'{name}: the saved label table maps the source label {LABEL!r} to {got}, but the statement it '
            f'precedes is at address {expected_address}'
        )
    mem = fjm_reader.Reader(fjm)
    jump_word = mem.get_word(jump_word_address)
    if jump_word != expected_address:
        problems.append(
            f'{name}: the op that jumps to {LABEL!r} was assembled with jump word {jump_word} '
            f'instead of {expected_address}'
        )
    if not problems:
        print(f'{name}: ok ({LABEL} -> {got})')
    return problems


def main():
    problems = []
    problems += check('variant A (label before segment)', PROGRAM_A, 0, 128 + W)
    problems += check('variant B (label after segment)', PROGRAM_B, 1024, 1024 + W)
    if problems:
        print('VIOLATION of C16 (label table is exact):')
        for p in problems:
            print('  -', p)
        return 1
    print('no violation')
    return 0


if __name__ == '__main__':
    sys.exit(main())
