#!/usr/bin/env python
"""
C10 finding 4: version-3 payload handling through lzma.decompress():
 (a) bytes after the LZMA2 end-of-stream marker are silently dropped (or, when they happen to be
     another valid stream, appended to the data pool) - the payload is not required to BE the stream;
 (b) lzma.decompress() restarts a fresh decoder on the rest after every end marker, so a payload
     of N zero bytes (every 0x00 is an end marker) costs O(N^2): 1MB -> ~25s, 2MB -> ~170s,
     8MB -> hours. That is what a torn v3 file looks like on a filesystem that zero-fills the
     blocks that were not written yet.

usage: /venv/bin/python repro_4.py <path-to-checkout>
exit 1: violation present, exit 0: not present.
"""
import json
import lzma
import os
import struct
import subprocess
import sys
import tempfile
from pathlib import Path

W = 64
ZERO_PAYLOAD_BYTES = 1_500_000
CHILD_TIMEOUT = 20  # a linear-time reader needs well under a second for 1.5MB


def v3_file(segments, payload: bytes) -> bytes:
    data = struct.pack('<HHQQ', 0x4A46, W, 3, len(segments)) + struct.pack('<QL', 0, 0)
    for seg in segments:
        data += struct.pack('<QQQQ', *seg)
    return data + payload


def compress(words) -> bytes:
    return lzma.compress(struct.pack(f'<{len(words)}Q', *words), format=lzma.FORMAT_RAW,
                         filters=[{"id": lzma.FILTER_LZMA2, "preset": 6}])


def child(checkout: str, fjm: str) -> None:
    import time

    sys.path.insert(0, checkout)
    import flipjump
    from flipjump.fjm.fjm_reader import Reader
    from flipjump.utils.exceptions import FlipJumpReadFjmException

    start = time.time()
    try:
        reader = Reader(Path(fjm))
        verdict = 'accepted; memory=' + json.dumps({k: hex(v) for k, v in sorted(reader.memory.items())})
    except FlipJumpReadFjmException as e:
        verdict = f'rejected: {e}'
    except BaseException as e:  # noqa
        verdict = f'OTHER {type(e).__name__}: {e}'
    print('RESULT ' + json.dumps({'flipjump': flipjump.__file__, 'reader': verdict,
                                  'seconds': round(time.time() - start, 2)}))


def run_child(checkout: str, fjm: Path):
    try:
        out = subprocess.run(
            [sys.executable, os.path.abspath(__file__), checkout, '--child', str(fjm)],
            capture_output=True, text=True, timeout=CHILD_TIMEOUT,
        )
    except subprocess.TimeoutExpired:
        return None
    lines = [line for line in out.stdout.splitlines() if line.startswith('RESULT ')]
    if not lines:
        return {'reader': 'OTHER child failed: ' + out.stderr[-500:], 'seconds': -1}
    return json.loads(lines[0][7:])


def main() -> int:
    checkout = os.path.abspath(sys.argv[1])
    if len(sys.argv) > 3 and sys.argv[2] == '--child':
        child(checkout, sys.argv[3])
        return 0

    violation = False
    with tempfile.TemporaryDirectory() as tmp:
        program = [4 * W, 0]
        segments = [(0, 6, 0, 2)]

        # (a1) junk after the end-of-stream marker
        fjm = Path(tmp) / 'trailing_junk.fjm'
        fjm.write_bytes(v3_file(segments, compress(program) + b'\xffthis is not part of the stream'))
        res = run_child(checkout, fjm)
        print(f'  (a1) stream + 31 junk bytes: {res}')
        if res is None or not res['reader'].startswith('rejected'):
            print('VIOLATION: payload bytes after the end-of-stream marker are silently ignored.')
            violation = True

        # (a2) a second stream after the first one: the pool silently becomes the concatenation
        fjm = Path(tmp) / 'two_streams.fjm'
        fjm.write_bytes(v3_file([(0, 6, 2, 2)], compress([0x1111, 0x2222]) + compress(program)))
        res = run_child(checkout, fjm)
        print(f'  (a2) two concatenated streams, segment reads pool[2:4]: {res}')
        if res is None or not res['reader'].startswith('rejected'):
            print('VIOLATION: a second lzma stream behind the end-of-stream marker is appended to the data pool.')
            violation = True

        # (b) zero-filled payload
        fjm = Path(tmp) / 'zero_filled.fjm'
        fjm.write_bytes(v3_file(segments, bytes(ZERO_PAYLOAD_BYTES)))
        res = run_child(checkout, fjm)
        print(f'  (b) {ZERO_PAYLOAD_BYTES} zero bytes as payload: '
              f'{res if res is not None else f"no answer within {CHILD_TIMEOUT}s"}')
        if res is None:
            print(f'VIOLATION: Reader() did not answer within {CHILD_TIMEOUT}s on a {fjm.stat().st_size}-byte file '
                  f'(quadratic restart loop; effectively a hang for a few MB).')
            violation = True
        elif res['reader'].startswith('OTHER'):
            print('VIOLATION: another exception than the read error.')
            violation = True

    if not violation:
        print('no violation')
    return 1 if violation else 0


if __name__ == '__main__':
    sys.exit(main())
