#!/usr/bin/env python
"""
C10 finding 2: a version-3 (compressed) .fjm of ~10KB makes Reader() allocate hundreds of MB
(39KB -> 1.6GB, 1MB -> ~40GB): the whole lzma stream is inflated and turned into a python list
before anything is checked against the segment table - which here needs 2 words of it.

usage: /venv/bin/python repro_2.py <path-to-checkout>
exit 1: violation present, exit 0: not present.
"""
import json
import lzma
import os
import struct
import subprocess
import sys
import tempfile
from pathlib import Path

CHILD_TIMEOUT = 300
ADDRESS_SPACE_LIMIT = 8 << 30  # safety net for the child
INFLATED_MIB = 64
ALLOWED_GROWTH_MIB = 32  # > 3000 x the file size


def make_file(path: Path) -> int:
    w = 64
    comp = lzma.LZMACompressor(format=lzma.FORMAT_RAW, filters=[{"id": lzma.FILTER_LZMA2, "preset": 0}])
    parts = [comp.compress(struct.pack('<QQ', 4 * w, 0))]  # the only 2 words the segment table refers to
    mib = struct.pack('<Q', 0x0101010101010101) * (1 << 17)
    for _ in range(INFLATED_MIB):
        parts.append(comp.compress(mib))
    parts.append(comp.flush())
    data = struct.pack('<HHQQ', 0x4A46, w, 3, 1) + struct.pack('<QL', 0, 0)
    data += struct.pack('<QQQQ', 0, 6, 0, 2)
    data += b''.join(parts)
    path.write_bytes(data)
    return len(data)


def child(checkout: str, fjm: str) -> None:
    import resource
    import time

    resource.setrlimit(resource.RLIMIT_AS, (ADDRESS_SPACE_LIMIT, ADDRESS_SPACE_LIMIT))
    sys.path.insert(0, checkout)
    import flipjump
    from flipjump.fjm.fjm_reader import Reader
    from flipjump.utils.exceptions import FlipJumpReadFjmException

    def rss_mib() -> float:
        return resource.getrusage(resource.RUSAGE_SELF).ru_maxrss / 1024

    res = {'flipjump': flipjump.__file__}
    before = rss_mib()
    start = time.time()
    try:
        reader = Reader(Path(fjm))
        res['reader'] = f'accepted, image of {len(reader.memory)} words'
    except FlipJumpReadFjmException as e:
        res['reader'] = f'rejected: {e}'
    except BaseException as e:  # noqa
        res['reader'] = f'OTHER {type(e).__name__}: {e}'
    res['seconds'] = round(time.time() - start, 2)
    res['peak_rss_growth_mib'] = round(rss_mib() - before, 1)
    print('RESULT ' + json.dumps(res))


def main() -> int:
    checkout = os.path.abspath(sys.argv[1])
    if len(sys.argv) > 3 and sys.argv[2] == '--child':
        child(checkout, sys.argv[3])
        return 0

    with tempfile.TemporaryDirectory() as tmp:
        fjm = Path(tmp) / 'bomb.fjm'
        size = make_file(fjm)
        print(f'  file size: {size} bytes (its segment table needs 2 data words = 16 bytes)')
        try:
            out = subprocess.run(
                [sys.executable, os.path.abspath(__file__), checkout, '--child', str(fjm)],
                capture_output=True, text=True, timeout=CHILD_TIMEOUT,
            )
        except subprocess.TimeoutExpired:
            print('VIOLATION: hang (child timed out)')
            return 1
    lines = [line for line in out.stdout.splitlines() if line.startswith('RESULT ')]
    if not lines:
        print('VIOLATION? child died without a result (killed / out of memory):\n' + out.stdout + out.stderr[-2000:])
        return 1
    res = json.loads(lines[0][7:])
    for k, v in res.items():
        print(f'  {k}: {v}')
    if res['reader'].startswith('OTHER'):
        print('VIOLATION: another exception than the read error.')
        return 1
    if res['peak_rss_growth_mib'] > ALLOWED_GROWTH_MIB:
        print(f"VIOLATION: reading a {size}-byte file grew the process by {res['peak_rss_growth_mib']} MiB "
              f"({res['peak_rss_growth_mib'] * (1 << 20) / size:.0f} x the file size).")
        return 1
    print('no violation')
    return 0


if __name__ == '__main__':
    sys.exit(main())
