#!/usr/bin/env python
"""
C10 finding 1: a segment table whose range does not fit the address space is accepted by the
Reader, and fjm_run.run() then dies with FlipJumpRuntimeException("Unknown exception ... please
report this bug") (native engine) - or silently runs it (python engines).

usage: /venv/bin/python repro_1.py <path-to-checkout>
exit 1: violation present, exit 0: not present.
"""
import json
import os
import struct
import subprocess
import sys
import tempfile
from pathlib import Path

CHILD_TIMEOUT = 60


def make_file(path: Path) -> None:
    w = 64
    # op0 (words 0,1): flip a bit in word 4, jump to 0  ->  terminates as "looping" after 1 op.
    words = [4 * w, 0]
    segments = [
        (0, 6, 0, 2),  # the program
        ((1 << 64) - 2, 2, 2, 0),  # two zero words at the very top of the u64 word range
    ]
    data = struct.pack('<HHQQ', 0x4A46, w, 1, len(segments)) + struct.pack('<QL', 0, 0)
    for seg in segments:
        data += struct.pack('<QQQQ', *seg)
    data += struct.pack(f'<{len(words)}Q', *words)
    path.write_bytes(data)


def child(checkout: str, fjm: str) -> None:
    sys.path.insert(0, checkout)
    import flipjump
    from flipjump.fjm.fjm_reader import Reader
    from flipjump.interpreter import fjm_run
    from flipjump.utils.exceptions import FlipJumpReadFjmException

    res = {'flipjump': flipjump.__file__, 'native_built': fjm_run._fjcore is not None}
    try:
        Reader(Path(fjm))
        res['reader'] = 'accepted'
    except FlipJumpReadFjmException as e:
        res['reader'] = f'rejected: {e}'
    except Exception as e:  # noqa
        res['reader'] = f'OTHER {type(e).__name__}: {e}'

    for name, env in (('native', '0'), ('python', '1')):
        os.environ['FLIPJUMP_NO_NATIVE'] = env
        try:
            t = fjm_run.run(Path(fjm))
            res[name] = f'ran: {t.termination_cause}, {t.op_counter} ops'
        except FlipJumpReadFjmException as e:
            res[name] = f'rejected: {e}'
        except Exception as e:  # noqa
            res[name] = f'OTHER {type(e).__name__}: {e} (cause: {e.__cause__!r})'
    print('RESULT ' + json.dumps(res))


def main() -> int:
    checkout = os.path.abspath(sys.argv[1])
    if len(sys.argv) > 3 and sys.argv[2] == '--child':
        child(checkout, sys.argv[3])
        return 0

    with tempfile.TemporaryDirectory() as tmp:
        fjm = Path(tmp) / 'top_segment.fjm'
        make_file(fjm)
        try:
            out = subprocess.run(
                [sys.executable, os.path.abspath(__file__), checkout, '--child', str(fjm)],
                capture_output=True, text=True, timeout=CHILD_TIMEOUT,
            )
        except subprocess.TimeoutExpired:
            print('VIOLATION: hang (child timed out)')
            return 1
    lines = [line for line in out.stdout.splitlines() if line.startswith('RESULT ')]
    if not lines:
        print('child failed:\n' + out.stdout + out.stderr)
        return 1
    res = json.loads(lines[0][7:])
    for k, v in res.items():
        print(f'  {k}: {v}')

    bad = [k for k in ('reader', 'native', 'python') if str(res[k]).startswith('OTHER')]
    if bad:
        print('VIOLATION: a 116-byte .fjm (segment [2^64-2, 2^64) at w=64) is neither run nor rejected with '
              f'FlipJumpReadFjmException: {", ".join(bad)} raised another exception.')
        return 1
    if res['native'].split(':')[0] != res['python'].split(':')[0]:
        print('VIOLATION: the engines disagree on whether the file is a program.')
        return 1
    if not res['native_built']:
        print('note: the native engine is not built in this checkout; the exception path was not exercised.')
    print('no violation')
    return 0


if __name__ == '__main__':
    sys.exit(main())
