#!/usr/bin/env python
"""
C10 finding 3: the Reader accepts a segment table whose segments overlap (the Writer refuses to
produce one). A single corrupted segment_start silently patches another segment's code; and on
nested segments the native and python engines disagree about the same file.

usage: /venv/bin/python repro_3.py <path-to-checkout>
exit 1: violation present, exit 0: not present.
"""
import json
import os
import struct
import subprocess
import sys
import tempfile
from pathlib import Path

CHILD_TIMEOUT = 60
W = 64


def fjm_bytes(segments, words, version=1) -> bytes:
    data = struct.pack('<HHQQ', 0x4A46, W, version, len(segments))
    if version:
        data += struct.pack('<QL', 0, 0)
    for seg in segments:
        data += struct.pack('<QQQQ', *seg)
    return data + struct.pack(f'<{len(words)}Q', *words)


def child(checkout: str, tmp: str) -> None:
    sys.path.insert(0, checkout)
    import flipjump
    from flipjump.fjm.fjm_consts import FJMVersion
    from flipjump.fjm.fjm_reader import Reader
    from flipjump.fjm.fjm_writer import Writer
    from flipjump.interpreter import fjm_run
    from flipjump.utils.exceptions import FlipJumpReadFjmException, FlipJumpWriteFjmException

    res = {'flipjump': flipjump.__file__}

    # (a) writer-produced file, then ONE field (segment_start of segment 1) damaged: 16 -> 4
    good = Path(tmp) / 'good.fjm'
    writer = Writer(good, W, FJMVersion.NormalVersion)
    code = [8 * W, 4 * W, 0, 0, 8 * W, 4 * W, 0, 0, 0, 0]  # op@0: flip word 8, goto op@4; op@4: flip word 8, loop
    writer.add_simple_segment_with_data(0, code)
    writer.add_simple_segment_with_data(16, [0xDEAD, 0xBEEF])
    writer.write_to_file()
    raw = bytearray(good.read_bytes())
    seg1_start_offset = 20 + 12 + 32
    assert struct.unpack_from('<Q', raw, seg1_start_offset)[0] == 16
    struct.pack_into('<Q', raw, seg1_start_offset, 4)
    damaged = Path(tmp) / 'damaged.fjm'
    damaged.write_bytes(bytes(raw))
    original = Reader(good).memory
    try:
        mem = Reader(damaged).memory
        res['a_reader'] = f'accepted; word 4 is now {hex(mem[4])} (was {hex(original[4])}), word 5 {hex(mem[5])}'
    except FlipJumpReadFjmException as e:
        res['a_reader'] = f'rejected: {e}'
    try:
        w2 = Writer(Path(tmp) / 'w.fjm', W, FJMVersion.NormalVersion)
        w2.add_simple_segment_with_data(0, code)
        w2.add_simple_segment_with_data(4, [0xDEAD, 0xBEEF])
        res['a_writer'] = 'accepted the same table'
    except FlipJumpWriteFjmException as e:
        res['a_writer'] = f'refuses the same table: {e}'

    # (b) nested segments above the native engine's flat window: the engines disagree
    base = 1 << 24
    target = base + 500  # lies inside segment [base+2, base+1000) only
    words = [target * W, 4 * W, 0, 0, 8 * W, 4 * W]  # op@0: flip a bit of `target`, goto op@4; op@4: loop
    segments = [(0, 10, 0, 6), (base, 2, 6, 0), (base + 2, 998, 6, 0)]
    segments += [(base + 10 * k, 2, 6, 0) for k in range(1, 6)]  # nested inside [base+2, base+1000)
    nested = Path(tmp) / 'nested.fjm'
    nested.write_bytes(fjm_bytes(segments, words))
    try:
        Reader(nested)
        res['b_reader'] = 'accepted'
    except FlipJumpReadFjmException as e:
        res['b_reader'] = f'rejected: {e}'
    for name, env in (('b_native', '0'), ('b_python', '1')):
        os.environ['FLIPJUMP_NO_NATIVE'] = env
        try:
            t = fjm_run.run(nested)
            res[name] = f'{t.termination_cause} after {t.op_counter} ops'
        except FlipJumpReadFjmException as e:
            res[name] = f'rejected: {e}'
        except Exception as e:  # noqa
            res[name] = f'OTHER {type(e).__name__}: {e}'
    res['native_built'] = fjm_run._fjcore is not None
    print('RESULT ' + json.dumps(res))


def main() -> int:
    checkout = os.path.abspath(sys.argv[1])
    if len(sys.argv) > 3 and sys.argv[2] == '--child':
        child(checkout, sys.argv[3])
        return 0

    with tempfile.TemporaryDirectory() as tmp:
        try:
            out = subprocess.run(
                [sys.executable, os.path.abspath(__file__), checkout, '--child', tmp],
                capture_output=True, text=True, timeout=CHILD_TIMEOUT,
            )
        except subprocess.TimeoutExpired:
            print('VIOLATION: hang (child timed out)')
            return 1
    lines = [line for line in out.stdout.splitlines() if line.startswith('RESULT ')]
    if not lines:
        print('child failed:\n' + out.stdout + out.stderr[-2000:])
        return 1
    res = json.loads(lines[0][7:])
    for k, v in res.items():
        print(f'  {k}: {v}')
    violation = False
    if res['a_reader'].startswith('accepted'):
        print('VIOLATION: a writer-produced file with one damaged segment_start (segments now overlap) is loaded '
              'as a different program.')
        violation = True
    if res['b_reader'].startswith('accepted'):
        print('VIOLATION: a segment table with nested segments is accepted'
              + ('' if res['b_native'] == res['b_python'] else ' - and the two engines disagree on it.'))
        violation = True
    if not violation:
        print('no violation')
    return 1 if violation else 0


if __name__ == '__main__':
    sys.exit(main())
