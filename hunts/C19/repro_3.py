"""
C19 finding 3 (low severity): a well-formed init_screen command with a large (but 16-bit, i.e.
layout-conforming) size is neither decoded nor rejected with a device error: the device eagerly
builds a width*height python list, so `init_screen 65535x65535` dies with MemoryError, which
fjm_run.run re-raises as FlipJumpRuntimeException("Unknown exception ... please report this bug").

the run happens in a child process with a 4 GiB address-space limit and a wall-clock timeout, so
the test machine is never asked for the 32 GiB the device wants.

usage: /venv/bin/python repro_3.py <path-to-checkout>
exit 1 = violation present, exit 0 = not present.
"""
import os
import struct
import subprocess
import sys
import tempfile

CHECKOUT = os.path.abspath(sys.argv[1]) if len(sys.argv) > 1 else '/tmp/wt_C19_H'

CHILD = r'''
import os, resource, signal, sys
from pathlib import Path
resource.setrlimit(resource.RLIMIT_AS, (4 << 30, 4 << 30))
sys.path.insert(0, sys.argv[1])
import flipjump
from flipjump.interpreter import fjm_run
from flipjump.interpreter.io_devices.ScreenIO import InMemoryScreen
from flipjump.utils.exceptions import IODeviceException
assert os.path.abspath(flipjump.__file__).startswith(sys.argv[1]), flipjump.__file__


class Budget(IODeviceException):
    pass


class BoundedScreen(InMemoryScreen):
    calls = 0

    def write_bit(self, bit):
        self.calls += 1
        if self.calls > 1000:
            raise Budget('callback budget')
        super().write_bit(bit)


screen = BoundedScreen()
try:
    stats = fjm_run.run(Path(sys.argv[2]), io_device=screen)
    print(f'DECODED {stats.termination_cause} {screen.width}x{screen.height}')
except Budget:
    print('BUDGET')
except IODeviceException as e:
    print(f'DEVICE_ERROR {e}')
except BaseException as e:
    print(f'OTHER {type(e).__name__}: {e} (cause: {type(e.__cause__).__name__ if e.__cause__ else None})')
'''


def write_fjm(path, w, segments):
    data, segs = [], []
    for start, length, words in segments:
        segs.append((start, length, len(data), len(words)))
        data.extend(words)
    tag = {16: 'H', 32: 'L', 64: 'Q'}[w]
    with open(path, 'wb') as f:
        f.write(struct.pack('<HHQQ', 0x4A46, w, 0, len(segs)))
        for s in segs:
            f.write(struct.pack('<QQQQ', *s))
        f.write(struct.pack('<' + tag * len(data), *data))


def output_program(w, stream_bytes):
    dw = 2 * w
    bits = [(b >> i) & 1 for b in stream_bytes for i in range(8)]
    n = 2 + len(bits) + 1
    scratch = (2 * n) * w
    words = [scratch, 2 * dw, 0, 0]
    for k, bit in enumerate(bits):
        words += [dw + bit, (3 + k) * dw]
    words += [scratch + 1, (n - 1) * dw]
    return [(0, 2 * n + 4, words)]


def main():
    tmp = tempfile.mkdtemp(prefix='c19_repro3_')
    path = os.path.join(tmp, 'init_big.fjm')
    #           init  width      height     bpp palette_size
    stream = [0x01, 0xFF, 0xFF, 0xFF, 0xFF, 8, 0, 0]
    write_fjm(path, 64, output_program(64, stream))
    child_path = os.path.join(tmp, 'child.py')
    with open(child_path, 'w') as f:
        f.write(CHILD)
    try:
        done = subprocess.run([sys.executable, child_path, CHECKOUT, path], capture_output=True, text=True, timeout=300)
    except subprocess.TimeoutExpired:
        print('VIOLATION: init_screen 65535x65535 neither decoded nor rejected within 300s')
        sys.exit(1)
    lines = [line for line in done.stdout.splitlines() if line.strip()]
    outcome = lines[-1] if lines else f'(no output; return code {done.returncode}; stderr tail: {done.stderr[-300:]})'
    print('init_screen 65535x65535, bpp 8, palette 0  ->', outcome)
    if outcome.startswith('DECODED') or outcome.startswith('DEVICE_ERROR'):
        print('no violation')
        sys.exit(0)
    print('VIOLATION: a layout-conforming command was neither decoded nor rejected with a device error')
    sys.exit(1)


main()
