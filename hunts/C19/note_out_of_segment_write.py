"""
NOT a numbered finding (outside the literal statement of C19, which only speaks about device
writes INSIDE segments) - an adjacent engine divergence found on the way:
a device write to a word OUTSIDE every segment makes that word legal program memory under the
python engines (the Reader dict gains the key), while the native engine keeps it page-backed and
invisible to the program, which then stops with a runtime-memory-error.

usage: /venv/bin/python note_out_of_segment_write.py <path-to-checkout>   (exit 1 = divergence present)
"""
import os
import signal
import struct
import sys
import tempfile
from pathlib import Path

CHECKOUT = os.path.abspath(sys.argv[1]) if len(sys.argv) > 1 else '/tmp/wt_C19_H'
sys.path.insert(0, CHECKOUT)
import flipjump  # noqa: E402
from flipjump.interpreter import fjm_run  # noqa: E402
from flipjump.interpreter.io_devices.IODevice import IODevice  # noqa: E402
from flipjump.utils.exceptions import IODeviceException, IOReadOnEOF  # noqa: E402

assert os.path.abspath(flipjump.__file__).startswith(CHECKOUT), flipjump.__file__


class Budget(IODeviceException):
    pass


def on_alarm(*_):
    raise Budget('outer time budget exhausted')


signal.signal(signal.SIGALRM, on_alarm)


class Dev(IODevice):
    calls = 0

    def attach_memory(self, dm):
        self.dm = dm

    def read_bit(self):
        raise IOReadOnEOF('no input')

    def write_bit(self, bit):
        self.calls += 1
        if self.calls > 100:
            raise Budget('callback budget')
        self.dm.write_word(100, 0)  # word 100 is outside the only segment [0, 30)

    def get_output(self, *, allow_incomplete_output=False):
        return b''


w, dw = 64, 128
# op0 -> op2 ; op2 outputs a bit ; op3 flips a bit of word 100 ; op4 self-loops
words = [20 * w, 2 * dw, 0, 0, dw + 1, 3 * dw, 100 * w, 4 * dw, 20 * w + 1, 4 * dw]
path = os.path.join(tempfile.mkdtemp(prefix='c19_note_'), 'a.fjm')
with open(path, 'wb') as f:
    f.write(struct.pack('<HHQQ', 0x4A46, w, 0, 1) + struct.pack('<QQQQ', 0, 30, 0, len(words)))
    f.write(struct.pack(f'<{len(words)}Q', *words))

engines = [('featured', dict(profile=True), {}), ('fast', {}, {'FLIPJUMP_NO_NATIVE': '1'})]
if fjm_run._fjcore is not None:
    engines += [('native-flat', {}, {}), ('native-paged', {}, {'FLIPJUMP_NO_FLAT': '1'})]
results = {}
for name, kwargs, env in engines:
    for k in ('FLIPJUMP_NO_NATIVE', 'FLIPJUMP_NO_FLAT'):
        os.environ.pop(k, None)
    os.environ.update(env)
    device = Dev()
    signal.alarm(60)
    try:
        stats = fjm_run.run(Path(path), io_device=device, **kwargs)
    finally:
        signal.alarm(0)
    results[name] = (str(stats.termination_cause), stats.op_counter, device.dm.read_word(100))
    print(f'{name:13s} cause={results[name][0]}, ops={results[name][1]}, device reads word 100 = {results[name][2]}')
sys.exit(1 if len(set(results.values())) > 1 else 0)
