"""fuzz InMemoryScreen decoding against an independent model written from the module docstring."""
import random
import sys

sys.path.insert(0, '/tmp/wt_C19_H')
from flipjump.interpreter.io_devices.ScreenIO import InMemoryScreen  # noqa
from flipjump.interpreter.io_devices.device_memory import DeviceMemory  # noqa
from flipjump.utils.exceptions import IODeviceException  # noqa


class FakeMem(DeviceMemory):
    def __init__(self, w, rng):
        self.memory_width = w
        self.rng = rng
        self.words = {}

    def read_word(self, a):
        if a not in self.words:
            self.words[a] = random.Random(a * 7919 + 13).getrandbits(self.memory_width)
        return self.words[a]

    def write_word(self, a, v):
        self.words[a] = v & ((1 << self.memory_width) - 1)


class Reject(Exception):
    pass


class Model:
    def __init__(self, mem):
        self.mem = mem
        self.w = mem.memory_width
        self.inited = False
        self.frames = []
        self.palette = []
        self.pal_size = 0
        self.pixels = []

    def byte(self, bitaddr):
        w = self.w
        nw = w.bit_length()
        # bits dbit..dbit+7 of op at bitaddr: dbit = w + #w
        start = bitaddr + w + nw
        val = 0
        for i in range(8):
            b = start + i
            word = self.mem.read_word(b // w)
            val |= ((word >> (b % w)) & 1) << i
        return val

    def run(self, stream):
        i = 0
        w8 = self.w // 8
        dw = 2 * self.w

        def need(n):
            return i + n <= len(stream)

        while i < len(stream):
            c = stream[i]
            if c == 1:
                if not need(8):
                    return
                p = stream[i + 1:i + 8]
                i += 8
                width = p[0] | p[1] << 8
                height = p[2] | p[3] << 8
                bpp = p[4]
                ps = p[5] | p[6] << 8
                if bpp not in (4, 8) or width == 0 or height == 0:
                    raise Reject
                self.inited = True
                self.width, self.height, self.bpp, self.pal_size = width, height, bpp, ps
                self.palette = [(0, 0, 0)] * ps
                self.pixels = [0] * (width * height)
            elif c in (2, 3):
                if not need(1 + w8):
                    return
                addr = int.from_bytes(bytes(stream[i + 1:i + 1 + w8]), 'little')
                i += 1 + w8
                if c == 2:
                    self.palette = [tuple(self.byte(addr + (3 * k + j) * dw) for j in range(3)) for k in range(self.pal_size)]
                else:
                    if not self.inited:
                        raise Reject
                    m = (1 << self.bpp) - 1
                    self.pixels = [self.byte(addr + k * dw) & m for k in range(self.width * self.height)]
                    self.frames.append((tuple(self.pixels), tuple(self.palette)))
            elif c == 4:
                if not need(9 + w8):
                    return
                p = stream[i + 1:i + 9]
                addr = int.from_bytes(bytes(stream[i + 9:i + 9 + w8]), 'little')
                i += 9 + w8
                x, y, rw, rh = (p[0] | p[1] << 8, p[2] | p[3] << 8, p[4] | p[5] << 8, p[6] | p[7] << 8)
                if not self.inited:
                    raise Reject
                if x + rw > self.width or y + rh > self.height:
                    raise Reject
                m = (1 << self.bpp) - 1
                for r in range(rh):
                    for cc in range(rw):
                        idx = (y + r) * self.width + x + cc
                        self.pixels[idx] = self.byte(addr + idx * dw) & m
                self.frames.append((tuple(self.pixels), tuple(self.palette)))
            elif c == 5:
                if not self.inited:
                    raise Reject
                n = self.width * self.height
                if not need(1 + n):
                    return
                m = (1 << self.bpp) - 1
                self.pixels = [b & m for b in stream[i + 1:i + 1 + n]]
                i += 1 + n
                self.frames.append((tuple(self.pixels), tuple(self.palette)))
            else:
                raise Reject


def gen_stream(rng, w, aligned):
    w8 = w // 8
    out = []
    dims = None
    for _ in range(rng.randrange(1, 9)):
        r = rng.random()
        if r < 0.3:
            width = rng.choice([0, 1, 2, 3, 5, 8, 17])
            height = rng.choice([0, 1, 2, 3, 4])
            if rng.random() < 0.9:
                width = max(width, 1)
                height = max(height, 1)
            bpp = rng.choice([4, 8, 8, 8, 4, 1, 0, 16]) if rng.random() < 0.3 else rng.choice([4, 8])
            ps = rng.choice([0, 1, 2, 16, 256, 300])
            out += [1, width & 255, width >> 8, height & 255, height >> 8, bpp, ps & 255, ps >> 8]
            dims = (width, height)
        elif r < 0.75:
            c = rng.choice([2, 3, 4])
            addr = rng.getrandbits(w) if rng.random() < 0.5 else rng.getrandbits(20)
            if rng.random() < 0.2:
                addr = (1 << w) - rng.randrange(1, 3000)
            addr &= (1 << w) - 1
            if aligned:
                addr &= ~(w - 1)
            body = []
            if c == 4:
                dw_, dh_ = dims if dims else (4, 4)
                x = rng.randrange(0, dw_ + 2)
                y = rng.randrange(0, dh_ + 2)
                rw = rng.randrange(0, dw_ + 2)
                rh = rng.randrange(0, dh_ + 2)
                for v in (x, y, rw, rh):
                    body += [v & 255, v >> 8]
            out += [c] + body + list(addr.to_bytes(w8, 'little'))
        elif r < 0.9:
            n = (dims[0] * dims[1]) if dims else 3
            if rng.random() < 0.2:
                n = max(0, n - 1)
            out += [5] + [rng.getrandbits(8) for _ in range(n)]
        else:
            out += [rng.choice([0, 6, 7, 255, 0x80])]
    return out


def main():
    aligned = '--aligned' in sys.argv
    bad = 0
    for seed in range(20000):
        rng = random.Random(seed)
        w = rng.choice([16, 32, 64])
        stream = gen_stream(rng, w, aligned)
        mem = FakeMem(w, rng)
        dev = InMemoryScreen()
        dev.attach_memory(mem)
        frames = []
        dev_rej = None
        try:
            for b in stream:
                before = dev.frame_count
                for i in range(8):
                    dev.write_bit(bool((b >> i) & 1))
                if dev.frame_count != before:
                    frames.append((tuple(dev.pixel_indices), tuple(dev.palette)))
        except IODeviceException as e:
            dev_rej = 'reject'
        except Exception as e:  # noqa
            dev_rej = 'EXC ' + type(e).__name__ + ' ' + str(e)
        model = Model(FakeMem(w, rng))
        mod_rej = None
        try:
            model.run(stream)
        except Reject:
            mod_rej = 'reject'
        if dev_rej != mod_rej or frames != model.frames:
            bad += 1
            if bad <= 8:
                print('MISMATCH seed', seed, 'w', w, 'dev', dev_rej, 'model', mod_rej, 'frames', len(frames), len(model.frames), stream[:40])
    print('mismatches', bad)


main()
