import random
import signal
import sys
import tempfile
import os

sys.argv = [sys.argv[0]] + sys.argv[1:]
from harness import *  # noqa


UNALIGNED = bool(os.environ.get('C19_UNALIGNED'))


class Alarm(IODeviceException):
    pass


def on_alarm(*a):
    raise Alarm('alarm')


signal.signal(signal.SIGALRM, on_alarm)


def gen(seed, w):
    rng = random.Random(seed)
    dw = 2 * w
    ww = w.bit_length() - 1
    N = rng.randrange(20, 80)
    tail = rng.randrange(4, 60)
    max_words = (1 << w) >> ww  # words reachable by bit addresses
    segs = []
    # data regions: (start, length, datawords)
    regions = []
    code_len = 2 * N
    regions.append((code_len, tail))  # tail of segment 0
    if w == 16:
        cand = [(300, 20), (1000, 1200), (4000, 96), (2500, 7)]
    else:
        cand = [(16380, 10), (20000, 3000), (32760, 20), (1 << 20, 6)]
        if w == 32:
            cand += [((1 << 26) + 5, 9), ((1 << 27) - 8, 8)]
        else:
            cand += [((1 << 40) + 16383, 4), ((1 << 58) - 4, 4), ((1 << 23) - 3, 6)]
    extra = [c for c in cand if rng.random() < 0.6]
    hyb_choices = [1, 2, 3, 7, code_len - 1, code_len, code_len + 1, code_len + tail // 2, code_len + tail, 16384, 16385, 20001, 1 << 20]
    hyb = rng.choice(hyb_choices)
    for (s, l) in extra:
        regions.append((s, l))
    # word pool: data words reachable by program and device
    pool = []
    for (s, l) in regions:
        idx = {0, 1, l - 1, l - 2, l // 2}
        idx |= {rng.randrange(l) for _ in range(4)}
        pool += [s + i for i in idx if 0 <= i < l]
    # words near the hyb boundary in seg0 tail
    for a in (hyb - 2, hyb - 1, hyb, hyb + 1):
        if code_len <= a < code_len + tail:
            pool.append(a)
    pool = sorted(set(pool))
    prog_pool = [a for a in pool if a < max_words]

    def target():
        r = rng.random()
        if r < 0.45:
            return dw + rng.randrange(2)
        a = rng.choice(prog_pool)
        return (a << ww) + rng.randrange(w)

    words = []
    for k in range(N):
        if k == 0:
            f, j = target_nonio(rng, prog_pool, ww, w), dw
        elif k == 1:
            f, j = (rng.choice(prog_pool) << ww) + 4 * rng.randrange(w // 4), 2 * dw
        elif k == N - 1:
            f, j = target_nonio(rng, prog_pool, ww, w), k * dw
        else:
            f = target()
            j = (k + 1) * dw
            if rng.random() < 0.05:
                j = dw  # back to the input op
        words += [f, j]
    seg0 = (0, code_len + tail, words)
    segs = [seg0]
    for (s, l) in regions[1:]:
        nd = rng.choice([0, 2, min(l, 4) & ~1])
        segs.append((s, l, [rng.getrandbits(w) for _ in range(nd)]))
    rng.shuffle(segs)
    # op pool for packed bytes: even word addresses a where a, a+1 in-segment
    inseg = set()
    for (s, l) in regions:
        for a in pool:
            pass
    def in_region(a):
        return any(s <= a < s + l for (s, l) in regions)
    op_pool = sorted({(a & ~1) << ww for a in pool if in_region(a & ~1) and in_region((a & ~1) + 1)})
    if not op_pool:
        op_pool = [code_len << ww]

    def code_patch(r, dm, entry):
        if r.random() < 0.15:
            k = r.randrange(2, N - 1)
            m = r.randrange(k + 1, N)
            off = 0
            if UNALIGNED and r.random() < 0.3:
                off = r.choice([w, r.randrange(dw), 1, w - 1, w + 1])
            dm.write_word(2 * k + 1, m * dw + off)
            entry.append(('pj', k, m, off))
        if r.random() < 0.1:
            k = r.randrange(2, N - 1)
            if r.random() < 0.5:
                t = dw + r.randrange(2)
            else:
                t = (r.choice(prog_pool) << ww) + r.randrange(w)
            dm.write_word(2 * k, t)
            entry.append(('pf', k, t))

    nbits = rng.randrange(1, 9)
    inbits = [rng.randrange(2) for _ in range(nbits)]
    dseed = rng.getrandbits(32)

    def make_device():
        return ScriptDevice(dseed, pool, op_pool, code_patch, max_callbacks=400, input_bits=inbits)

    final_words = pool + list(range(0, code_len))
    return segs, make_device, hyb, final_words


def target_nonio(rng, prog_pool, ww, w):
    return (rng.choice(prog_pool) << ww) + rng.randrange(w)


def main():
    start = int(sys.argv[1]) if len(sys.argv) > 1 else 0
    count = int(sys.argv[2]) if len(sys.argv) > 2 else 200
    tmp = tempfile.mkdtemp(prefix='c19_')
    nd = 0
    for seed in range(start, start + count):
        for w in (16, 32, 64):
            segs, make_device, hyb, final_words = gen(seed, w)
            path = os.path.join(tmp, f'p_{seed}_{w}.fjm')
            write_fjm(path, w, segs)
            signal.alarm(20)
            try:
                diffs, outs = compare(path, make_device, hyb, final_words)
            finally:
                signal.alarm(0)
            if diffs:
                nd += 1
                print('DIFF seed', seed, 'w', w, 'hyb', hyb, diffs)
                ref = outs['featured']
                for name in diffs[:3]:
                    o = outs[name]
                    print('  ', name, o[0], 'ref', ref[0])
                    print('   logdiff', first_log_diff(ref[1], o[1]))
                    if ref[2] != o[2]:
                        bad = [(final_words[i], ref[2][i], o[2][i]) for i in range(len(final_words)) if ref[2][i] != o[2][i]]
                        print('   final diff', bad[:5])
            else:
                os.remove(path)
        if seed % 20 == 0:
            print('seed', seed, 'ok so far, diffs', nd, outs['featured'][0], outs['native-flat'][0], flush=True)
    print('done diffs', nd)


if __name__ == "__main__":
    main()
