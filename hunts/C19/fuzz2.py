"""variant: the code continues in a far chunk that straddles a page boundary / the flat window."""
import random, signal, sys, tempfile, os
from harness import *
import fuzz1

signal.signal(signal.SIGALRM, fuzz1.on_alarm)


def gen(seed, w):
    rng = random.Random(seed)
    dw = 2 * w
    ww = w.bit_length() - 1
    N1 = rng.randrange(4, 12)
    N2 = rng.randrange(6, 14)
    N = N1 + N2
    if w == 16:
        Bw = rng.choice([201, 300, 1001, 2048, 2047])
    else:
        Bw = rng.choice([16383, 16381, 16382, 16380, 32767, 16384 * 3 - 1, 16384 - 7])
    tail = rng.randrange(4, 20)
    lenB = 2 * N2 + tail
    addr = [2 * k * w for k in range(N1)] + [(Bw + 2 * i) * w for i in range(N2)]
    hyb = rng.choice([Bw - 1, Bw, Bw + 1, Bw + 2, Bw + 3, Bw + 4, Bw + 2 * N2, Bw + lenB - 1, 2 * N1 + 1, 1 << 20])
    pool = sorted(set([2 * N1 + i for i in range(tail)] + [Bw + 2 * N2 + i for i in range(tail)]))
    def tgt(r):
        if r.random() < 0.45:
            return dw + r.randrange(2)
        return (r.choice(pool) << ww) + r.randrange(w)
    A, B = [], []
    for k in range(N):
        if k == 0:
            f, j = (rng.choice(pool) << ww) + rng.randrange(w), addr[2]
        elif k == 1:
            f, j = (rng.choice(pool) << ww) + 4 * rng.randrange(w // 4), addr[2]
        elif k == N - 1:
            f, j = (rng.choice(pool) << ww) + rng.randrange(w), addr[k]
        else:
            f, j = tgt(rng), addr[k + 1]
            if rng.random() < 0.2:
                j = addr[rng.randrange(k + 1, N)]
        (A if k < N1 else B).extend([f, j])
    segs = [(0, 2 * N1 + tail, A), (Bw, lenB, B)]
    rng.shuffle(segs)
    op_pool = sorted({(a << ww) for a in pool if a + 1 in pool})
    def word_of(k):
        return addr[k] >> ww
    def code_patch(r, dm, entry):
        if r.random() < 0.25:
            k = r.randrange(2, N - 1); m = r.randrange(k + 1, N)
            dm.write_word(word_of(k) + 1, addr[m]); entry.append(('pj', k, m))
        if r.random() < 0.15:
            k = r.randrange(2, N - 1); t = tgt(r)
            dm.write_word(word_of(k), t); entry.append(('pf', k, t))
        if r.random() < 0.2:
            k = r.randrange(0, N)
            entry.append(('rc', k, dm.read_word(word_of(k)), dm.read_word(word_of(k) + 1), dm.read_data_byte(addr[k])))
    dseed = rng.getrandbits(32)
    def make_device():
        return ScriptDevice(dseed, pool, op_pool or [pool[0] << ww], code_patch, max_callbacks=300, input_bits=[])
    final = pool + [word_of(k) + d for k in range(N) for d in (0, 1)]
    return segs, make_device, hyb, final


def main():
    start, count = int(sys.argv[1]), int(sys.argv[2])
    tmp = tempfile.mkdtemp(prefix='c19b_')
    nd = 0
    for seed in range(start, start + count):
        for w in (16, 32, 64):
            segs, mk, hyb, final = gen(seed, w)
            path = os.path.join(tmp, f'p_{seed}_{w}.fjm')
            write_fjm(path, w, segs)
            signal.alarm(30)
            try:
                diffs, outs = compare(path, mk, hyb, final)
            finally:
                signal.alarm(0)
            if diffs:
                nd += 1
                ref = outs['featured']
                print('DIFF seed', seed, 'w', w, 'hyb', hyb, diffs)
                for name in diffs[:3]:
                    o = outs[name]
                    print('  ', name, o[0], 'ref', ref[0], 'logdiff', str(first_log_diff(ref[1], o[1]))[:300])
            else:
                os.remove(path)
        if seed % 25 == 0:
            print('seed', seed, 'diffs', nd, outs['featured'][0], outs['native-flat'][0], len(outs['featured'][1]), flush=True)
    print('done diffs', nd)

main()
