"""
C19 finding 1: the python-engine DeviceMemory adapter wraps device word-addresses at 2^w words,
the native adapter does not -> the same screen program presents different frames per engine
(w=16, a screen of more than 32768 pixels), and a word inside a declared segment at a
word-address >= 2^w is read wrongly by the python engines.

usage: /venv/bin/python repro_1.py <path-to-checkout>
exit 1 = violation present, exit 0 = not present.
"""
import os
import signal
import struct
import sys
import tempfile
from pathlib import Path

CHECKOUT = os.path.abspath(sys.argv[1]) if len(sys.argv) > 1 else '/tmp/wt_C19_H'
sys.path.insert(0, CHECKOUT)

import flipjump  # noqa: E402
from flipjump.interpreter import fjm_run  # noqa: E402
from flipjump.interpreter.io_devices.IODevice import IODevice  # noqa: E402
from flipjump.interpreter.io_devices.ScreenIO import InMemoryScreen  # noqa: E402
from flipjump.utils.exceptions import IODeviceException, IOReadOnEOF  # noqa: E402

assert os.path.abspath(flipjump.__file__).startswith(CHECKOUT), flipjump.__file__


class Budget(IODeviceException):
    pass


def on_alarm(*_):
    raise Budget('outer time budget exhausted')


signal.signal(signal.SIGALRM, on_alarm)

ENV_KEYS = ['FLIPJUMP_NO_NATIVE', 'FLIPJUMP_NO_FLAT', 'FLIPJUMP_MEASURE_SPECULATION', 'FLIPJUMP_FLAT_MAX_WORDS']
ENGINES = [('featured', dict(profile=True), {}), ('fast', {}, {'FLIPJUMP_NO_NATIVE': '1'})]
if fjm_run._fjcore is not None:
    ENGINES.append(('native', {}, {}))
else:
    print('note: the native engine is not built - only the python engines are compared')


def write_fjm(path, w, segments):
    """a version-0 .fjm: segments = [(start_word, length_words, data_words)]"""
    data, segs = [], []
    for start, length, words in segments:
        segs.append((start, length, len(data), len(words)))
        data.extend(words)
    tag = {16: 'H', 32: 'L', 64: 'Q'}[w]
    with open(path, 'wb') as f:
        f.write(struct.pack('<HHQQ', 0x4A46, w, 0, len(segs)))
        for s in segs:
            f.write(struct.pack('<QQQQ', *s))
        f.write(struct.pack('<' + tag * len(data), *data))


def output_program(w, stream_bytes):
    """a straight-line program: one op per output bit, then a self-loop (halts by Looping)."""
    dw = 2 * w
    bits = [(b >> i) & 1 for b in stream_bytes for i in range(8)]
    n = 2 + len(bits) + 1
    scratch = (2 * n) * w  # the first zero-filled tail word of the segment
    words = [scratch, 2 * dw, 0, 0]  # op0 jumps over the IO op (op1)
    for k, bit in enumerate(bits):
        words += [dw + bit, (3 + k) * dw]
    words += [scratch + 1, (n - 1) * dw]
    return [(0, 2 * n + 4, words)]


def run(fjm_path, device, kwargs, env):
    for k in ENV_KEYS:
        os.environ.pop(k, None)
    os.environ.update(env)
    signal.alarm(120)
    try:
        return fjm_run.run(Path(fjm_path), io_device=device, **kwargs)
    finally:
        signal.alarm(0)
        for k in ENV_KEYS:
            os.environ.pop(k, None)


class BoundedScreen(InMemoryScreen):
    calls = 0

    def write_bit(self, bit):
        self.calls += 1
        if self.calls > 10000:
            raise Budget('callback budget')
        super().write_bit(bit)


def check_frames(tmp):
    """w=16: init_screen 256x129 (33024 pixels), update_screen at address 0."""
    w, width, height = 16, 256, 129
    stream = [1, width & 255, width >> 8, height & 255, height >> 8, 8, 0, 0] + [3, 0, 0]
    path = os.path.join(tmp, 'screen16.fjm')
    write_fjm(path, w, output_program(w, stream))
    results = {}
    for name, kwargs, env in ENGINES:
        screen = BoundedScreen()
        stats = run(path, screen, kwargs, env)
        results[name] = (str(stats.termination_cause), [h for _, h in screen.frame_hashes], list(screen.pixel_indices))
        print(f'  {name:9s} {results[name][0]}, frames={len(results[name][1])}, '
              f'hash={results[name][1][0][:16] if results[name][1] else None}, '
              f'pixels[32768:32776]={results[name][2][32768:32776]}')
    reference = results[ENGINES[0][0]]
    bad = [name for name in results if results[name][:2] != reference[:2]]
    if bad:
        first = next(i for i in range(width * height) if results[bad[0]][2][i] != reference[2][i])
        print(f'VIOLATION: engines {bad} present a different frame than {ENGINES[0][0]} '
              f'(first differing pixel: {first}; the device read word-address {1 + 2 * first})')
    return bool(bad)


class ReadOnce(IODevice):
    def __init__(self, word_address, op_bit_address):
        self.word_address, self.op_bit_address = word_address, op_bit_address
        self.seen = None
        self.calls = 0

    def attach_memory(self, device_memory):
        self.device_memory = device_memory

    def read_bit(self):
        raise IOReadOnEOF('no input')

    def write_bit(self, bit):
        self.calls += 1
        if self.calls > 100:
            raise Budget('callback budget')
        dm = self.device_memory
        self.seen = (dm.read_word(self.word_address), dm.read_data_byte(self.op_bit_address))

    def get_output(self, *, allow_incomplete_output=False):
        return b''


def check_in_segment_read(tmp):
    """w=16: a second segment at word 0x10004 holding 0xBEEF, 0x1234 - the device reads it."""
    w = 16
    dw = 2 * w
    scratch = 8 * w
    words = [scratch, 2 * dw, 0, 0, dw + 1, 3 * dw, scratch + 1, 3 * dw]
    path = os.path.join(tmp, 'far16.fjm')
    write_fjm(path, w, [(0, 10, words), (0x10004, 4, [0xBEEF, 0x1234])])
    expected = (0xBEEF, (0x1234 >> 5) & 0xFF)
    bad = False
    for name, kwargs, env in ENGINES:
        device = ReadOnce(0x10004, 0x10004 << 4)
        stats = run(path, device, kwargs, env)
        ok = device.seen == expected
        bad |= not ok
        print(f'  {name:9s} {stats.termination_cause}: read_word(0x10004), read_data_byte(0x10004*w) = '
              f'{tuple(hex(v) for v in device.seen)}  expected {tuple(hex(v) for v in expected)}'
              f'{"" if ok else "   <-- WRONG"}')
    if bad:
        print('VIOLATION: an in-segment word is not returned by the device read on every engine')
    return bad


def main():
    tmp = tempfile.mkdtemp(prefix='c19_repro1_')
    print('[a] same screen program, every engine (w=16, 256x129 screen, framebuffer address 0):')
    bad_a = check_frames(tmp)
    print('[b] device read of an in-segment word at word-address 0x10004 (w=16):')
    bad_b = check_in_segment_read(tmp)
    if bad_a or bad_b:
        sys.exit(1)
    print('no violation')
    sys.exit(0)


main()
