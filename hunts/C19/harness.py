"""differential harness: same raw fj program + same deterministic device, run under every engine / storage mode."""
import os
import random
import struct
import sys
import tempfile
from pathlib import Path

CHECKOUT = sys.argv[1] if len(sys.argv) > 1 and not sys.argv[1].isdigit() else '/tmp/wt_C19_H'
sys.path.insert(0, CHECKOUT)

import flipjump  # noqa: E402
from flipjump.interpreter import fjm_run  # noqa: E402
from flipjump.interpreter.io_devices.IODevice import IODevice  # noqa: E402
from flipjump.utils.exceptions import IODeviceException, IOReadOnEOF  # noqa: E402

assert flipjump.__file__.startswith(CHECKOUT), flipjump.__file__


class Budget(IODeviceException):
    pass


def write_fjm(path, w, segments):
    """segments: list of (start_word, length_words, data_words list)"""
    data = []
    segs = []
    for start, length, words in segments:
        segs.append((start, length, len(data), len(words)))
        data.extend(words)
    tag = {8: 'B', 16: 'H', 32: 'L', 64: 'Q'}[w]
    with open(path, 'wb') as f:
        f.write(struct.pack('<HHQQ', 0x4A46, w, 0, len(segs)))
        for s in segs:
            f.write(struct.pack('<QQQQ', *s))
        f.write(struct.pack('<' + tag * len(data), *data))


class ScriptDevice(IODevice):
    """at each write_bit callback, performs a deterministic (seeded) list of memory accesses."""

    def __init__(self, seed, word_pool, op_pool, code_patch, max_callbacks=5000, input_bits=None):
        self.rng = random.Random(seed)
        self.word_pool = word_pool
        self.op_pool = op_pool  # dw-aligned bit addresses for packed-byte access
        self.code_patch = code_patch  # callable(rng, dm, log) or None
        self.dm = None
        self.log = []
        self.n = 0
        self.max_callbacks = max_callbacks
        self.input_bits = list(input_bits or [])

    def attach_memory(self, dm):
        self.dm = dm

    def _poke(self, tag):
        rng, dm = self.rng, self.dm
        w = dm.memory_width
        entry = [tag]
        for _ in range(rng.randrange(4)):
            kind = rng.randrange(4)
            if kind == 0:
                a = rng.choice(self.word_pool)
                entry.append(('rw', a, dm.read_word(a)))
            elif kind == 1:
                a = rng.choice(self.op_pool)
                entry.append(('rb', a, dm.read_data_byte(a)))
            elif kind == 2:
                a = rng.choice(self.word_pool)
                v = rng.getrandbits(w) if rng.random() < 0.7 else rng.choice([0, (1 << w) - 1, 0xBB67AE8584CAA73B & ((1 << w) - 1), 1 << (w - 1)])
                dm.write_word(a, v)
                entry.append(('ww', a, v))
            else:
                a = rng.choice(self.op_pool)
                v = rng.getrandbits(8)
                dm.write_data_byte(a, v)
                entry.append(('wb', a, v))
        if self.code_patch is not None:
            self.code_patch(rng, dm, entry)
        self.log.append(tuple(entry))

    def write_bit(self, bit):
        self.n += 1
        if self.n > self.max_callbacks:
            raise Budget('budget')
        self._poke(('out', bool(bit)))

    def read_bit(self):
        self.n += 1
        if self.n > self.max_callbacks:
            raise Budget('budget')
        if not self.input_bits:
            raise IOReadOnEOF('eof')
        b = self.input_bits.pop(0)
        self._poke(('in', b))
        return bool(b)

    def get_output(self, *, allow_incomplete_output=False):
        return b''


ENGINES = [
    ('featured', dict(profile=True), {}),
    ('fast', {}, {'FLIPJUMP_NO_NATIVE': '1'}),
    ('native-flat', {}, {}),
    ('native-hybrid', dict(flat_max_words='HYB'), {}),
    ('native-paged', {}, {'FLIPJUMP_NO_FLAT': '1'}),
    ('native-flat-ring', dict(last_ops_debugging_list_length=3), {}),
    ('native-hybrid-ring', dict(flat_max_words='HYB', last_ops_debugging_list_length=3), {}),
    ('native-paged-ring', dict(last_ops_debugging_list_length=3), {'FLIPJUMP_NO_FLAT': '1'}),
    ('native-measured', {}, {'FLIPJUMP_MEASURE_SPECULATION': '1'}),
    ('native-hybrid-measured', dict(flat_max_words='HYB'), {'FLIPJUMP_MEASURE_SPECULATION': '1'}),
]
ENV_KEYS = ['FLIPJUMP_NO_NATIVE', 'FLIPJUMP_NO_FLAT', 'FLIPJUMP_MEASURE_SPECULATION', 'FLIPJUMP_FLAT_MAX_WORDS']


def run_engine(name, kwargs, env, fjm_path, make_device, hyb, final_words):
    for k in ENV_KEYS:
        os.environ.pop(k, None)
    os.environ.update(env)
    kwargs = {k: (hyb if v == 'HYB' else v) for k, v in kwargs.items()}
    dev = make_device()
    try:
        stats = fjm_run.run(Path(fjm_path), io_device=dev, **kwargs)
        result = ('term', str(stats.termination_cause), stats.op_counter, stats.memory_error_address, stats.storage_mode)
    except Budget:
        result = ('budget',)
    except Exception as e:  # noqa
        result = ('exc', type(e).__name__, str(e)[:100], type(e.__cause__).__name__ if e.__cause__ else None)
    finally:
        for k in ENV_KEYS:
            os.environ.pop(k, None)
    final = tuple(dev.dm.read_word(a) for a in final_words) if dev.dm else None
    return result, dev.log, final


def compare(fjm_path, make_device, hyb, final_words, verbose=False, engines=ENGINES):
    outs = {}
    for name, kwargs, env in engines:
        outs[name] = run_engine(name, kwargs, env, fjm_path, make_device, hyb, final_words)
    ref_name = engines[0][0]
    ref = outs[ref_name]
    diffs = []
    for name, out in outs.items():
        r0 = ref[0][:4] if ref[0][0] == 'term' else ref[0]
        r1 = out[0][:4] if out[0][0] == 'term' else out[0]
        if r0 != r1 or ref[1] != out[1] or ref[2] != out[2]:
            diffs.append(name)
    if verbose:
        for name, out in outs.items():
            print(name, out[0], len(out[1]))
    return diffs, outs


def first_log_diff(a, b):
    for i, (x, y) in enumerate(zip(a, b)):
        if x != y:
            return i, x, y
    if len(a) != len(b):
        return min(len(a), len(b)), None, None
    return None
