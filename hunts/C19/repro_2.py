"""
C19 finding 2: the screen device neither decodes nor rejects a framebuffer / palette address
that is not word-aligned: the low log2(w) bits of the bit-address are silently dropped, so the
frame shows other bits than the documented layout
  "pixel (px, py) is the packed byte at screen_address + (px + py*width)*dw"
  (packed byte = bits dbit..dbit+7 of the op at that bit-address, dbit = w + #w)
prescribes, and no device error is raised.

usage: /venv/bin/python repro_2.py <path-to-checkout>
exit 1 = violation present, exit 0 = not present.
"""
import os
import signal
import struct
import sys
import tempfile
from pathlib import Path

CHECKOUT = os.path.abspath(sys.argv[1]) if len(sys.argv) > 1 else '/tmp/wt_C19_H'
sys.path.insert(0, CHECKOUT)

import flipjump  # noqa: E402
from flipjump.interpreter import fjm_run  # noqa: E402
from flipjump.interpreter.io_devices.ScreenIO import InMemoryScreen  # noqa: E402
from flipjump.utils.exceptions import IODeviceException  # noqa: E402

assert os.path.abspath(flipjump.__file__).startswith(CHECKOUT), flipjump.__file__


class Budget(IODeviceException):
    pass


def on_alarm(*_):
    raise Budget('outer time budget exhausted')


signal.signal(signal.SIGALRM, on_alarm)


class BoundedScreen(InMemoryScreen):
    calls = 0

    def write_bit(self, bit):
        self.calls += 1
        if self.calls > 10000:
            raise Budget('callback budget')
        super().write_bit(bit)


def write_fjm(path, w, segments):
    data, segs = [], []
    for start, length, words in segments:
        segs.append((start, length, len(data), len(words)))
        data.extend(words)
    tag = {16: 'H', 32: 'L', 64: 'Q'}[w]
    with open(path, 'wb') as f:
        f.write(struct.pack('<HHQQ', 0x4A46, w, 0, len(segs)))
        for s in segs:
            f.write(struct.pack('<QQQQ', *s))
        f.write(struct.pack('<' + tag * len(data), *data))


PIXELS = [0x55, 0x33, 0x0F, 0x81]


def build(w, misalignment):
    """code: one op per output bit; then the framebuffer (4 packed-byte ops); returns
    (segments, the address sent to the device, the memory image as a word list)."""
    dw = 2 * w
    w8 = w // 8
    n_bits = 8 * (8 + 1 + w8)
    n_ops = 2 + n_bits + 1
    fb_word = 2 * n_ops  # the framebuffer starts right after the code
    address = fb_word * w + misalignment

    stream = [1, 2, 0, 2, 0, 8, 0, 0] + [3] + list(address.to_bytes(w8, 'little'))
    bits = [(b >> i) & 1 for b in stream for i in range(8)]
    scratch = (fb_word + 2 * len(PIXELS)) * w  # a zero tail word after the framebuffer
    words = [scratch, 2 * dw, 0, 0]
    for k, bit in enumerate(bits):
        words += [dw + bit, (3 + k) * dw]
    words += [scratch + 1, (n_ops - 1) * dw]
    assert len(words) == fb_word
    for pixel in PIXELS:
        words += [0, pixel << w.bit_length()]  # ;pixel*dw  (dw = 2^#w)
    return [(0, len(words) + 4, words)], address, words + [0] * 4


def layout_byte(image, w, op_bit_address):
    """bits dbit..dbit+7 of the op at op_bit_address, straight from the memory image."""
    first = op_bit_address + w + w.bit_length()
    value = 0
    for i in range(8):
        bit = first + i
        value |= ((image[bit // w] >> (bit % w)) & 1) << i
    return value


def main():
    tmp = tempfile.mkdtemp(prefix='c19_repro2_')
    violations = 0
    for w in (16, 32, 64):
        for misalignment in (1, w.bit_length(), w - 1):
            segments, address, image = build(w, misalignment)
            path = os.path.join(tmp, f'fb_{w}_{misalignment}.fjm')
            write_fjm(path, w, segments)
            expected = [layout_byte(image, w, address + k * 2 * w) for k in range(4)]
            screen = BoundedScreen()
            signal.alarm(60)
            try:
                stats = fjm_run.run(Path(path), io_device=screen)
                outcome = f'{stats.termination_cause}, {screen.frame_count} frame(s), pixels={screen.pixel_indices}'
                ok = screen.frame_count == 1 and screen.pixel_indices == expected
            except Budget:
                raise
            except IODeviceException as e:
                outcome, ok = f'rejected with a device error: {e}', True
            finally:
                signal.alarm(0)
            if not ok:
                violations += 1
            print(f'w={w:2d} screen_address = framebuffer+{misalignment:<2d}: {outcome}; '
                  f'documented layout gives {expected}{"" if ok else "   <-- neither decoded nor rejected"}')
    if violations:
        print(f'VIOLATION: {violations} misaligned-address commands were neither decoded per the layout nor rejected')
        sys.exit(1)
    print('no violation')
    sys.exit(0)


main()
