"""
C06 finding 1: the fjm Writer accepts segments that lie outside the w-bit address space
(segment_start >= 2^w words, or segment_start + segment_length > 2^64), the Reader loads the file,
and the words of such a segment can not be read back: get_word() folds the word address with
`& (2^w - 1)`, so it returns the word of ANOTHER segment (or reports an in-segment address invalid).

usage: /venv/bin/python repro_1.py <path-to-checkout>
exit 1 - the violation is present; exit 0 - it is not (the writer rejects the input with
FlipJumpWriteFjmException, or every in-segment address reads back the supplied word).
"""

import subprocess
import sys
import tempfile
from pathlib import Path

checkout = str(Path(sys.argv[1]).resolve()) if len(sys.argv) > 1 else '.'
sys.path.insert(0, checkout)

import flipjump  # noqa: E402
from flipjump.fjm.fjm_consts import FJMVersion  # noqa: E402
from flipjump.fjm.fjm_reader import Reader  # noqa: E402
from flipjump.fjm.fjm_writer import Writer  # noqa: E402
from flipjump.utils.exceptions import FlipJumpWriteFjmException  # noqa: E402

assert Path(flipjump.__file__).resolve().is_relative_to(Path(checkout)), flipjump.__file__

tmp = Path(tempfile.mkdtemp(prefix='c06_repro1_'))

# (name, w, [(segment_start, segment_length, data), ...])
CASES = [
    ('w=8: a segment at word 2^8 next to a segment at word 0', 8, [(0, 2, [1, 2]), (1 << 8, 2, [3, 4])]),
    ('w=16: a single segment at word 2^16', 16, [(1 << 16, 2, [3, 4])]),
    ('w=32: a segment at word 2^32 next to a segment at word 0', 32, [(0, 2, [1, 2]), (1 << 32, 2, [3, 4])]),
    (
        'w=64: a segment [2^64-2, 2^64+2) (start + length > 2^64) next to a segment at word 0',
        64,
        [(0, 2, [5, 6]), ((1 << 64) - 2, 4, [1, 2, 3, 4])],
    ),
]

violations = []
for name, w, segments in CASES:
    for version in FJMVersion:
        path = tmp / f'w{w}_v{version.value}.fjm'
        writer = Writer(path, w, version, lzma_preset=6)
        try:
            for start, length, data in segments:
                data_start = writer.add_data(list(data))
                writer.add_segment(start, length, data_start, len(data))
            writer.write_to_file()
        except FlipJumpWriteFjmException:
            continue  # rejected with the library's write error: that is what the property prescribes

        try:
            reader = Reader(path)
        except Exception as e:  # the reader refuses a file the writer produced
            violations.append(f'{name}, version {version.value}: the Reader refuses the written file: {e!r}')
            continue

        for start, length, data in segments:
            for i in range(length):
                expected = data[i] if i < len(data) else 0
                try:
                    got = reader.get_word((start + i) * w)
                except Exception as e:
                    got = f'{type(e).__name__}({e})'
                if got != expected:
                    violations.append(
                        f'{name}, version {version.value}: word {hex(start + i)} is inside the segment '
                        f'[{hex(start)}, {hex(start + length)}) and was written as {expected}, '
                        f'but get_word({hex(start + i)}*{w}) gives {got}'
                    )

# supplementary (informational, does not decide the exit code): what running such a file does in the two engines.
# the program is the single op "0;0" (flips its own bit 0, jumps to 0 => ends after one op); bounded by the timeout too.
run_path = tmp / 'run64.fjm'
try:
    run_writer = Writer(run_path, 64, FJMVersion.NormalVersion)
    run_writer.add_simple_segment_with_data(0, [0, 0])
    run_writer.add_simple_segment_with_data((1 << 64) - 2, [1, 2])  # ends exactly at 2^64 words
    run_writer.write_to_file()
    child = (
        "import sys; sys.path.insert(0, sys.argv[1])\n"
        "from pathlib import Path\n"
        "from flipjump.interpreter import fjm_run\n"
        "try:\n"
        "    print('run ->', fjm_run.run(Path(sys.argv[2])).termination_cause)\n"
        "except Exception as e:\n"
        "    print('run ->', type(e).__name__, e, '| caused by', repr(e.__cause__))\n"
    )
    for no_native in ('1', '0'):
        out = subprocess.run(
            [sys.executable, '-c', child, checkout, str(run_path)],
            capture_output=True,
            text=True,
            timeout=60,
            env={'FLIPJUMP_NO_NATIVE': no_native, 'PATH': '/usr/bin:/bin'},
        )
        print(f'[info] w=64 segment [2^64-2, 2^64), FLIPJUMP_NO_NATIVE={no_native}: {out.stdout.strip()}')
except FlipJumpWriteFjmException:
    print('[info] the writer rejects the w=64 segment [2^64-2, 2^64)')
except subprocess.TimeoutExpired:
    print('[info] the run did not end within 60 seconds')

if violations:
    print(f'VIOLATION (C06): {len(violations)} in-segment words are not read back as written:')
    for v in violations:
        print('  -', v)
    sys.exit(1)

print('ok: every accepted image reads back as written (or the writer rejected it).')
sys.exit(0)
