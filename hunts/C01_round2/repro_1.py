#!/usr/bin/env python
"""
C01 / finding 1: an image the Writer can express (one segment ends at word 2^64) is run by the
featured and the fast loop, but the native engine refuses it with
"Unknown exception during running an .fjm file, please report this bug" (ValueError from _fjcore.add_segment).

usage: /venv/bin/python repro_1.py <path-to-checkout>
exit 1: the violation is present; exit 0: it is not (or the native engine is not built there).
"""
import os
import subprocess
import sys
import tempfile

CHILD_TIMEOUT = 120


def child(checkout: str) -> int:
    sys.path.insert(0, checkout)
    import flipjump

    assert os.path.abspath(flipjump.__file__).startswith(os.path.abspath(checkout)), flipjump.__file__
    from pathlib import Path
    from flipjump.fjm.fjm_consts import FJMVersion
    from flipjump.fjm.fjm_writer import Writer
    from flipjump.interpreter import fjm_run
    from flipjump.interpreter.io_devices.IODevice import IODevice
    from flipjump.utils.exceptions import IODeviceException

    class Budget(IODeviceException):
        pass

    class CountingIO(IODevice):  # the program does no IO at all; any callback is already a failure - and bounded
        def __init__(self) -> None:
            self.calls = 0

        def _tick(self) -> None:
            self.calls += 1
            if self.calls > 1000:
                raise Budget('io budget exhausted')

        def read_bit(self) -> bool:
            self._tick()
            return False

        def write_bit(self, bit: bool) -> None:
            self._tick()

        def get_output(self, *, allow_incomplete_output: bool = False) -> bytes:
            return b''

    if fjm_run._fjcore is None:
        print('note: the native engine (_fjcore) is not built in this checkout - only the python loops are checked')

    engines = {
        'featured': (dict(profile=True), {}),
        'fast': ({}, {'FLIPJUMP_NO_NATIVE': '1'}),
        'native(default)': ({}, {}),
    }
    bad = 0
    tmp = tempfile.mkdtemp(prefix='c01_repro1_')
    for w in (8, 16, 32, 64):
        path = Path(tmp) / f'top_segment_w{w}.fjm'
        writer = Writer(path, w, FJMVersion.NormalVersion)
        # op0 (at 0):  flip bit 2w+5 (a scratch bit of word 2), jump to 4w
        # op1 (at 4w): flip bit 2w+5, jump to itself                      -> Looping after 2 ops, no IO
        writer.add_simple_segment_with_data(0, [2 * w + 5, 4 * w, 0, 0, 2 * w + 5, 4 * w])
        # a second, never-addressed, segment: the last two words of the 64-bit word-address space.
        # the Writer accepts it (start, length < 2^64, even, no overlap) and the Reader loads it.
        writer.add_segment((1 << 64) - 2, 2, 0, 0)
        writer.write_to_file()

        for name, (kwargs, env) in engines.items():
            for key in ('FLIPJUMP_NO_NATIVE', 'FLIPJUMP_NO_FLAT', 'FLIPJUMP_MEASURE_SPECULATION'):
                os.environ.pop(key, None)
            os.environ.update(env)
            io = CountingIO()
            try:
                stats = fjm_run.run(path, io_device=io, **kwargs)
                got = (stats.termination_cause.name, stats.op_counter, stats.memory_error_address, io.calls)
            except Exception as e:  # noqa: BLE001
                got = (f'RAISED {type(e).__name__}: {e} (cause: {e.__cause__!r})',)
            expected = ('Looping', 2, None, 0)
            ok = got == expected
            print(f'w={w:2} {name:16} -> {got}   {"ok" if ok else "VIOLATION (expected %r)" % (expected,)}')
            bad += not ok
    return 1 if bad else 0


def main() -> int:
    if len(sys.argv) >= 3 and sys.argv[1] == '--child':
        return child(sys.argv[2])
    if len(sys.argv) != 2:
        print(__doc__)
        return 2
    try:
        done = subprocess.run([sys.executable, os.path.abspath(__file__), '--child', sys.argv[1]], timeout=CHILD_TIMEOUT)
    except subprocess.TimeoutExpired:
        print(f'the run did not finish within {CHILD_TIMEOUT}s - counted as a violation')
        return 1
    return 1 if done.returncode != 0 else 0


if __name__ == '__main__':
    sys.exit(main())
