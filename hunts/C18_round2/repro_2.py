"""C18 finding 2: a FlipJumpRuntimeMemoryException raised BY THE IO DEVICE (a library exception that is
not an IO exception) is neither propagated nor wrapped: fjm_run.run() returns NORMALLY and reports the
device's failure as the program's own 'runtime-memory-error' termination at the device-chosen address.
On top of that the engines disagree about the returned last-ops list (the native engine returns []).

usage: /venv/bin/python repro_2.py <path-to-checkout>
exit 1 = violation present, 0 = not present.
"""
import os
import signal
import sys
import tempfile
from pathlib import Path

checkout = sys.argv[1] if len(sys.argv) > 1 else '.'
sys.path.insert(0, os.path.abspath(checkout))
import flipjump  # noqa: E402

assert os.path.abspath(flipjump.__file__).startswith(os.path.abspath(checkout)), flipjump.__file__
from flipjump.fjm.fjm_writer import Writer  # noqa: E402
from flipjump.fjm.fjm_consts import FJMVersion  # noqa: E402
from flipjump.interpreter import fjm_run  # noqa: E402
from flipjump.interpreter.io_devices.IODevice import IODevice  # noqa: E402
from flipjump.utils.exceptions import (  # noqa: E402
    FlipJumpRuntimeException,
    FlipJumpRuntimeMemoryException,
    IODeviceException,
)

signal.alarm(120)  # hard bound for the whole script

W = 16
DW = 2 * W
# op0 -> op@word4 (outputs the bit 1) -> op@word6 (halts by looping). every word it touches is in the segment.
data = [8 * W, 4 * W, 0, 0, DW + 1, 6 * W, 8 * W + 1, 6 * W, 0, 0]
path = Path(tempfile.mkdtemp()) / 'out1.fjm'
writer = Writer(path, W, FJMVersion.BaseVersion)
writer.add_simple_segment_with_data(0, data)
writer.write_to_file()


class CallBudgetExceeded(IODeviceException):
    pass


class Device(IODevice):
    """e.g. a device that looks something up in a memory of its own with the library's Reader and fails."""

    def __init__(self):
        self.calls = 0

    def read_bit(self) -> bool:
        raise CallBudgetExceeded('unexpected read')

    def write_bit(self, bit: bool) -> None:
        self.calls += 1
        if self.calls > 100:
            raise CallBudgetExceeded('too many io calls')
        raise FlipJumpRuntimeMemoryException('the DEVICE failed, not the program', 0xDEAD0)

    def get_output(self, *, allow_incomplete_output: bool = False) -> bytes:
        return b''


engines = (
    ('native', {}, {}),
    ('fast', {'FLIPJUMP_NO_NATIVE': '1'}, {}),
    ('featured', {}, {'profile': True}),
)
violations = 0
last_ops_seen = {}
for engine, env, kwargs in engines:
    os.environ.pop('FLIPJUMP_NO_NATIVE', None)
    os.environ.update(env)
    try:
        stats = fjm_run.run(path, io_device=Device(), last_ops_debugging_list_length=5, **kwargs)
        last_ops_seen[engine] = list(stats.last_ops_addresses)
        print(
            f'{engine:9s} run() RETURNED NORMALLY: {stats.termination_cause} at {hex(stats.memory_error_address)}, '
            f'ops={stats.op_counter}, last_ops={last_ops_seen[engine]}'
        )
        violations += 1
    except FlipJumpRuntimeMemoryException as propagated:
        print(f'{engine:9s} propagated unchanged: {propagated!r}')
    except FlipJumpRuntimeException as wrapped:
        print(f'{engine:9s} wrapped: {wrapped!r} from {wrapped.__cause__!r}')
os.environ.pop('FLIPJUMP_NO_NATIVE', None)

if len({tuple(v) for v in last_ops_seen.values()}) > 1:
    print(f'VIOLATION: the engines return different last-ops lists for the same stop: {last_ops_seen}')
    violations += 1
if violations:
    print("VIOLATION: the device's exception was reported as a program memory error (the run 'terminated' normally)")
    sys.exit(1)
print('no violation')
sys.exit(0)
