"""C18 finding 1: an exception raised by the IO device that derives from BaseException but not from
Exception (SystemExit from sys.exit(), GeneratorExit, asyncio.CancelledError, any custom BaseException)
is neither "a library IO exception", nor an interrupt - the property says it must be wrapped as the
library's runtime error (FlipJumpRuntimeException). fjm_run.run() lets it escape unwrapped instead,
in all three engines, and the run's op count / last ops are lost with it.

usage: /venv/bin/python repro_1.py <path-to-checkout>
exit 1 = violation present, 0 = not present.
"""
import asyncio
import os
import signal
import sys
import tempfile
from pathlib import Path

checkout = sys.argv[1] if len(sys.argv) > 1 else '.'
sys.path.insert(0, os.path.abspath(checkout))
import flipjump  # noqa: E402

assert os.path.abspath(flipjump.__file__).startswith(os.path.abspath(checkout)), flipjump.__file__
from flipjump.fjm.fjm_writer import Writer  # noqa: E402
from flipjump.fjm.fjm_consts import FJMVersion  # noqa: E402
from flipjump.interpreter import fjm_run  # noqa: E402
from flipjump.interpreter.io_devices.IODevice import IODevice  # noqa: E402
from flipjump.utils.exceptions import FlipJumpRuntimeException, IODeviceException  # noqa: E402

signal.alarm(120)  # hard bound for the whole script

W = 16
DW = 2 * W
# word 0,1: op0  - flip a scratch bit, jump to the op at word 4
# word 4,5: flip address 2w+1 = "output the bit 1", jump to the op at word 6
# word 6,7: flip a scratch bit, jump to itself = halt (looping)
data = [8 * W, 4 * W, 0, 0, DW + 1, 6 * W, 8 * W + 1, 6 * W, 0, 0]
path = Path(tempfile.mkdtemp()) / 'out1.fjm'
writer = Writer(path, W, FJMVersion.BaseVersion)
writer.add_simple_segment_with_data(0, data)
writer.write_to_file()


class CallBudgetExceeded(IODeviceException):
    pass


class CustomBase(BaseException):
    pass


class RaisingDevice(IODevice):
    def __init__(self, make_exception):
        self.make_exception = make_exception
        self.calls = 0

    def _count(self):
        self.calls += 1
        if self.calls > 100:
            raise CallBudgetExceeded('too many io calls')

    def read_bit(self) -> bool:
        self._count()
        raise self.make_exception()

    def write_bit(self, bit: bool) -> None:
        self._count()
        raise self.make_exception()

    def get_output(self, *, allow_incomplete_output: bool = False) -> bytes:
        return b''


def device_calls_sys_exit():
    try:
        sys.exit(3)
    except SystemExit as system_exit:
        return system_exit


kinds = {
    'SystemExit (sys.exit() in the device)': device_calls_sys_exit,
    'GeneratorExit': GeneratorExit,
    'asyncio.CancelledError': asyncio.CancelledError,
    'custom BaseException': lambda: CustomBase('device failure'),
    # control: a foreign Exception IS wrapped
    'control: ValueError': lambda: ValueError('device failure'),
}
engines = (
    ('native', {}, {}),
    ('fast', {'FLIPJUMP_NO_NATIVE': '1'}, {}),
    ('featured', {}, {'profile': True}),
)

violations = 0
for kind_name, make_exception in kinds.items():
    for engine, env, kwargs in engines:
        os.environ.pop('FLIPJUMP_NO_NATIVE', None)
        os.environ.update(env)
        try:
            stats = fjm_run.run(path, io_device=RaisingDevice(make_exception), **kwargs)
            outcome = f'returned {stats.termination_cause}'
            ok = False
        except FlipJumpRuntimeException as wrapped:
            outcome = f'wrapped: FlipJumpRuntimeException from {type(wrapped.__cause__).__name__}'
            ok = True
        except BaseException as escaped:  # noqa
            outcome = f'ESCAPED UNWRAPPED: {type(escaped).__name__}'
            ok = False
        print(f'{kind_name:40s} {engine:9s} {outcome}')
        if not ok:
            violations += 1
os.environ.pop('FLIPJUMP_NO_NATIVE', None)

if violations:
    print(f'VIOLATION: {violations} device exceptions were neither propagated as library IO errors, nor turned '
          f'into a keyboard-interrupt termination, nor wrapped as FlipJumpRuntimeException')
    sys.exit(1)
print('no violation')
sys.exit(0)
