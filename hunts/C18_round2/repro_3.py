"""C18 finding 3: an interrupt delivered while fjm_run.run() is still loading the .fjm file escapes
as a raw KeyboardInterrupt instead of becoming a keyboard-interrupt termination.

usage: /venv/bin/python repro_3.py <path-to-checkout>
exit 1 = violation present, 0 = not present (or inconclusive timing).
"""
import os
import signal
import subprocess
import sys
import tempfile
import time
from pathlib import Path

checkout = sys.argv[1] if len(sys.argv) > 1 else '.'
sys.path.insert(0, os.path.abspath(checkout))
import flipjump  # noqa: E402

assert os.path.abspath(flipjump.__file__).startswith(os.path.abspath(checkout)), flipjump.__file__
from flipjump.fjm.fjm_writer import Writer  # noqa: E402
from flipjump.fjm.fjm_consts import FJMVersion  # noqa: E402
from flipjump.fjm import fjm_reader  # noqa: E402
from flipjump.interpreter import fjm_run  # noqa: E402
from flipjump.interpreter.io_devices.FixedIO import FixedIO  # noqa: E402

signal.alarm(300)  # hard bound for the whole script

W = 32
N_WORDS = 3_000_000  # big enough for the load phase to take a noticeable time
tmp = tempfile.mkdtemp()
path = Path(tmp) / 'big.fjm'
# op 0 = "flip a scratch bit, jump to itself" -> the program halts (looping) after one op.
data = [4 * W, 0] + [0, 0] + [0] * (N_WORDS - 4)
writer = Writer(path, W, FJMVersion.BaseVersion)
writer.add_simple_segment_with_data(0, data)
writer.write_to_file()

start = time.time()
fjm_reader.Reader(path)
load_seconds = time.time() - start
print(f'load phase alone takes {load_seconds:.2f}s')

violations = 0
for engine, env, kwargs in (
    ('native', {}, {}),
    ('fast', {'FLIPJUMP_NO_NATIVE': '1'}, {}),
    ('featured', {}, {'profile': True}),
):
    os.environ.pop('FLIPJUMP_NO_NATIVE', None)
    os.environ.update(env)
    delay = load_seconds * 0.4
    killer = subprocess.Popen(['sh', '-c', f'sleep {delay:.3f}; kill -INT {os.getpid()}'])
    outcome = None
    try:
        try:
            stats = fjm_run.run(path, io_device=FixedIO(b''), **kwargs)
            outcome = f'returned TerminationStatistics({stats.termination_cause}, ops={stats.op_counter})'
            returned = True
        except KeyboardInterrupt:
            outcome = 'raw KeyboardInterrupt escaped fjm_run.run()'
            returned = False
        killer.wait()
        time.sleep(0.05)
    except KeyboardInterrupt:
        # the signal arrived outside run() (timing) - inconclusive for this engine
        print(f'{engine}: inconclusive (the signal landed outside run())')
        killer.wait()
        continue
    print(f'{engine}: {outcome}')
    if not returned:
        violations += 1
    elif str(stats.termination_cause) != 'keyboard-interrupt':
        print(f'  (the signal did not land inside run() - inconclusive)')

os.environ.pop('FLIPJUMP_NO_NATIVE', None)
if violations:
    print(f'VIOLATION: in {violations} engine(s) an interrupt during run() was not turned into a '
          f'keyboard-interrupt termination')
    sys.exit(1)
print('no violation observed')
sys.exit(0)
