#!/usr/bin/env python
"""
C09 finding 2: bit.print_as_digit n, x  is documented (bit/output.fj) as printing x[:n] as
n ascii characters "lsb first", but it prints the MOST significant bit first.
x = 0b0001 (n=4): documented output "1000", actual output "0001".

usage: /venv/bin/python repro_2.py <path-to-checkout>
exit 1 = violation present, exit 0 = not present.
"""
import sys, os, tempfile, multiprocessing as mp
from pathlib import Path

CHECKOUT = os.path.abspath(sys.argv[1] if len(sys.argv) > 1 else '.')
sys.path.insert(0, CHECKOUT)

SRC = r'''
stl.startup
    bit.print_as_digit 4, x
    stl.output '|'
    bit.print_as_digit 8, y
    stl.loop
x: bit.vec 4, 0x1
y: bit.vec 8, 0x0d
'''
EXPECTED = b'1000|10110000'     # lsb first, as the doc comment says


def child(q, w):
    import flipjump
    assert os.path.abspath(flipjump.__file__).startswith(CHECKOUT), flipjump.__file__
    from flipjump import FixedIO
    from flipjump.utils.exceptions import IODeviceException

    class Budget(IODeviceException):
        pass

    class BoundedIO(FixedIO):
        left = 100000

        def write_bit(self, bit):
            self.left -= 1
            if self.left < 0:
                raise Budget('io budget exhausted')
            return super().write_bit(bit)

    d = Path(tempfile.mkdtemp())
    (d / 'p.fj').write_text(SRC)
    flipjump.assemble([d / 'p.fj'], d / 'p.fjm', memory_width=w, print_time=False)
    io = BoundedIO(b'')
    try:
        st = flipjump.run(d / 'p.fjm', io_device=io, print_time=False, print_termination=False)
        cause = str(st.termination_cause)
    except Exception as e:  # noqa
        cause = repr(e)
    q.put((io.get_output(allow_incomplete_output=True), cause))


def main():
    bad = False
    for w in (64, 32):
        q = mp.Queue()
        p = mp.Process(target=child, args=(q, w))
        p.start()
        try:
            out, cause = q.get(timeout=120)
        except Exception:
            p.kill()
            print(f'w={w}: TIMEOUT')
            return 2
        p.join(5)
        if out != EXPECTED:
            bad = True
            print(f'w={w}: VIOLATION: x=0b0001,y=0x0d: got {out!r} ({cause}); '
                  f'documented "lsb first" output is {EXPECTED!r}')
        else:
            print(f'w={w}: ok ({out!r})')
    return 1 if bad else 0


if __name__ == '__main__':
    sys.exit(main())
