#!/usr/bin/env python
"""
C09 finding 1: bit.input n, dst  is documented as reading an 8n-bit LITTLE-endian number
(bit/input.fj doc comment and bit/README.md), but it stores the FIRST input byte in the
MOST significant byte of dst (big-endian).  Consequences checked here:
  (a) bit.input 2, x ; bit.print 2, x      does not echo the input (bytes come out reversed)
  (b) input bytes 01 00 (little-endian 1)   -> bit.print_dec_uint 16, x prints 256, not 1
  (c) hex.input 2 (the hex twin, same doc wording "lsb first") gives the other order.

usage: /venv/bin/python repro_1.py <path-to-checkout>
exit 1 = violation present, exit 0 = not present.
"""
import sys, os, tempfile, multiprocessing as mp
from pathlib import Path

CHECKOUT = os.path.abspath(sys.argv[1] if len(sys.argv) > 1 else '.')
sys.path.insert(0, CHECKOUT)

SRC = r'''
stl.startup
    bit.input 2, x          // documented: "an 8*n bits little endian number into dst[:8n]"
    bit.print 2, x          // documented: "outputs n bytes from x[:8n] (from lsb to msb)"
    stl.output '|'
    bit.input 2, x
    bit.print_dec_uint 16, x
    stl.output '|'
    hex.input 2, h          // the hex twin: bytes[:2n] = input, lsb first
    hex.print 2, h
    stl.loop
x: bit.vec 16
h: hex.vec 4
'''
INPUT = b'AB' + b'\x01\x00' + b'AB'
EXPECTED = b'AB|1|AB'          # what a little-endian reader must produce


def child(q, w):
    import flipjump
    assert os.path.abspath(flipjump.__file__).startswith(CHECKOUT), flipjump.__file__
    from flipjump import FixedIO
    from flipjump.utils.exceptions import IODeviceException

    class Budget(IODeviceException):
        pass

    class BoundedIO(FixedIO):
        left = 100000

        def _tick(self):
            self.left -= 1
            if self.left < 0:
                raise Budget('io budget exhausted')

        def read_bit(self):
            self._tick()
            return super().read_bit()

        def write_bit(self, bit):
            self._tick()
            return super().write_bit(bit)

    d = Path(tempfile.mkdtemp())
    (d / 'p.fj').write_text(SRC)
    flipjump.assemble([d / 'p.fj'], d / 'p.fjm', memory_width=w, print_time=False)
    io = BoundedIO(INPUT)
    try:
        st = flipjump.run(d / 'p.fjm', io_device=io, print_time=False, print_termination=False)
        cause = str(st.termination_cause)
    except Exception as e:  # noqa
        cause = repr(e)
    q.put((io.get_output(allow_incomplete_output=True), cause))


def main():
    bad = False
    for w in (64, 32):
        q = mp.Queue()
        p = mp.Process(target=child, args=(q, w))
        p.start()
        try:
            out, cause = q.get(timeout=120)
        except Exception:
            p.kill()
            print(f'w={w}: TIMEOUT')
            return 2
        p.join(5)
        if out != EXPECTED:
            bad = True
            print(f'w={w}: VIOLATION: input {INPUT!r}: got {out!r} ({cause}), '
                  f'a little-endian bit.input n must give {EXPECTED!r}')
        else:
            print(f'w={w}: ok ({out!r})')
    return 1 if bad else 0


if __name__ == '__main__':
    sys.exit(main())
