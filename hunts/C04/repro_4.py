#!/venv/bin/python
"""
C04 finding 4 (documentation / behaviour disagreement, stale borrow): the one-hex hex.sub dst, src is documented as
plain "dst -= src" (math.fj), but it computes dst - src - borrow and leaves the new borrow in hex.sub.dst, so the
borrow of one hex.sub leaks into the next, unrelated one:  hex.sub a, b (3-5) ; hex.sub c, d (9-2)  ->  c = 6, not 7.
The twin macro hex.add dst, src says so explicitly ("Relies on the add-carry, and updates it at the end."); hex.sub
does not, and the README promises that non-obvious preconditions are written on the macro.
The repro reports a violation only while BOTH hold: the behaviour depends on the stale borrow AND the comment block
above `def sub dst, src` mentions neither carry nor borrow.

usage: /venv/bin/python repro_4.py <path-to-checkout>
exit 1 (and prints what went wrong) when the violation is present, 0 when it is not.
The work is done in a child process with a timeout, and every FlipJump run also has an in-process
time budget (SIGALRM raising a subclass of flipjump's IODeviceException).
"""
import subprocess
import sys

CHILD_TIMEOUT = 300


def child(checkout: str) -> int:
    sys.path.insert(0, checkout)
    import signal
    import tempfile
    from pathlib import Path

    import flipjump
    from flipjump.interpreter import fjm_run
    from flipjump.interpreter.io_devices.IODevice import IODevice
    from flipjump.utils.functions import load_debugging_labels

    assert Path(flipjump.__file__).resolve().is_relative_to(Path(checkout).resolve()), flipjump.__file__

    class Dev(IODevice):
        """no IO is expected; only keeps the device<->memory hook so variables can be read after the run."""

        def __init__(self):
            self.mem = None
            self.bits = 0

        def attach_memory(self, device_memory):
            self.mem = device_memory

        def read_bit(self):
            raise flipjump.IODeviceException('unexpected input')

        def write_bit(self, bit):
            self.bits += 1

        def get_output(self, *, allow_incomplete_output=False):
            return b''

    class RunBudgetExceeded(flipjump.IODeviceException):
        pass

    def _on_alarm(signum, frame):
        raise RunBudgetExceeded('time budget exceeded')

    signal.signal(signal.SIGALRM, _on_alarm)

    def run_prog(src: str, w: int, names, bound_seconds: float = 60):
        """assemble + run (bounded); returns {name: value} of the listed hex vectors, or None if the run did not halt."""
        with tempfile.TemporaryDirectory() as d:
            fj, fjm, dbg = Path(d) / 'p.fj', Path(d) / 'p.fjm', Path(d) / 'p.dbg'
            fj.write_text(src)
            flipjump.assemble([fj], fjm, memory_width=w, debugging_file_path=dbg, print_time=False)
            labels = load_debugging_labels(dbg)
            dev = Dev()
            signal.setitimer(signal.ITIMER_REAL, bound_seconds)
            try:
                term = fjm_run.run(fjm, io_device=dev)
            except RunBudgetExceeded:
                return None
            finally:
                signal.setitimer(signal.ITIMER_REAL, 0)
            if term.termination_cause != flipjump.TerminationCause.Looping:
                return None
            out = {}
            hw = w.bit_length()
            for name, n in names:
                v = 0
                for i in range(n):
                    op = labels[name] + i * 2 * w
                    word = dev.mem.read_word((op >> (hw - 1)) + 1)
                    v |= ((word >> hw) & 0xF) << (4 * i)
                out[name] = v
            return out

    bad = []
    import re
    math_fj = (Path(checkout) / 'flipjump' / 'stl' / 'hex' / 'math.fj').read_text()
    m = re.search(r'((?:[ \t]*//[^\n]*\n)+)[ \t]*def sub dst, src\b', math_fj)
    doc_block = m.group(1) if m else ''
    documented = bool(re.search(r'carry|borrow', doc_block, re.I))
    for w in (64, 32):
        for macro, a0, b0, c0, d0, exp_c in (('sub', 3, 5, 9, 2, 7), ('sub', 0, 1, 0, 0, 0)):
            src = f"""stl.startup_and_init_all
hex.{macro} a, b
hex.{macro} c, d
stl.loop
a: hex.hex {a0}
b: hex.hex {b0}
c: hex.hex {c0}
d: hex.hex {d0}
"""
            got = run_prog(src, w, [('a', 1), ('b', 1), ('c', 1), ('d', 1)])
            if got is None:
                bad.append(f'w={w}: did not halt')
                continue
            if got['c'] != exp_c and not documented:
                bad.append(f"w={w} hex.sub a, b ; hex.sub c, d  (a={a0}, b={b0}, c={c0}, d={d0}): c={got['c']:#x}, the documented "
                           f"'dst -= src' gives {exp_c:#x} - the borrow of the first hex.sub leaked into the second, and the "
                           f"doc comment of 'def sub dst, src' mentions neither carry nor borrow")
    for line in bad:
        print('VIOLATION:', line)
    if not bad:
        print('no violation')
    return 1 if bad else 0


def main():
    if len(sys.argv) >= 3 and sys.argv[1] == '--child':
        sys.exit(child(sys.argv[2]))
    if len(sys.argv) != 2:
        print(__doc__)
        sys.exit(2)
    try:
        r = subprocess.run([sys.executable, __file__, '--child', sys.argv[1]], timeout=CHILD_TIMEOUT)
    except subprocess.TimeoutExpired:
        print('VIOLATION (or harness problem): the bounded run timed out')
        sys.exit(1)
    sys.exit(r.returncode)


if __name__ == '__main__':
    main()
