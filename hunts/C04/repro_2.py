#!/venv/bin/python
"""
C04 finding 2: in-place use of the multiplication / signed-division macros gives wrong values, and an
aliased hex.add_mul leaves the shared multiplication table index dirty for later macros.
 (a) hex.mul n, x, x, y  (x = x*y)  -> x = 0, because res is zeroed before a and b are copied.
 (b) hex.idiv n, nb, a, r, a, b, .. (a /= b) and hex.idiv n, nb, q, a, a, b, .. (a %= b) -> wrong sign / value for a
     negative a, because idiv negates a in place around hex.div and "restores" it after q / r were stored there
     (hex.div itself, which copies a and b first, handles exactly the same calls correctly).
 (c) hex.add_mul n, x, y, x  (x += y * x[0]) leaves hex.mul.dst != its idle value; a later unrelated hex.mul is wrong.
None of these macros carries an "@Assumes: ... distinct" line (hex.min/max, hex.mov n, hex.add_count_bits do).

usage: /venv/bin/python repro_2.py <path-to-checkout>
exit 1 (and prints what went wrong) when the violation is present, 0 when it is not.
The work is done in a child process with a timeout, and every FlipJump run also has an in-process
time budget (SIGALRM raising a subclass of flipjump's IODeviceException).
"""
import subprocess
import sys

CHILD_TIMEOUT = 300


def child(checkout: str) -> int:
    sys.path.insert(0, checkout)
    import signal
    import tempfile
    from pathlib import Path

    import flipjump
    from flipjump.interpreter import fjm_run
    from flipjump.interpreter.io_devices.IODevice import IODevice
    from flipjump.utils.functions import load_debugging_labels

    assert Path(flipjump.__file__).resolve().is_relative_to(Path(checkout).resolve()), flipjump.__file__

    class Dev(IODevice):
        """no IO is expected; only keeps the device<->memory hook so variables can be read after the run."""

        def __init__(self):
            self.mem = None
            self.bits = 0

        def attach_memory(self, device_memory):
            self.mem = device_memory

        def read_bit(self):
            raise flipjump.IODeviceException('unexpected input')

        def write_bit(self, bit):
            self.bits += 1

        def get_output(self, *, allow_incomplete_output=False):
            return b''

    class RunBudgetExceeded(flipjump.IODeviceException):
        pass

    def _on_alarm(signum, frame):
        raise RunBudgetExceeded('time budget exceeded')

    signal.signal(signal.SIGALRM, _on_alarm)

    def run_prog(src: str, w: int, names, bound_seconds: float = 60):
        """assemble + run (bounded); returns {name: value} of the listed hex vectors, or None if the run did not halt."""
        with tempfile.TemporaryDirectory() as d:
            fj, fjm, dbg = Path(d) / 'p.fj', Path(d) / 'p.fjm', Path(d) / 'p.dbg'
            fj.write_text(src)
            flipjump.assemble([fj], fjm, memory_width=w, debugging_file_path=dbg, print_time=False)
            labels = load_debugging_labels(dbg)
            dev = Dev()
            signal.setitimer(signal.ITIMER_REAL, bound_seconds)
            try:
                term = fjm_run.run(fjm, io_device=dev)
            except RunBudgetExceeded:
                return None
            finally:
                signal.setitimer(signal.ITIMER_REAL, 0)
            if term.termination_cause != flipjump.TerminationCause.Looping:
                return None
            out = {}
            hw = w.bit_length()
            for name, n in names:
                v = 0
                for i in range(n):
                    op = labels[name] + i * 2 * w
                    word = dev.mem.read_word((op >> (hw - 1)) + 1)
                    v |= ((word >> hw) & 0xF) << (4 * i)
                out[name] = v
            return out

    bad = []

    def s8(v):
        v &= 0xFF
        return v - 256 if v & 0x80 else v

    for w in (64, 32):
        # (a) in-place multiplication: x = x * y and x = y * x
        for code in ('hex.mul 2, x, x, y', 'hex.mul 2, x, y, x'):
            for x0, y0 in ((0x03, 0x05), (0x12, 0x0B)):
                src = f"""stl.startup_and_init_all
{code}
stl.loop
x: hex.vec 2, {x0}
y: hex.vec 2, {y0}
"""
                got = run_prog(src, w, [('x', 2), ('y', 2)])
                exp = (x0 * y0) & 0xFF
                if got['x'] != exp or got['y'] != y0:
                    bad.append(f"w={w} {code} (x={x0:#04x}, y={y0:#04x}): x={got['x']:#04x} y={got['y']:#04x}, "
                               f"documented res = a*b gives x={exp:#04x}, y unchanged")

        # (b) in-place signed division: a /= b (q is a), a %= b (r is a).  hex.div handles both.
        for macro, opt in (('hex.idiv', ', 1'), ('hex.div', '')):
            for a0, b0 in ((0xFA, 0x03), (0xF9, 0x03), (0xFF, 0x02), (0x80, 0x02), (0x07, 0x02), (0x07, 0xFE)):
                if macro == 'hex.div':
                    q_exp, r_exp = a0 // b0, a0 % b0
                else:
                    sa, sb = s8(a0), s8(b0)
                    q = abs(sa) // abs(sb) * (-1 if (sa < 0) != (sb < 0) else 1)
                    q_exp, r_exp = q & 0xFF, (sa - q * sb) & 0xFF
                for form, qn, rn in (('a /= b', 'a', 'r'), ('a %= b', 'q', 'a')):
                    src = f"""stl.startup_and_init_all
{macro} 2, 2, {qn}, {rn}, a, b, div0{opt}
div0:
stl.loop
a: hex.vec 2, {a0}
b: hex.vec 2, {b0}
q: hex.vec 2
r: hex.vec 2
"""
                    got = run_prog(src, w, [('a', 2), ('b', 2), ('q', 2), ('r', 2)])
                    if got[qn] != q_exp or got[rn] != r_exp or got['b'] != b0:
                        bad.append(f"w={w} {macro} 2,2,{qn},{rn},a,b ({form}; a={a0:#04x}, b={b0:#04x}): "
                                   f"{qn}={got[qn]:#04x} {rn}={got[rn]:#04x} b={got['b']:#04x}, "
                                   f"documented q=a/b, r=a%b gives {qn}={q_exp:#04x} {rn}={r_exp:#04x}")

        # (b') dividend and divisor are the same variable: x / x must be 1 rem 0 (hex.div gets it right)
        for macro, opt in (('hex.idiv', ', 1'), ('hex.div', '')):
            for a0 in (0xFF, 0x85, 0x07):
                src = f"""stl.startup_and_init_all
{macro} 2, 2, q, r, a, a, div0{opt}
div0:
stl.loop
a: hex.vec 2, {a0}
q: hex.vec 2, 0x33
r: hex.vec 2, 0x44
"""
                got = run_prog(src, w, [('a', 2), ('q', 2), ('r', 2)])
                if got is None or (got['q'], got['r'], got['a']) != (1, 0, a0):
                    bad.append(f"w={w} {macro} 2,2,q,r,a,a (a={a0:#04x}): got {got}, documented q=a/b, r=a%b gives q=0x01 r=0x00, a unchanged")

        # (c) hex.add_mul whose one-hex multiplier b is res[0] (x += y * x[0]): the multiplier is xored out of the
        #     shared table index hex.mul.dst after it has changed, so the index stays dirty and a LATER, unrelated
        #     multiplication is wrong (table state leaks into the next macro).
        src = """stl.startup_and_init_all
hex.add_mul 2, x, y, x
hex.mul 2, r, p, q
stl.loop
x: hex.vec 2, 0x01
y: hex.vec 2, 0x01
p: hex.vec 2, 0x03
q: hex.vec 2, 0x05
r: hex.vec 2
"""
        got = run_prog(src, w, [('x', 2), ('y', 2), ('p', 2), ('q', 2), ('r', 2)], bound_seconds=20)
        if got is None:
            bad.append(f"w={w} hex.add_mul 2, x, y, x ; hex.mul 2, r, p, q : the later hex.mul never finishes")
        elif got['r'] != 0x0F or got['x'] != 0x02:
            bad.append(f"w={w} hex.add_mul 2, x, y, x ; hex.mul 2, r, p, q (x=1,y=1,p=3,q=5): x={got['x']:#04x} (formula 0x02), "
                       f"r={got['r']:#04x} (formula 0x0f)")
    for line in bad:
        print('VIOLATION:', line)
    if not bad:
        print('no violation')
    return 1 if bad else 0


def main():
    if len(sys.argv) >= 3 and sys.argv[1] == '--child':
        sys.exit(child(sys.argv[2]))
    if len(sys.argv) != 2:
        print(__doc__)
        sys.exit(2)
    try:
        r = subprocess.run([sys.executable, __file__, '--child', sys.argv[1]], timeout=CHILD_TIMEOUT)
    except subprocess.TimeoutExpired:
        print('VIOLATION (or harness problem): the bounded run timed out')
        sys.exit(1)
    sys.exit(r.returncode)


if __name__ == '__main__':
    main()
