#!/venv/bin/python
"""
C04 finding 3 (vector length 0): hex.shl_bit / shr_bit / shl_hex / shr_hex / mul10 / if / cmp with n = 0 read or
write a hex OUTSIDE the (empty) vector, while the rest of the family (zero, mov, xor, or, and, not, inc, dec, neg,
add, sub, set, xor_by, swap, ...) is a no-op for n = 0 - and the library itself calls those with n = 0
(hex.sign_extend n,n -> .zero 0 / .not 0; hex.add_count_bits 1 -> .inc 0).
 - hex.shl_hex 0, a  zeroes the hex that precedes a      (it expands to shl_hex 0, 1 - breaking its own "times <= n")
 - hex.shr_hex 0, a  zeroes a[0]; hex.shl_bit 0, a / hex.mul10 0, a double the hex that precedes a; hex.shr_bit 0, a halves a[0]
 - hex.if 0, a, l0, l1   jumps to l1 when the hex that precedes a is non-zero (an empty vector is 0 -> l0)
 - hex.cmp 0, a, b, lt, eq, gt   compares a[0] with b[0] instead of jumping to eq

usage: /venv/bin/python repro_3.py <path-to-checkout>
exit 1 (and prints what went wrong) when the violation is present, 0 when it is not.
The work is done in a child process with a timeout, and every FlipJump run also has an in-process
time budget (SIGALRM raising a subclass of flipjump's IODeviceException).
"""
import subprocess
import sys

CHILD_TIMEOUT = 300


def child(checkout: str) -> int:
    sys.path.insert(0, checkout)
    import signal
    import tempfile
    from pathlib import Path

    import flipjump
    from flipjump.interpreter import fjm_run
    from flipjump.interpreter.io_devices.IODevice import IODevice
    from flipjump.utils.functions import load_debugging_labels

    assert Path(flipjump.__file__).resolve().is_relative_to(Path(checkout).resolve()), flipjump.__file__

    class Dev(IODevice):
        """no IO is expected; only keeps the device<->memory hook so variables can be read after the run."""

        def __init__(self):
            self.mem = None
            self.bits = 0

        def attach_memory(self, device_memory):
            self.mem = device_memory

        def read_bit(self):
            raise flipjump.IODeviceException('unexpected input')

        def write_bit(self, bit):
            self.bits += 1

        def get_output(self, *, allow_incomplete_output=False):
            return b''

    class RunBudgetExceeded(flipjump.IODeviceException):
        pass

    def _on_alarm(signum, frame):
        raise RunBudgetExceeded('time budget exceeded')

    signal.signal(signal.SIGALRM, _on_alarm)

    def run_prog(src: str, w: int, names, bound_seconds: float = 60):
        """assemble + run (bounded); returns {name: value} of the listed hex vectors, or None if the run did not halt."""
        with tempfile.TemporaryDirectory() as d:
            fj, fjm, dbg = Path(d) / 'p.fj', Path(d) / 'p.fjm', Path(d) / 'p.dbg'
            fj.write_text(src)
            flipjump.assemble([fj], fjm, memory_width=w, debugging_file_path=dbg, print_time=False)
            labels = load_debugging_labels(dbg)
            dev = Dev()
            signal.setitimer(signal.ITIMER_REAL, bound_seconds)
            try:
                term = fjm_run.run(fjm, io_device=dev)
            except RunBudgetExceeded:
                return None
            finally:
                signal.setitimer(signal.ITIMER_REAL, 0)
            if term.termination_cause != flipjump.TerminationCause.Looping:
                return None
            out = {}
            hw = w.bit_length()
            for name, n in names:
                v = 0
                for i in range(n):
                    op = labels[name] + i * 2 * w
                    word = dev.mem.read_word((op >> (hw - 1)) + 1)
                    v |= ((word >> hw) & 0xF) << (4 * i)
                out[name] = v
            return out

    bad = []
    for w in (64, 32):
        # layout: g, a, b are adjacent one-hex variables; a[:0] is the empty vector that starts at a
        for macro in ('shl_hex', 'shr_hex', 'shl_bit', 'shr_bit', 'mul10', 'zero', 'inc', 'not'):
            src = f"""stl.startup_and_init_all
hex.{macro} 0, a
stl.loop
g: hex.hex 5
a: hex.hex 3
b: hex.hex 9
"""
            got = run_prog(src, w, [('g', 1), ('a', 1), ('b', 1)])
            if got is None:
                bad.append(f'w={w} hex.{macro} 0, a: did not halt')
            elif (got['g'], got['a'], got['b']) != (5, 3, 9):
                bad.append(f"w={w} hex.{macro} 0, a: (g, a, b) = (5, 3, 9) -> ({got['g']}, {got['a']}, {got['b']}); "
                           f"a zero-length vector op must not touch any hex")
        for code, exp, what in (('hex.if 0, a, l1, l2', 1, 'x[:0] == 0 -> l0'),
                                ('hex.cmp 0, a, b, l1, l2, l3', 2, 'a[:0] == b[:0] -> eq'),
                                ('hex.if 1, a, l1, l2', 2, 'control, n=1'),
                                ('hex.cmp 1, a, b, l1, l2, l3', 1, 'control, n=1')):
            src = f"""stl.startup_and_init_all
{code}
l1: br+dbit+0; done
l2: br+dbit+1; done
l3: br+dbit+2; done
done: stl.loop
br: hex.hex
g: hex.hex 5
a: hex.hex 3
b: hex.hex 9
"""
            got = run_prog(src, w, [('br', 1), ('g', 1), ('a', 1), ('b', 1)])
            taken = {1: 1, 2: 2, 4: 3}.get(got['br'], got['br']) if got else None
            if taken != exp:
                bad.append(f'w={w} {code} (g=5, a=3, b=9): took branch #{taken}, expected #{exp} ({what})')
    for line in bad:
        print('VIOLATION:', line)
    if not bad:
        print('no violation')
    return 1 if bad else 0


def main():
    if len(sys.argv) >= 3 and sys.argv[1] == '--child':
        sys.exit(child(sys.argv[2]))
    if len(sys.argv) != 2:
        print(__doc__)
        sys.exit(2)
    try:
        r = subprocess.run([sys.executable, __file__, '--child', sys.argv[1]], timeout=CHILD_TIMEOUT)
    except subprocess.TimeoutExpired:
        print('VIOLATION (or harness problem): the bounded run timed out')
        sys.exit(1)
    sys.exit(r.returncode)


if __name__ == '__main__':
    main()
