#!/venv/bin/python
"""
C04 finding 1: hex.add_shifted / hex.sub_shifted (and their front-ends hex.add_constant / hex.sub_constant) write past
dst[:dst_n] when the added operand is wider than the destination (src_n + hex_shift > dst_n, i.e. const >= 16^n)
instead of computing the documented formula mod 16^dst_n: the hex that FOLLOWS dst in memory is changed.
(hex.set n / hex.xor_by n truncate an oversized constant correctly.)

usage: /venv/bin/python repro_1.py <path-to-checkout>
exit 1 (and prints what went wrong) when the violation is present, 0 when it is not.
The work is done in a child process with a timeout, and every FlipJump run also has an in-process
time budget (SIGALRM raising a subclass of flipjump's IODeviceException).
"""
import subprocess
import sys

CHILD_TIMEOUT = 300


def child(checkout: str) -> int:
    sys.path.insert(0, checkout)
    import signal
    import tempfile
    from pathlib import Path

    import flipjump
    from flipjump.interpreter import fjm_run
    from flipjump.interpreter.io_devices.IODevice import IODevice
    from flipjump.utils.functions import load_debugging_labels

    assert Path(flipjump.__file__).resolve().is_relative_to(Path(checkout).resolve()), flipjump.__file__

    class Dev(IODevice):
        """no IO is expected; only keeps the device<->memory hook so variables can be read after the run."""

        def __init__(self):
            self.mem = None
            self.bits = 0

        def attach_memory(self, device_memory):
            self.mem = device_memory

        def read_bit(self):
            raise flipjump.IODeviceException('unexpected input')

        def write_bit(self, bit):
            self.bits += 1

        def get_output(self, *, allow_incomplete_output=False):
            return b''

    class RunBudgetExceeded(flipjump.IODeviceException):
        pass

    def _on_alarm(signum, frame):
        raise RunBudgetExceeded('time budget exceeded')

    signal.signal(signal.SIGALRM, _on_alarm)

    def run_prog(src: str, w: int, names, bound_seconds: float = 60):
        """assemble + run (bounded); returns {name: value} of the listed hex vectors, or None if the run did not halt."""
        with tempfile.TemporaryDirectory() as d:
            fj, fjm, dbg = Path(d) / 'p.fj', Path(d) / 'p.fjm', Path(d) / 'p.dbg'
            fj.write_text(src)
            flipjump.assemble([fj], fjm, memory_width=w, debugging_file_path=dbg, print_time=False)
            labels = load_debugging_labels(dbg)
            dev = Dev()
            signal.setitimer(signal.ITIMER_REAL, bound_seconds)
            try:
                term = fjm_run.run(fjm, io_device=dev)
            except RunBudgetExceeded:
                return None
            finally:
                signal.setitimer(signal.ITIMER_REAL, 0)
            if term.termination_cause != flipjump.TerminationCause.Looping:
                return None
            out = {}
            hw = w.bit_length()
            for name, n in names:
                v = 0
                for i in range(n):
                    op = labels[name] + i * 2 * w
                    word = dev.mem.read_word((op >> (hw - 1)) + 1)
                    v |= ((word >> hw) & 0xF) << (4 * i)
                out[name] = v
            return out

    bad = []
    for w in (64, 32):
        # a and g are adjacent: g[0] is the hex right after a[:2]
        cases = [
            ('hex.add_constant 2, a, 0x100', 0x12, 0, (0x12 + 0x100) & 0xFF),
            ('hex.add_constant 2, a, 0x1ff', 0x01, 0, (0x01 + 0x1FF) & 0xFF),
            ('hex.sub_constant 2, a, 0x100', 0x12, 0, (0x12 - 0x100) & 0xFF),
            ('hex.sub_constant 2, a, 0x123', 0x00, 0, (0x00 - 0x123) & 0xFF),
            ('hex.add_shifted 2, 2, a, b, 1', 0x00, 0xFF, (0x00 + (0xFF << 4)) & 0xFF),
            ('hex.sub_shifted 2, 2, a, b, 1', 0x00, 0x01, (0x00 - (0x01 << 4)) & 0xFF),
            # in-range control: must be right
            ('hex.add_constant 2, a, 0xff', 0x12, 0, (0x12 + 0xFF) & 0xFF),
        ]
        for code, a0, b0, exp_a in cases:
            src = f"""stl.startup_and_init_all
{code}
stl.loop
a: hex.vec 2, {a0}
g: hex.vec 2, 0x55
b: hex.vec 2, {b0}
"""
            try:
                got = run_prog(src, w, [('a', 2), ('g', 2), ('b', 2)])
            except flipjump.FlipJumpException as e:
                # a build that rejects the out-of-range operand at assembly time does not violate the property
                print(f'w={w} {code}: rejected ({type(e).__name__})')
                continue
            if got is None:
                bad.append(f'w={w} {code}: did not halt')
                continue
            msg = []
            if got['a'] != exp_a:
                msg.append(f"a={got['a']:#04x}, formula (mod 16^2) gives {exp_a:#04x}")
            if got['g'] != 0x55:
                msg.append(f"neighbour variable g changed 0x55 -> {got['g']:#04x}")
            if got['b'] != b0:
                msg.append(f"source b changed {b0:#04x} -> {got['b']:#04x}")
            if msg:
                bad.append(f'w={w} {code}  (a={a0:#04x}, b={b0:#04x}): ' + '; '.join(msg))
    for line in bad:
        print('VIOLATION:', line)
    if not bad:
        print('no violation')
    return 1 if bad else 0


def main():
    if len(sys.argv) >= 3 and sys.argv[1] == '--child':
        sys.exit(child(sys.argv[2]))
    if len(sys.argv) != 2:
        print(__doc__)
        sys.exit(2)
    try:
        r = subprocess.run([sys.executable, __file__, '--child', sys.argv[1]], timeout=CHILD_TIMEOUT)
    except subprocess.TimeoutExpired:
        print('VIOLATION (or harness problem): the bounded run timed out')
        sys.exit(1)
    sys.exit(r.returncode)


if __name__ == '__main__':
    main()
