"""C07 finding 1: a zero-length segment (accepted by the Reader) makes the native engine's
paged / hybrid storage report a spurious out-of-segment fault; flat storage and the python
engines run the same image to a clean halt."""
import os
import sys
sys.path.insert(0, os.path.dirname(os.path.abspath(__file__)))
from repro_common import bounded_main, write_fjm, run_engine


def image(w, base):
    # word layout (sorted): [0,16) code | [base+16,+24) | [base+100,+200) data | ZERO-LENGTH at base+150 |
    # four more small segments.  the program flips bit 0 of words base+160 and base+161, then halts (self-loop).
    a = base
    code = [(a + 160) * w, 4 * w, 0, 0, (a + 161) * w, 4 * w] + [0] * 10
    return [(0, 16, code), (a + 16, 8, []), (a + 100, 100, []), (a + 150, 0, []),
            (a + 1000, 8, []), (a + 2000, 8, []), (a + 3000, 8, []), (a + 4000, 8, [])], [a + 160, a + 161]


def child():
    bad = 0
    w = 64
    for title, base, configs in [
        ('small addresses', 100, [('fast', {}), ('featured', {}), ('native', {}), ('native', dict(noflat=True)),
                                  ('native', dict(flat=64)), ('native', dict(flat=64, last=4))]),
        ('segments above the DEFAULT flat window (2^23 words): default configuration', 1 << 23,
         [('fast', {}), ('native', {}), ('native', dict(noflat=True))]),
    ]:
        segs, addrs = image(w, base)
        path = write_fjm(w, segs)
        print(f'--- {title}')
        results = []
        for engine, cfg in configs:
            r = run_engine(path, engine, addrs=addrs, **cfg)
            results.append(r)
            print(f'  {engine:8} {cfg}: cause={r[0]} ops={r[1]} fault={r[2]} mem={r[4] if len(r) > 4 else None}')
        os.unlink(path)
        ref = results[0]
        for r in results[1:]:
            if (r[0], r[1], r[2], r[4]) != (ref[0], ref[1], ref[2], ref[4]):
                bad += 1
    if bad:
        print(f'VIOLATION: {bad} configuration(s) disagree with the python fast loop on the same image')
        return 1
    print('ok: all engines / storage layouts agree')
    return 0


if __name__ == '__main__':
    bounded_main(__file__, child)
