"""C07 finding 2: when a run ends with the KeyboardInterrupt termination cause (raised
deterministically by the io-device, as the stock pygame window does on close), the native
engine returns an EMPTY last-executed-ops list, while the python engines return the real one."""
import os
import sys
sys.path.insert(0, os.path.dirname(os.path.abspath(__file__)))
from repro_common import bounded_main, write_fjm, run_engine


def interrupting_device(base_cls):
    class KDev(base_cls):
        def write_bit(self, bit):
            super().write_bit(bit)
            if len(self.out) == 2:  # the 2nd output bit: the user closes the window / hits Ctrl+C
                raise KeyboardInterrupt()
    return KDev()


def child():
    w = 64
    dw = 2 * w
    # op@0: flip word 20, goto word 4 | op@4: flip word 21, goto 6 | op@6: output 0, goto 8 | op@8: output 1 -> interrupt
    code = [20 * w, 4 * w, 0, 0, 21 * w, 6 * w, dw, 8 * w, dw + 1, 10 * w, 21 * w + 1, 10 * w] + [0] * 12
    path = write_fjm(w, [(0, 24, code)])
    results = {}
    for name, engine, cfg in [('fast', 'fast', {}), ('featured', 'featured', {}), ('native flat', 'native', {}),
                              ('native paged', 'native', dict(noflat=True)), ('native hybrid', 'native', dict(flat=3))]:
        r = run_engine(path, engine, last=10, addrs=[20, 21], device=interrupting_device, **cfg)
        results[name] = r
        print(f'  {name:14}: cause={r[0]} ops={r[1]} last_ops={r[3]} mem={r[4]} out={r[5]}')
    os.unlink(path)
    ref = results['fast']
    bad = [n for n, r in results.items() if r[:4] != ref[:4]]
    if bad:
        print(f'VIOLATION: the last-executed-ops list (and only it) differs on: {bad}; expected {ref[3]}')
        return 1
    print('ok: same termination cause, op count and last-ops list on every engine')
    return 0


if __name__ == '__main__':
    bounded_main(__file__, child)
