"""shared by the repro_<k>.py scripts: bounded child process, image writer, engine runner."""
import os
import struct
import subprocess
import sys
import tempfile


def bounded_main(script, child_fn, timeout=180):
    """run child_fn in a child process with a timeout (every FlipJump run is bounded by it)."""
    if len(sys.argv) < 2:
        print(f'usage: {os.path.basename(script)} <path-to-checkout>')
        sys.exit(2)
    if '--child' in sys.argv:
        sys.path.insert(0, os.path.abspath(sys.argv[1]))
        import flipjump
        assert os.path.abspath(flipjump.__file__).startswith(os.path.abspath(sys.argv[1])), flipjump.__file__
        sys.exit(child_fn())
    try:
        rc = subprocess.run([sys.executable, os.path.abspath(script), sys.argv[1], '--child'], timeout=timeout).returncode
    except subprocess.TimeoutExpired:
        print('TIMEOUT: a run did not finish (counts as a violation)')
        rc = 1
    sys.exit(1 if rc else 0)


def write_fjm(w, segments, version=1):
    """segments: [(start_word, length_words, [data words])] -> path of an absolute-jump .fjm"""
    data, table = [], []
    for start, length, words in segments:
        table.append((start, length, len(data), len(words)))
        data.extend(words)
    tag = {8: 'B', 16: 'H', 32: 'L', 64: 'Q'}[w]
    fd, path = tempfile.mkstemp(suffix='.fjm')
    with os.fdopen(fd, 'wb') as f:
        f.write(struct.pack('<HHQQ', ord('F') + (ord('J') << 8), w, version, len(table)))
        if version:
            f.write(struct.pack('<QL', 0, 0))
        for t in table:
            f.write(struct.pack('<QQQQ', *t))
        f.write(struct.pack(f'<{len(data)}{tag}', *data))
    return path


def run_engine(path, engine, *, addrs=(), last=None, flat=None, noflat=False, device=None):
    """engine: 'fast' | 'featured' | 'native'. returns (cause, ops, fault, last_ops, {addr: word}) or ('EXC', text)."""
    from pathlib import Path
    from flipjump.interpreter import fjm_run
    from flipjump.interpreter.io_devices.IODevice import IODevice
    from flipjump.utils.exceptions import IODeviceException

    class Budget(IODeviceException):
        pass

    class Dev(IODevice):
        def __init__(self):
            self.dm, self.out, self.budget = None, [], 10000

        def attach_memory(self, dm):
            self.dm = dm

        def read_bit(self):
            raise Budget('no input expected')

        def write_bit(self, bit):
            self.budget -= 1
            if self.budget < 0:
                raise Budget('callback budget exhausted')
            self.out.append(int(bit))

        def get_output(self, *, allow_incomplete_output=False):
            return bytes(self.out)

    assert fjm_run._fjcore is not None, 'the native engine is not built in this checkout'
    for k in ('FLIPJUMP_NO_NATIVE', 'FLIPJUMP_NO_FLAT', 'FLIPJUMP_MEASURE_SPECULATION', 'FLIPJUMP_FLAT_MAX_WORDS'):
        os.environ.pop(k, None)
    kw = {}
    if engine == 'fast':
        os.environ['FLIPJUMP_NO_NATIVE'] = '1'
    elif engine == 'featured':
        kw['profile'] = True
    else:
        if noflat:
            os.environ['FLIPJUMP_NO_FLAT'] = '1'
        if flat:
            kw['flat_max_words'] = flat
    dev = device(Dev) if device else Dev()
    try:
        st = fjm_run.run(Path(path), io_device=dev, last_ops_debugging_list_length=last, **kw)
    except Exception as e:  # noqa
        return ('EXC', f'{type(e).__name__}: {e} <- {e.__cause__!r}')
    finally:
        for k in ('FLIPJUMP_NO_NATIVE', 'FLIPJUMP_NO_FLAT'):
            os.environ.pop(k, None)
    mem = {a: dev.dm.read_word(a) for a in addrs}
    return (st.termination_cause.name, st.op_counter, st.memory_error_address,
            None if st.last_ops_addresses is None else list(st.last_ops_addresses), mem, dev.out)
