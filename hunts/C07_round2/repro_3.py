"""C07 finding 3 (borderline: needs an io-device that uses DeviceMemory.write_word): a word outside
every segment that the device wrote during the run is ordinary memory for the python engines
(the program may then flip / read it), but stays out-of-segment for the native engine (fault)."""
import os
import sys
sys.path.insert(0, os.path.dirname(os.path.abspath(__file__)))
from repro_common import bounded_main, write_fjm, run_engine

TARGET = 100  # a word outside the only segment [0, 24)


def writing_device(base_cls):
    class WDev(base_cls):
        def write_bit(self, bit):
            super().write_bit(bit)
            self.dm.write_word(TARGET, 0b100)  # the documented device->memory hook
    return WDev()


def child():
    w = 64
    dw = 2 * w
    # op@0: flip word 20, goto 4 | op@4: output 0 (device writes word 100), goto 6 | op@6: flip bit 0 of word 100, halt
    code = [20 * w, 4 * w, 0, 0, dw, 6 * w, TARGET * w, 6 * w] + [0] * 16
    path = write_fjm(w, [(0, 24, code)])
    results = {}
    for name, engine, cfg in [('fast', 'fast', {}), ('featured', 'featured', {}), ('native flat', 'native', {}),
                              ('native paged', 'native', dict(noflat=True)), ('native hybrid', 'native', dict(flat=3))]:
        r = run_engine(path, engine, last=5, addrs=[20, TARGET], device=writing_device, **cfg)
        results[name] = r
        print(f'  {name:14}: cause={r[0]} ops={r[1]} fault={r[2]} last_ops={r[3]} mem={r[4]}')
    os.unlink(path)
    ref = results['fast']
    bad = [n for n, r in results.items() if r[:5] != ref[:5]]
    if bad:
        print(f'VIOLATION: result differs from the python fast loop on: {bad}')
        return 1
    print('ok: all engines agree')
    return 0


if __name__ == '__main__':
    bounded_main(__file__, child)
