"""C07 finding 4: an image (produced with the library's own Writer) that has an extra, never-touched
segment ending exactly at word address 2^64 runs to a clean halt on the python engines, but the
native engine refuses it with the generic 'Unknown exception ... please report this bug' error."""
import os
import sys
import tempfile
sys.path.insert(0, os.path.dirname(os.path.abspath(__file__)))
from repro_common import bounded_main, run_engine


def child():
    from pathlib import Path
    from flipjump.fjm.fjm_writer import Writer
    from flipjump.fjm.fjm_consts import FJMVersion
    w = 64
    fd, path = tempfile.mkstemp(suffix='.fjm')
    os.close(fd)
    writer = Writer(Path(path), w, FJMVersion.NormalVersion)
    # op@0: flip word 6, goto word 4 | op@4: flip word 7, halt (self-loop)
    writer.add_simple_segment_with_data(0, [6 * w, 4 * w, 0, 0, 7 * w, 4 * w, 0, 0])
    writer.add_segment((1 << 64) - 2, 2, 0, 0)  # [2^64-2, 2^64): zero-filled, the program never goes there
    writer.write_to_file()
    results = {}
    for name, engine, cfg in [('fast', 'fast', {}), ('featured', 'featured', {}), ('native', 'native', {}),
                              ('native paged', 'native', dict(noflat=True))]:
        r = run_engine(path, engine, addrs=[6, 7], **cfg)
        results[name] = r
        print(f'  {name:13}: {r[:3] + (r[4],) if r[0] != "EXC" else r}')
    os.unlink(path)
    def norm(r):  # an image refused the same way by every engine is not a violation
        return ('EXC', r[1].split(':')[0]) if r[0] == 'EXC' else (r[:3], r[4])

    ref = results['fast']
    bad = [n for n, r in results.items() if norm(r) != norm(ref)]
    if bad:
        print(f'VIOLATION: result differs from the python fast loop on: {bad}')
        return 1
    print('ok: all engines agree')
    return 0


if __name__ == '__main__':
    bounded_main(__file__, child)
