#!/usr/bin/env python
"""C05 finding 4: the doc formula of bit.neg is "x[:n]--" but the macro computes x[:n] = -x[:n].

usage: /venv/bin/python repro_4.py <path-to-checkout>
exit 1 (and a description) when the violation is present, exit 0 when it is not.

Bounding: the FlipJump runs happen in a child process killed after CHILD_TIMEOUT seconds; the IO device
additionally raises a subclass of flipjump's IODeviceException once an IO-callback budget is exhausted.
"""

import os
import subprocess
import sys

CHILD_TIMEOUT = 300


def main(child_fn):
    """parent: re-run this script as a bounded child; child: import the checkout and call child_fn()."""
    if len(sys.argv) < 2:
        print('usage: %s <path-to-checkout>' % sys.argv[0])
        sys.exit(2)
    checkout = os.path.abspath(sys.argv[1])
    if os.environ.get('C05_CHILD') != '1':
        env = dict(os.environ, C05_CHILD='1')
        try:
            p = subprocess.run([sys.executable, os.path.abspath(sys.argv[0]), checkout], env=env, timeout=CHILD_TIMEOUT)
        except subprocess.TimeoutExpired:
            print('VIOLATION (or hang): child did not finish within %d s' % CHILD_TIMEOUT)
            sys.exit(1)
        sys.exit(p.returncode)
    sys.path.insert(0, checkout)
    import flipjump
    assert os.path.abspath(flipjump.__file__).startswith(checkout), flipjump.__file__
    sys.exit(child_fn())


def asm_run(src, inp, w, budget=20_000_000):
    """assemble src (with the stl) at memory width w, run it on the fixed input; returns (cause, output)."""
    from pathlib import Path
    from tempfile import TemporaryDirectory
    from flipjump import assemble, run, FixedIO, IODeviceException

    class Budget(IODeviceException):
        pass

    class BoundedIO(FixedIO):
        left = budget

        def read_bit(self):
            self.left -= 1
            if self.left < 0:
                raise Budget('io budget exhausted')
            return super().read_bit()

        def write_bit(self, bit):
            self.left -= 1
            if self.left < 0:
                raise Budget('io budget exhausted')
            return super().write_bit(bit)

    with TemporaryDirectory() as d:
        fj = Path(d) / 't.fj'
        fj.write_text(src)
        fjm = Path(d) / 't.fjm'
        assemble([fj], fjm, memory_width=w, print_time=False, warning_as_errors=False)
        io = BoundedIO(inp)
        st = run(fjm, io_device=io, print_time=False, print_termination=False)
        return st.termination_cause, io.get_output(allow_incomplete_output=True)


def child():
    import os, re
    import flipjump
    path = os.path.join(os.path.dirname(flipjump.__file__), 'stl', 'bit', 'math.fj')
    lines = open(path).read().splitlines()
    k = next(i for i, l in enumerate(lines) if re.match(r'\s*def neg n, x', l))
    doc = []
    j = k - 1
    while j >= 0 and lines[j].strip().startswith('//'):
        doc.insert(0, lines[j].strip()); j -= 1
    formula = [d for d in doc if 'x[:n]' in d and 'Complexity' not in d and 'is a bit' not in d]
    ftxt = formula[0] if formula else ''
    n = 8
    if re.search(r'x\[:n\]\s*--', ftxt):
        spec, f = 'x - 1', (lambda x: (x - 1) & 0xff)
    elif re.search(r'-\s*x\[:n\]', ftxt):
        spec, f = '-x', (lambda x: (-x) & 0xff)
    else:
        print('cannot interpret the doc formula of bit.neg: %r' % doc)
        return 1
    src = """stl.startup
loop:
bit.input mem
bit.neg 8, mem
bit.print mem
;loop
mem: bit.vec 8
"""
    bad = []
    for w in (16, 32, 64):
        inp = bytes(range(256))
        cause, out = asm_run(src, inp, w)
        wrong = [(x, out[x] if x < len(out) else None) for x in range(256) if out[x:x + 1] != bytes([f(x)])]
        if wrong:
            bad.append('w=%d bit.neg 8, x: x=%d -> %s, the doc formula (%s) gives %d; %d of 256 values differ (cause %s)' % (
                w, wrong[0][0], wrong[0][1], spec, f(wrong[0][0]), len(wrong), cause))
    if bad:
        print('VIOLATION: bit.neg does not compute its documented formula %r:' % ftxt)
        print('\n'.join('  ' + b for b in bad))
        return 1
    print('ok: bit.neg matches its doc formula %r' % ftxt)
    return 0


if __name__ == '__main__':
    main(child)
