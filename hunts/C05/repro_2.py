#!/usr/bin/env python
"""C05 finding 2: bit.sub n, x, x yields 2*x instead of 0 (doc: dst[:n] -= src[:n]); bit.add/bit.mul handle the same aliasing.

usage: /venv/bin/python repro_2.py <path-to-checkout>
exit 1 (and a description) when the violation is present, exit 0 when it is not.

Bounding: the FlipJump runs happen in a child process killed after CHILD_TIMEOUT seconds; the IO device
additionally raises a subclass of flipjump's IODeviceException once an IO-callback budget is exhausted.
"""

import os
import subprocess
import sys

CHILD_TIMEOUT = 300


def main(child_fn):
    """parent: re-run this script as a bounded child; child: import the checkout and call child_fn()."""
    if len(sys.argv) < 2:
        print('usage: %s <path-to-checkout>' % sys.argv[0])
        sys.exit(2)
    checkout = os.path.abspath(sys.argv[1])
    if os.environ.get('C05_CHILD') != '1':
        env = dict(os.environ, C05_CHILD='1')
        try:
            p = subprocess.run([sys.executable, os.path.abspath(sys.argv[0]), checkout], env=env, timeout=CHILD_TIMEOUT)
        except subprocess.TimeoutExpired:
            print('VIOLATION (or hang): child did not finish within %d s' % CHILD_TIMEOUT)
            sys.exit(1)
        sys.exit(p.returncode)
    sys.path.insert(0, checkout)
    import flipjump
    assert os.path.abspath(flipjump.__file__).startswith(checkout), flipjump.__file__
    sys.exit(child_fn())


def asm_run(src, inp, w, budget=20_000_000):
    """assemble src (with the stl) at memory width w, run it on the fixed input; returns (cause, output)."""
    from pathlib import Path
    from tempfile import TemporaryDirectory
    from flipjump import assemble, run, FixedIO, IODeviceException

    class Budget(IODeviceException):
        pass

    class BoundedIO(FixedIO):
        left = budget

        def read_bit(self):
            self.left -= 1
            if self.left < 0:
                raise Budget('io budget exhausted')
            return super().read_bit()

        def write_bit(self, bit):
            self.left -= 1
            if self.left < 0:
                raise Budget('io budget exhausted')
            return super().write_bit(bit)

    with TemporaryDirectory() as d:
        fj = Path(d) / 't.fj'
        fj.write_text(src)
        fjm = Path(d) / 't.fjm'
        assemble([fj], fjm, memory_width=w, print_time=False, warning_as_errors=False)
        io = BoundedIO(inp)
        st = run(fjm, io_device=io, print_time=False, print_termination=False)
        return st.termination_cause, io.get_output(allow_incomplete_output=True)


def child():
    bad = []
    n = 8
    for w in (16, 32, 64):
        src = """stl.startup
loop:
rep(2, i) bit.input mem+8*i*dw
bit.sub %d, mem, mem
bit.print 2, mem
;loop
mem: bit.vec 16
""" % n
        inp = b''.join(bytes([x, 0xa5]) for x in range(256))
        cause, out = asm_run(src, inp, w)
        wrong = []
        for x in range(256):
            o = out[2 * x:2 * x + 2]
            if o != bytes([0, 0xa5]):
                wrong.append((x, o))
        if wrong:
            x, o = wrong[0]
            bad.append('w=%d bit.sub 8, x, x : x=%d -> x=%s (documented x - x = 0); %d of 256 operand values wrong (cause %s)' % (
                w, x, o[0] if o else None, len(wrong), cause))
    if bad:
        print('VIOLATION: bit.sub n, dst, src with dst==src does not compute dst -= src:')
        print('\n'.join('  ' + b for b in bad))
        return 1
    print('ok: bit.sub n, x, x gives 0 for every x')
    return 0


if __name__ == '__main__':
    main(child)
