#!/usr/bin/env python
"""C05 finding 3: bit.idiv / bit.idiv_loop with an output aliasing an input (a /= b, a %= b, ...) give wrong q / r; bit.div / bit.div_loop do not.

usage: /venv/bin/python repro_3.py <path-to-checkout>
exit 1 (and a description) when the violation is present, exit 0 when it is not.

Bounding: the FlipJump runs happen in a child process killed after CHILD_TIMEOUT seconds; the IO device
additionally raises a subclass of flipjump's IODeviceException once an IO-callback budget is exhausted.
"""

import os
import subprocess
import sys

CHILD_TIMEOUT = 300


def main(child_fn):
    """parent: re-run this script as a bounded child; child: import the checkout and call child_fn()."""
    if len(sys.argv) < 2:
        print('usage: %s <path-to-checkout>' % sys.argv[0])
        sys.exit(2)
    checkout = os.path.abspath(sys.argv[1])
    if os.environ.get('C05_CHILD') != '1':
        env = dict(os.environ, C05_CHILD='1')
        try:
            p = subprocess.run([sys.executable, os.path.abspath(sys.argv[0]), checkout], env=env, timeout=CHILD_TIMEOUT)
        except subprocess.TimeoutExpired:
            print('VIOLATION (or hang): child did not finish within %d s' % CHILD_TIMEOUT)
            sys.exit(1)
        sys.exit(p.returncode)
    sys.path.insert(0, checkout)
    import flipjump
    assert os.path.abspath(flipjump.__file__).startswith(checkout), flipjump.__file__
    sys.exit(child_fn())


def asm_run(src, inp, w, budget=20_000_000):
    """assemble src (with the stl) at memory width w, run it on the fixed input; returns (cause, output)."""
    from pathlib import Path
    from tempfile import TemporaryDirectory
    from flipjump import assemble, run, FixedIO, IODeviceException

    class Budget(IODeviceException):
        pass

    class BoundedIO(FixedIO):
        left = budget

        def read_bit(self):
            self.left -= 1
            if self.left < 0:
                raise Budget('io budget exhausted')
            return super().read_bit()

        def write_bit(self, bit):
            self.left -= 1
            if self.left < 0:
                raise Budget('io budget exhausted')
            return super().write_bit(bit)

    with TemporaryDirectory() as d:
        fj = Path(d) / 't.fj'
        fj.write_text(src)
        fjm = Path(d) / 't.fjm'
        assemble([fj], fjm, memory_width=w, print_time=False, warning_as_errors=False)
        io = BoundedIO(inp)
        st = run(fjm, io_device=io, print_time=False, print_termination=False)
        return st.termination_cause, io.get_output(allow_incomplete_output=True)


def sgn(x, n):
    return x - (1 << n) if x >> (n - 1) & 1 else x


def tdiv(a, b):
    q = abs(a) // abs(b)
    if (a < 0) != (b < 0):
        q = -q
    return q, a - q * b


def child():
    n = 4
    M = (1 << n) - 1
    bad = []
    # layout (bit offsets in mem): a at 0..3, b at 4..7, other at 8..11, guard nibble 12..15
    forms = {
        'q==a (a /= b)': ('{m} %d, mem, mem+4*dw, mem, mem+8*dw', lambda a, b, q, r: (q, b, r)),
        'r==a (a %%= b)': ('{m} %d, mem, mem+4*dw, mem+8*dw, mem', lambda a, b, q, r: (r, b, q)),
        'q==b': ('{m} %d, mem, mem+4*dw, mem+4*dw, mem+8*dw', lambda a, b, q, r: (a, q, r)),
        'r==b': ('{m} %d, mem, mem+4*dw, mem+8*dw, mem+4*dw', lambda a, b, q, r: (a, r, q)),
    }
    for macro in ('bit.idiv', 'bit.idiv_loop', 'bit.div', 'bit.div_loop'):
        signed = 'idiv' in macro
        for form, (tmpl, place) in forms.items():
            call = tmpl.replace('%%', '%').format(m=macro) % n
            src = """stl.startup
loop:
rep(2, i) bit.input mem+8*i*dw
%s
bit.print 2, mem
;loop
mem: bit.vec 16
""" % call
            cases = [(a, b) for a in range(16) for b in range(16)]
            inp = b''.join(bytes([a | (b << 4), 0x5a]) for a, b in cases)
            cause, out = asm_run(src, inp, 64)
            wrong = []
            for i, (a, b) in enumerate(cases):
                if b == 0:
                    exp = (a, b, 0xa)
                else:
                    if signed:
                        q, r = tdiv(sgn(a, n), sgn(b, n))
                    else:
                        q, r = a // b, a % b
                    exp = place(a, b, q & M, r & M)
                o = out[2 * i:2 * i + 2]
                e = bytes([(exp[0] & M) | ((exp[1] & M) << 4), (exp[2] & M) | 0x50])
                if o != e:
                    wrong.append((a, b, o, e))
            if wrong:
                a, b, o, e = wrong[0]
                bad.append('%s n=4 %s: a=%d(%d) b=%d(%d): memory (a|b<<4, other|guard) = %s, documented %s; %d of 256 operand pairs wrong (cause %s)' % (
                    macro, form.replace('%%', '%'), a, sgn(a, n), b, sgn(b, n), o.hex(), e.hex(), len(wrong), cause))
    if bad:
        print('VIOLATION: signed division with an output operand that is also an input operand:')
        print('\n'.join('  ' + b for b in bad))
        return 1
    print('ok: idiv / idiv_loop / div / div_loop are correct with q or r aliasing a or b')
    return 0


if __name__ == '__main__':
    main(child)
