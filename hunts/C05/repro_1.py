#!/usr/bin/env python
"""C05 finding 1: bit.xor_zero with dst==src leaves the variable unchanged (doc: dst ^= src; src = 0  ->  0).

usage: /venv/bin/python repro_1.py <path-to-checkout>
exit 1 (and a description) when the violation is present, exit 0 when it is not.

Bounding: the FlipJump runs happen in a child process killed after CHILD_TIMEOUT seconds; the IO device
additionally raises a subclass of flipjump's IODeviceException once an IO-callback budget is exhausted.
"""

import os
import subprocess
import sys

CHILD_TIMEOUT = 300


def main(child_fn):
    """parent: re-run this script as a bounded child; child: import the checkout and call child_fn()."""
    if len(sys.argv) < 2:
        print('usage: %s <path-to-checkout>' % sys.argv[0])
        sys.exit(2)
    checkout = os.path.abspath(sys.argv[1])
    if os.environ.get('C05_CHILD') != '1':
        env = dict(os.environ, C05_CHILD='1')
        try:
            p = subprocess.run([sys.executable, os.path.abspath(sys.argv[0]), checkout], env=env, timeout=CHILD_TIMEOUT)
        except subprocess.TimeoutExpired:
            print('VIOLATION (or hang): child did not finish within %d s' % CHILD_TIMEOUT)
            sys.exit(1)
        sys.exit(p.returncode)
    sys.path.insert(0, checkout)
    import flipjump
    assert os.path.abspath(flipjump.__file__).startswith(checkout), flipjump.__file__
    sys.exit(child_fn())


def asm_run(src, inp, w, budget=20_000_000):
    """assemble src (with the stl) at memory width w, run it on the fixed input; returns (cause, output)."""
    from pathlib import Path
    from tempfile import TemporaryDirectory
    from flipjump import assemble, run, FixedIO, IODeviceException

    class Budget(IODeviceException):
        pass

    class BoundedIO(FixedIO):
        left = budget

        def read_bit(self):
            self.left -= 1
            if self.left < 0:
                raise Budget('io budget exhausted')
            return super().read_bit()

        def write_bit(self, bit):
            self.left -= 1
            if self.left < 0:
                raise Budget('io budget exhausted')
            return super().write_bit(bit)

    with TemporaryDirectory() as d:
        fj = Path(d) / 't.fj'
        fj.write_text(src)
        fjm = Path(d) / 't.fjm'
        assemble([fj], fjm, memory_width=w, print_time=False, warning_as_errors=False)
        io = BoundedIO(inp)
        st = run(fjm, io_device=io, print_time=False, print_termination=False)
        return st.termination_cause, io.get_output(allow_incomplete_output=True)


def child():
    bad = []
    for w in (16, 32, 64):
        # single bit
        src = """stl.startup
loop:
bit.input mem
bit.xor_zero mem, mem
bit.print mem
;loop
mem: bit.vec 8
"""
        cause, out = asm_run(src, bytes([0, 1, 0xfe, 0xff]), w)
        # only bit 0 is the operand; bits 1..7 are bystanders and must stay
        exp = bytes([0, 0, 0xfe, 0xfe])
        if out != exp:
            bad.append('w=%d bit.xor_zero x, x : inputs 00 01 fe ff -> %s, documented %s (cause %s)' % (w, out.hex(), exp.hex(), cause))
        # vector, n = 4 (low nibble is the operand, high nibble are bystanders)
        src = """stl.startup
loop:
bit.input mem
bit.xor_zero 4, mem, mem
bit.print mem
;loop
mem: bit.vec 8
"""
        inp = bytes(range(256))
        cause, out = asm_run(src, inp, w)
        exp = bytes(x & 0xf0 for x in inp)
        if out != exp:
            k = next(i for i in range(len(exp)) if out[i:i + 1] != exp[i:i + 1])
            bad.append('w=%d bit.xor_zero 4, x, x : x=%d -> %s, documented %d (%d of 256 inputs wrong)' % (
                w, k & 15, (out[k] & 15) if k < len(out) else None, 0, sum(1 for i in range(256) if out[i:i + 1] != exp[i:i + 1])))
    if bad:
        print('VIOLATION: bit.xor_zero dst, src with dst==src does not compute "dst ^= src; src = 0":')
        print('\n'.join('  ' + b for b in bad))
        return 1
    print('ok: bit.xor_zero x, x zeroes x')
    return 0


if __name__ == '__main__':
    main(child)
